"""Differential self-test of the translator harness/py2coq2.py (part of the trusted base).

For every (function, input) pair: run the REAL Python function (exceptions mapped to PExc <class name>),
let Coq evaluate the translated definition on the encoded input (vm_compute, work/py2coq2/selftest.v) and
compare with the encoded Python result.  Any difference is printed and the exit status is 1.

    cd /verif && PYTHONHASHSEED=0 PYTHONPATH=/repo/src:/verif /venv/bin/python -m harness.py2coq2_selftest

Agreement rule.  The Coq value must be syntactically equal (pyval_eqb: dict order included) to the encoding
of the Python outcome.  One exception, the fail-closed one: when Python raised TypeError, AttributeError,
UnboundLocalError or NameError (dynamic type confusion, which the embedding represents by PErr and never
catches), PErr is accepted as well.  A few corpus entries are marked refuse=True: their inputs reach
constructs that the embedding refuses on purpose (PErr) although Python computes a value; there PErr is
accepted too, any OTHER value still has to agree.  Refusals are counted and reported.
The corpus also lists functions that MUST be refused (Untranslatable).
"""
import ast
import copy
import os
import random
import re
import sys
import time

from harness import common, py2coq2

SEED = 20261001
CHUNK = 150
WD = os.path.join(common.WORK, "py2coq2")
REFUSABLE = ("TypeError", "AttributeError", "UnboundLocalError", "NameError")

# ---------------------------------------------------------------------------- the corpus (supported subset)
CORPUS_SRC = r'''
class Rec:
    def __init__(self, **kw):
        self.__dict__.update(kw)

class Sub(Rec):
    pass

class Other:
    def __init__(self, **kw):
        self.__dict__.update(kw)

class MyError(Exception):
    pass

class SubError(MyError):
    pass

class OtherError(Exception):
    pass

LIMIT = 3

def now():
    return 5

def helper_double(x):
    return x * 2

def helper_kw(a, b=0, sep="-"):
    return str(a) + sep + str(b)

def pct(fmt, arg):
    return fmt % arg


def c01(x, d):
    return x and d["k"]

def c02(x, d):
    return x or d["k"]

def c03(xs):
    out = []
    for x in xs:
        try:
            v = int(x)
        except ValueError:
            break
        out.append(v)
    return out

def c04(xs, t):
    for x in xs:
        if x == t:
            r = "found"
            break
    else:
        r = "missing"
    return r

def c05(d, k1, k2):
    try:
        try:
            a = d[k1]
        except KeyError:
            a = d[k2]
    except KeyError:
        return "none"
    return a

def c06(d, k):
    try:
        return d[k]
    except KeyError:
        if k == "x":
            raise
        return None

def c07(s):
    try:
        n = int(s)
    except ValueError:
        return -1
    return n + 1

def c08(xs):
    lo = None
    hi = None
    n = 0
    for x in xs:
        n += 1
        if lo is None or x < lo:
            lo = x
        if hi is None or x > hi:
            hi = x
    return [lo, hi, n]

def c09(d, k, v):
    d[k] = v
    d["z"] = 0
    d[k] = 1
    return list(d.items())

def c10(d, k):
    del d[k]
    d[k] = "again"
    return d

def c11(xs, i):
    return [xs[-1], xs[i]]

def c12(d, k):
    return [d.get(k), d.get(k, "dflt"), d.get("k", 0)]

def c13(c):
    if c:
        x = 1
    return x

def c14(d, k):
    try:
        v = d[k]
    except KeyError:
        r = "no"
    else:
        r = "yes:" + str(v)
    return r

def c15(xs, i, d):
    try:
        return d[xs[i]]
    except (KeyError, IndexError):
        return "lookup"

def c16(xs, i, d):
    try:
        return d[xs[i]]
    except LookupError:
        return "lookup"

def c17(x):
    try:
        if x < 0:
            raise SubError("neg")
        if x == 0:
            raise MyError("zero")
        if x > 4:
            raise OtherError("big")
    except MyError as e:
        if x < -2:
            raise e
        return "mine"
    return "ok"

def c18(d, k):
    try:
        try:
            return d[k]
        except KeyError:
            return d["fallback"]
    except KeyError:
        return "nothing"

def c19(xs):
    s = 0
    skipped = 0
    for x in xs:
        if x < 0:
            skipped += 1
            continue
        s += x
    return [s, skipped]

def c20(xss, t):
    for xs in xss:
        for x in xs:
            if x == t:
                break
            if x < 0:
                return "neg"
        else:
            continue
        return xs
    return None

def c21(d):
    out = []
    for k, v in d.items():
        if v:
            out.append(k)
    return out

def c22(a, b, d):
    return a < b < d["k"]

def c23(d, k):
    d[k] += 1
    d["n"] = d.get("n", 0) + 1
    return d

def c24(self, y):
    self.items.append(y)
    self.n += 1
    return len(self.items)

def c25(xs, ys):
    out = []
    out.extend(xs)
    out.extend(y for y in ys if y)
    out += [0]
    return out

def c26(d, e):
    d.update(e)
    d.update({"k": 1})
    return d

def c27(d, k):
    a = d.pop(k, None)
    b = d.pop("k")
    return [a, b, d]

def c28(d, k):
    v = d.setdefault(k, 7)
    d.setdefault("k", 5)
    return [v, d]

def c29(x):
    if isinstance(x, bool):
        return "bool"
    if isinstance(x, int):
        return "int"
    if isinstance(x, str):
        return "str"
    if isinstance(x, (list, tuple)):
        return "seq"
    if isinstance(x, dict):
        return "dict"
    return "other"

def c30(o):
    if isinstance(o, Sub):
        return "sub"
    if isinstance(o, Rec):
        return "rec"
    return "none"

def c31(s):
    return [s.lower(), s.upper(), s.strip(), s.strip("a"), s.lstrip(), s.rstrip(" b")]

def c32(s, sep):
    return s.split(sep)

def c33(s):
    return s.split()

def c34(xs, sep):
    return sep.join(xs)

def c35(s, a, b):
    return s.replace(a, b)

def c36(s, t):
    return [s.find(t), s.startswith(t), s.endswith(t), t in s, t not in s]

def c37(a, b):
    return ["{0}-{1}/{0}".format(a, b), "{}:{}".format(b, a)]

def c38(a, n):
    return f"<{a}:{n + 1}>"

def c39(x):
    return [str(x), bool(x), len(str(x))]

def c40(s):
    return int(s) * 2

def c41(x, c):
    return [x in c, x not in c]

def c42(xs):
    return [x + 1 for x in xs if x > 0]

def c43(d):
    return [k + "=" + str(v) for k, v in d.items()]

def c44(xs, d):
    return any(d[x] for x in xs)

def c45(xs):
    return all(x > 0 for x in xs if x != 3)

def c46(xs):
    return sorted(set(xs))

def c47(xs):
    return [sorted(xs), len(set(xs)), list(xs)]

def c48(a, b):
    return (a if a > b else b) - (-a) * 2

def c49(o):
    return [getattr(o, "name", "anon"), hasattr(o, "name"), hasattr(o, "zzz")]

def c50(o):
    try:
        return o.subject.name
    except AttributeError:
        return "no subject"

def c51(a, **kwargs):
    return [a, kwargs.get("x", 0), len(kwargs)]

def c52(x):
    return helper_kw(x, 1, sep="+") + helper_kw(helper_double(x))

def c53(x):
    return x < now()

def c54(d, a):
    return {"a": int(a), "b": d["k"], "c": [a, d["j"]]}

def c55(xs, i, j):
    return [xs[i:j], xs[1:], xs[:-1], xs[:]]

def c56(a, b):
    a, b = b, a + b
    return [a, b]

def c57(p):
    x, y = p
    return x + y

def c58(x):
    assert x > 0
    return x

def c59(xs):
    total = 0
    for i in xs:
        total = total + i
    return total

def c60(self, k, v):
    self.attrs[k] = v
    self.count = len(self.attrs)

def c61(d):
    return [list(d.keys()), list(d.values()), len(d)]

def c62(xs):
    result = []
    for x in xs:
        if x in result:
            continue
        result.append(x)
    return result

def c63(s):
    parts = s.partition("=")
    return [parts[0], parts[2]]

def c64(xs):
    for x in xs:
        pass
    return x

def c65(x, y):
    return x == y, x != y

def c66(x):
    if x is None:
        return "none"
    if x is True:
        return "true"
    if x is not False:
        return "not false"
    return "false"

def c67(xs, d):
    seen = []
    misses = 0
    for x in xs:
        try:
            v = d[x]
        except KeyError:
            misses += 1
            continue
        else:
            seen.append(v)
        if misses > 1:
            break
    else:
        seen.append("end")
    return [seen, misses]

def c68(a, b):
    return [a + b, a * b, a - b, -a, a <= b, a >= b]

def c69(a, b):
    return [a < b, a > b, a <= b, a >= b, a == b]

def c70(d):
    return {k: v for k, v in d.items() if v is not None}

def c71(xs):
    n = 0
    try:
        for x in xs:
            if x == 0:
                raise MyError("zero")
            if x < 0:
                raise ValueError("neg")
            n += x
    except MyError:
        return ["mine", n]
    except Exception:
        return ["other", n]
    return ["ok", n]

def c72(d, ks):
    gone = 0
    for k in ks:
        try:
            del d[k]
        except KeyError:
            pass
        else:
            gone += 1
    return [d, gone]

def c73(x):
    if x < 0:
        s = "neg"
    elif x == 0:
        s = "zero"
    elif x < LIMIT:
        s = "small"
    else:
        s = "big"
    if x == 1:
        s = s + "!"
    t = s + "."
    if x == 2:
        return t
    return t + t

def c74(o, v):
    o.name = v
    o.tags += [v]
    return o

def c75(xs):
    n = 0
    try:
        for x in xs:
            n += 1
            if x < 0:
                raise ValueError("neg")
    except ValueError:
        return ["neg at", n]
    return ["ok", n]

def c76(d, x):
    if x:
        raise ValueError(d["k"])
    raise MyError("plain")

def c77(xs):
    out = {}
    for x in xs:
        out[x] = out.get(x, 0) + 1
    return out

def c78(self, name):
    if name in self.cache:
        return self.cache[name]
    try:
        v = self.table[name]
    except KeyError:
        self.misses += 1
        raise
    self.cache[name] = v
    return v

def c79(d):
    out = []
    for k in d:
        out.append(k)
    for ch in "ab":
        out.append(ch)
    return out

def c80(x, d):
    return x and d["k"] or "dflt"

def c81(xs, i):
    xs[i] = "new"
    return xs

def c82(a, b):
    return pct("%s=%s", (a, b))

def c83(d):
    r = []
    for k, v in d.items():
        if isinstance(v, dict):
            for k2, v2 in v.items():
                r.append(k + "." + k2)
        else:
            r.append(k)
    return r

def c84(x):
    try:
        try:
            if x == 1:
                raise KeyError("a")
            if x == 2:
                raise ValueError("b")
            if x == 3:
                raise MyError("c")
        except KeyError:
            raise ValueError("from key")
        except ValueError:
            return "inner value"
    except ValueError:
        return "outer value"
    except Exception:
        return "outer any"
    return "none"

def c85(a, *rest):
    return [a, len(rest), list(rest)]

def c86(o, names):
    out = []
    for n in names:
        v = getattr(o, n, None)
        if isinstance(v, Rec):
            out.append("rec")
        elif hasattr(o, n):
            out.append(getattr(o, n))
    return out

def c87(o, pairs):
    for name, v in pairs:
        if not name:
            continue
        setattr(o, name, v)
    return o

def c88(s, i):
    head, sep, tail = s.partition("b")
    return [s[:i], s[i:], s[0:-1].upper(), s[i], head, bool(sep), tail]

def c89(xs, i):
    assert isinstance(xs, list), "list wanted"
    if 0 <= i < len(xs):
        return helper_kw(xs[i], b=i, sep=":")
    return helper_kw("none", sep="/")

def c90(a, b, c):
    s = {a, b, c}
    return [len(s), sorted({b, a}), a in {b, c}]

def c91(d, k):
    try:
        v = d[k]
    except KeyError:
        v = -1
    else:
        if v < 0:
            raise ValueError("negative")
    try:
        w = d["j"]
    except KeyError:
        w = v
    return [v, w, 0 < v <= w]

def c92(xs, lim):
    acc = []
    total = 0
    for i in xs:
        for j in xs:
            if j > i:
                continue
            if i + j > lim:
                break
            total += i * j
            acc.append([i, j])
        else:
            total -= 1
    return [total, acc]

def c93(xs, t):
    n = 0
    acc = []
    while n < len(xs):
        if xs[n] == t:
            break
        acc.append(xs[n])
        n += 1
    else:
        acc.append(-1)
    return [n, acc]

def c94(d, k):
    old = None
    cur = k
    steps = 0
    while cur in d and old != cur and steps < 6:
        old = cur
        try:
            cur = d[cur]
            if cur == 0:
                raise ValueError("zero")
        except ValueError:
            continue
        else:
            steps += 1
    return [cur, steps, old]

def c95(xss, t):
    for xs in xss:
        j = 0
        while j < len(xs):
            if xs[j] == t:
                return [xs, j]
            if xs[j] < 0:
                raise KeyError("negative")
            j += 1
    return None

def c96(n):
    while True:
        if n > 3:
            return n
        n += 2
'''

# functions the translator must REFUSE (each exercises one unsupported construct)
REFUSED_SRC = r'''
def r01(x):
    while x > 0:
        x -= 1
    return x

def r02(xs):
    return sorted(xs, key=lambda v: v)

def r03(d):
    try:
        return d["k"]
    finally:
        d["k"] = 1

def r04(x):
    with x:
        return 1

def r05(d):
    try:
        return d["k"]
    except KeyError as e:
        return str(e)

def r06(x):
    return UNKNOWN_GLOBAL + x

def r07(xs, y):
    return len(xs.append(y))

def r08(x):
    def inner():
        return x
    return inner()

def r09(f, xs):
    return f(*xs)

def r10(x):
    return int(x, base=16)

def r11(x):
    return [a + b for a in x for b in x]

def r12(x):
    return x / 2

def r13(x):
    return 1.5

def r14(d, k):
    d[k].append(1)
    return d

def r15(x):
    global LIMIT
    LIMIT = x
    return x

def r16(d):
    for k in d:
        if not d[k]:
            del d[k]
    return d

def r17(xs):
    for x in xs:
        if x:
            xs.append(0)
    return xs

def r18(self):
    for k, v in self.table.items():
        self.table[k + "x"] = v
    return self
'''


# ---------------------------------------------------------------------------- input generators
KEYS = ["k", "j", "x", "a", "b", "fallback"]
STRS = ["", "a", "b", "ab", "abc", "a,b", "a,b,,c", " a ", "  ", "A", "Ab", "x=1", "k", "j", "x", "hello world",
        "a.b.c", "::", "a::b::", "aXbXa", " b a b ", "k=v=w", "\ta b\n"]
NUMS = ["0", "12", "-7", "007", "abc", "", "1a", "-", "99", "3"]
INTS = [-3, -2, -1, 0, 1, 2, 3, 4, 5, 10, 100]


def g_int(r):
    return r.choice(INTS)


def g_bool(r):
    return r.choice([True, False])


def g_str(r):
    return r.choice(STRS)


def g_num(r):
    return r.choice(NUMS)


def g_key(r):
    return r.choice(KEYS)


def g_sep(r):
    return r.choice([",", "::", "=", "a", "ab", " ", "X", "b", ""])


def g_scalar(r):
    return r.choice([None, True, False, r.choice(INTS), r.choice(STRS), r.choice(KEYS)])


def g_listof(g, lo=0, hi=4):
    return lambda r: [g(r) for _ in range(r.randint(lo, hi))]


def g_dictof(g, lo=0, hi=4):
    def gen(r):
        ks = r.sample(KEYS, r.randint(lo, hi))
        return {k: g(r) for k in ks}
    return gen


def g_choice(*gs):
    return lambda r: r.choice(gs)(r)


def g_wild(r):
    return r.choice([g_scalar, g_listof(g_int), g_listof(g_scalar), g_dictof(g_scalar), g_dictof(g_listof(g_int))])(r)


def g_tuple(g, n):
    return lambda r: tuple(g(r) for _ in range(n))


G = {
    "i": g_int, "b": g_bool, "s": g_str, "num": g_num, "k": g_key, "sep": g_sep, "a": g_scalar, "w": g_wild,
    "ib": g_choice(g_int, g_bool),
    "li": g_listof(g_int), "ls": g_listof(g_str), "lk": g_listof(g_key), "lnum": g_listof(g_num),
    "la": g_listof(g_scalar), "lli": g_listof(g_listof(g_int)), "lw": g_listof(g_wild, 0, 3),
    "lkd": g_listof(g_key, 0, 6),
    "d": g_dictof(g_scalar), "di": g_dictof(g_int), "dn": g_dictof(g_choice(g_int, lambda r: None, g_str)),
    "dd": g_dictof(g_choice(g_int, g_dictof(g_int))), "dl": g_dictof(g_listof(g_int)),
    "pair": g_choice(g_tuple(g_int, 2), g_tuple(g_int, 2), g_listof(g_int, 0, 3), g_listof(g_str, 2, 2), g_int),
    "seq": g_choice(g_listof(g_int), g_listof(g_str), g_str, g_tuple(g_scalar, 3)),
    "cont": g_choice(g_listof(g_scalar), g_dictof(g_int), g_str, g_listof(g_key), g_tuple(g_scalar, 2)),
}


def install_object_generators(ns):
    Rec, Sub, Other = ns["Rec"], ns["Sub"], ns["Other"]
    G["o_cls"] = lambda r: r.choice([Rec(a=1), Sub(a=2, b="x"), Other(a=3), None, 5, {"a": 1}, [Rec(a=1)]])
    G["o_self24"] = lambda r: Rec(items=g_listof(g_int)(r), n=g_int(r), tag="t")
    G["o_name"] = lambda r: r.choice([Rec(name=g_str(r)), Rec(other=1), Sub(name=None, x=2), None])
    G["o_subj"] = lambda r: r.choice([Rec(subject=Rec(name=g_str(r))), Rec(subject=None), Rec(subject=Rec(nom=1)),
                                      Rec(subj=1), None])
    G["o_self60"] = lambda r: Rec(attrs=g_dictof(g_int)(r), count=0)
    G["o_74"] = lambda r: Rec(tags=g_listof(g_str)(r), name="old", z=1) if r.random() < 0.8 else Rec(tags=[], n=1)
    G["o_86"] = lambda r: r.choice([Rec(name=g_str(r), child=Sub(a=1), n=g_int(r)), Rec(name="x"), Sub(tags=[1], n=None)])
    G["o_self78"] = lambda r: Rec(cache=g_dictof(g_int, 0, 2)(r), table=g_dictof(g_int)(r), misses=r.randint(0, 3))


EXC_PARENTS = {"MyError": ["Exception"], "SubError": ["MyError", "Exception"], "OtherError": ["Exception"]}

# name -> (parameter kinds, spec extras, options); options: n (cases), refuse, kwargs (index of the **kwargs parameter)
E = {}


def entry(name, kinds, spec=None, **opt):
    E[name] = (kinds, spec or {}, opt)


entry("c01", ["a", "d"]); entry("c02", ["a", "d"]); entry("c03", ["lnum"]); entry("c04", ["li", "i"])
entry("c05", ["di", "k", "k"]); entry("c06", ["di", "k"]); entry("c07", ["num"]); entry("c08", ["li"])
entry("c09", ["di", "k", "a"]); entry("c10", ["di", "k"]); entry("c11", ["li", "i"]); entry("c12", ["d", "k"])
entry("c13", ["b"]); entry("c14", ["di", "k"]); entry("c15", ["lk", "i", "di"]); entry("c16", ["lk", "i", "di"])
entry("c17", ["i"], {"exc_parents": EXC_PARENTS}); entry("c18", ["di", "k"]); entry("c19", ["li"])
entry("c20", ["lli", "i"]); entry("c21", ["d"]); entry("c22", ["i", "i", "di"]); entry("c23", ["di", "k"])
entry("c24", ["o_self24", "a"], {"returns_state": ["self"]}); entry("c25", ["li", "la"]); entry("c26", ["di", "di"])
entry("c27", ["di", "k"]); entry("c28", ["di", "k"]); entry("c29", ["w"])
entry("c30", ["o_cls"], {"classes": {"Sub": ["Sub"], "Rec": ["Rec", "Sub"]}})
entry("c31", ["s"]); entry("c32", ["s", "sep"]); entry("c33", ["s"]); entry("c34", ["ls", "sep"])
entry("c35", ["s", "sep", "s"], None, refuse=True)      # replace("", x) is refused by the embedding
entry("c36", ["s", "sep"]); entry("c37", ["a", "a"]); entry("c38", ["a", "i"]); entry("c39", ["a"])
entry("c40", ["num"]); entry("c41", ["a", "cont"]); entry("c42", ["li"]); entry("c43", ["d"])
entry("c44", ["lk", "di"]); entry("c45", ["li"]); entry("c46", ["ls"]); entry("c47", ["li"])
entry("c48", ["i", "i"]); entry("c49", ["o_name"]); entry("c50", ["o_subj"], {"attr_errors": True})
entry("c51", ["a", lambda r: {k: g_int(r) for k in r.sample(["x", "k", "j"], r.randint(0, 3))}],
      {"params": ["a", "kwargs"]}, kwargs=1)
entry("c52", ["a"], {"calls": {
    "helper_kw": lambda a, kw: "(p2_add (p2_add (p2_str %s) %s) (p2_str %s))" % (
        a[0], kw.get("sep", '(PStr "-")'), a[1] if len(a) > 1 else "(PInt 0%Z)"),
    "helper_double": lambda a: "(p2_mul %s (PInt 2%%Z))" % a[0]}}, refuse=True)   # str * 2 is refused
entry("c53", ["i"], {"extra_params": [("ext_now", "pyval")], "calls": {"now": lambda a: "ext_now"}},
      extra_args=["(PInt 5%Z)"])
entry("c54", ["di", "num"]); entry("c55", ["seq", "i", "i"]); entry("c56", ["i", "i"]); entry("c57", ["pair"])
entry("c58", ["i"]); entry("c59", ["li"]); entry("c60", ["o_self60", "k", "a"], {"returns_state": ["self"]})
entry("c61", ["d"]); entry("c62", ["la"]); entry("c63", ["s"]); entry("c64", ["li"])


def g_eq_pair(r):
    """Two wild values that are often equal (dicts also in another insertion order, True against 1)."""
    x = g_wild(r)
    t = r.random()
    if t < 0.35:
        y = copy.deepcopy(x)
        if isinstance(y, dict):
            y = {k: y[k] for k in reversed(list(y))}
    elif t < 0.5:
        y = {True: 1, False: 0, 1: True, 0: False}.get(x, x) if isinstance(x, (bool, int)) else [x]
    else:
        y = g_wild(r)
    return [x, y]


entry("c65", [], None, args=g_eq_pair, n=60)
entry("c66", ["a"]); entry("c67", ["lkd", "di"]); entry("c68", ["ib", "ib"]); entry("c69", ["s", "s"])
entry("c70", ["dn"]); entry("c71", ["li"], {"exc_parents": EXC_PARENTS}); entry("c72", ["di", "lk"])
entry("c73", ["i"], {"globals": {"LIMIT": "(PInt 3%Z)"}}); entry("c74", ["o_74", "s"]); entry("c75", ["li"])
entry("c76", ["di", "b"], {"exc_parents": EXC_PARENTS}); entry("c77", ["lk"])
entry("c78", ["o_self78", "k"], {"returns_state": ["self"]}); entry("c79", ["di"]); entry("c80", ["a", "di"])
entry("c81", ["la", "i"])
entry("c82", ["s", "i"], {"calls": {"pct": lambda a: "(p2_fconcat [p2_str (p2_getitem %s (PInt 0%%Z)); PStr \"=\"; "
                                                     "p2_str (p2_getitem %s (PInt 1%%Z))])" % (a[1], a[1])}})
entry("c83", ["dd"]); entry("c84", ["i"], {"exc_parents": EXC_PARENTS})
entry("c85", ["a", "la"], {"params": ["a", "rest"]}, varargs=1)
entry("c86", ["o_86", lambda r: r.sample(["name", "child", "n", "zzz", "tags"], r.randint(0, 4))],
      {"classes": {"Rec": ["Rec", "Sub"]}})
entry("c87", ["o_86", g_listof(g_tuple(g_choice(lambda r: r.choice(["name", "n", "extra", "", "child"]), g_int), 2), 0, 3)],
      None)
entry("c88", ["s", "i"]); entry("c89", [g_choice(g_listof(g_scalar), g_listof(g_int), g_str), "i"], {"calls": {
    "helper_kw": lambda a, kw: "(p2_add (p2_add (p2_str %s) %s) (p2_str %s))" % (
        a[0], kw.get("sep", '(PStr "-")'), kw.get("b", "(PInt 0%Z)"))}})
entry("c90", ["k", "k", "k"]); entry("c91", ["di", "k"]); entry("c92", ["li", "i"])
FUEL = {"extra_params": [("fuel", "nat")]}
entry("c93", ["li", "i"], FUEL, extra_args=["64%nat"]); entry("c94", ["di", "k"], FUEL, extra_args=["64%nat"])
entry("c95", ["lli", "i"], FUEL, extra_args=["64%nat"]); entry("c96", ["i"], FUEL, extra_args=["64%nat"])


# ---------------------------------------------------------------------------- encoding
class Exc:
    def __init__(self, name):
        self.name = name


def encode(v):
    """Python value -> Coq term of type pyval (dict -> PObj in insertion order; objects -> PObj with __class__)."""
    if isinstance(v, Exc):
        return "(PExc %s)" % common.cq_str(v.name)
    if v is None:
        return "PNone"
    if isinstance(v, bool):
        return "(PBool %s)" % ("true" if v else "false")
    if isinstance(v, int):
        return "(PInt (%d)%%Z)" % v
    if isinstance(v, str):
        return "(PStr %s)" % common.cq_str(v)
    if isinstance(v, (list, tuple)):
        return "(PList [%s])" % "; ".join(encode(x) for x in v)
    if isinstance(v, type({}.keys())) or isinstance(v, type({}.values())) or isinstance(v, type({}.items())):
        return encode(list(v))
    if isinstance(v, dict):
        for k in v:
            if not isinstance(k, str) or k == "__class__":
                raise ValueError("encode: dict key %r" % (k,))
        return "(PObj [%s])" % "; ".join("(%s, %s)" % (common.cq_str(k), encode(x)) for k, x in v.items())
    if hasattr(v, "__dict__") and not isinstance(v, type):
        fields = [("__class__", type(v).__name__)] + list(vars(v).items())
        return "(PObj [%s])" % "; ".join("(%s, %s)" % (common.cq_str(k), encode(x)) for k, x in fields)
    raise ValueError("encode: %r" % (v,))


def run_python(fn, args, opt, state_idx):
    """-> (encoded expected outcome, lax flag)."""
    args = copy.deepcopy(args)
    try:
        if "kwargs" in opt:
            i = opt["kwargs"]
            res = fn(*args[:i], **args[i])
        elif "varargs" in opt:
            i = opt["varargs"]
            res = fn(*args[:i], *args[i])
        else:
            res = fn(*args)
    except Exception as ex:           # noqa: the self-test maps every exception to its class name
        res = Exc(type(ex).__name__)
    lax = bool(opt.get("refuse")) or (isinstance(res, Exc) and res.name in REFUSABLE)
    if "view" in opt:
        res = opt["view"](res)
    if state_idx:
        res = [res] + [args[i] for i in state_idx]
    return encode(res), lax


# ---------------------------------------------------------------------------- real pysaml2 functions
SRC = os.path.join(os.environ.get("VERIF_REPO", "/repo"), "src", "saml2")
FIXED_NOW = 1750000000
TIME_STRS = ["2020-01-01T00:00:00Z", "2035-06-01T12:00:00Z", "1999-12-31T23:59:59Z", "2025-06-15T15:06:40Z"]
REAL_EXC = {"NotValid": ["Exception"], "MissingValue": ["Exception"], "ToEarly": ["Exception"],
            "ResponseLifetimeExceed": ["Exception"], "SignatureError": ["Exception"]}
PATCHES = []          # (module, attribute, replacement) applied while the real functions run


def on_str(f):
    """Coq term: the string function f applied to a str value."""
    return lambda a: "(match %s with PStr s_ => PStr (%s s_) | _ => PErr end)" % (a[0], f)


def real_items(ns):
    """[(label, source path, qualname, spec, python callable, kinds, options)]"""
    import calendar
    import saml2.assertion
    import saml2.ident
    import saml2.response
    import saml2.s_utils
    import saml2.sigver
    import saml2.time_util
    import saml2.validate
    Rec = ns["Rec"]
    items = []

    def add(label, mod, qualname, spec, kinds, **opt):
        obj = mod
        for part in qualname.split("."):
            obj = getattr(obj, part)
        spec = dict(spec)
        spec.setdefault("exc_parents", REAL_EXC)
        items.append((label, os.path.join(SRC, mod.__name__.split(".", 1)[1].replace(".", "/") + ".py"), qualname,
                      spec, obj, kinds, opt))

    # --- assertion.py
    g_vals = g_choice(g_listof(lambda r: r.choice(["a", "b", "c", "staff", "member"])), lambda r: None)
    g_vlist = g_choice(g_listof(lambda r: r.choice(["a", "b", "staff", "x"])), lambda r: None,
                       lambda r: r.choice(["a", "staff", ""]))
    add("as_filter_values", saml2.assertion, "_filter_values", {"params": ["vals", "vlist", "must"]}, [g_vals, g_vlist, "b"])
    names = ["mail", "Mail", "MAIL", "cn", "givenName", "givenname", "sn"]
    g_ava = lambda r: {k: g_listof(lambda q: q.choice(["v1", "v2", "v3"]), 0, 3)(r) for k in r.sample(names, r.randint(0, 4))}
    add("as_match", saml2.assertion, "_match", {"params": ["attr", "ava"]}, [lambda r: r.choice(names + ["uid"]), g_ava])
    g_req = g_choice(g_ava, g_ava, lambda r: None, lambda r: {k: None for k in r.sample(names, 2)})
    add("as_filter_on_demands", saml2.assertion, "filter_on_demands", {"params": ["ava", "required", "optional"]},
        [g_ava, g_req, g_req], n=120)
    # --- response.py
    g_aud = lambda r: Rec(text=r.choice(["me", " me ", "me\n", "other", "", None, "ME", "me2"]))
    g_restr = lambda r: Rec(audience=r.choice([None, g_listof(g_aud, 0, 3)(r), g_listof(g_aud, 1, 3)(r)]))
    g_cond = lambda r: Rec(audience_restriction=r.choice([None, g_listof(g_restr, 0, 3)(r), g_listof(g_restr, 1, 3)(r)]))
    add("resp_for_me", saml2.response, "for_me", {"params": ["conditions", "myself"]}, [g_cond, lambda r: "me"], n=120)
    # --- validate.py
    g_numish = lambda r: r.choice(NUMS + ["1", "-1", "00", "2147483648", "x1", "1.5"])
    for lab, q in (("val_pos_int", "valid_positive_integer"), ("val_nonneg_int", "valid_non_negative_integer"),
                   ("val_integer", "valid_integer")):
        add(lab, saml2.validate, q, {"params": ["val"]}, [g_numish], n=40)
    add("val_boolean", saml2.validate, "valid_boolean", {"params": ["val"]},
        [lambda r: r.choice(["true", "True", "FALSE", "0", "1", "2", "yes", "", "false", "tRuE", " true"])], n=40)
    add("val_qname", saml2.validate, "valid_qname",
        {"params": ["val"], "calls": {"valid_ncname": lambda a: '(p2_ne %s (PStr ""))' % a[0]}},
        [lambda r: r.choice(["a:b", "a", "a:b:c", ":", "", "xs:string", "::"])], n=30)
    PATCHES.append((saml2.validate, "valid_ncname", lambda name: name != ""))
    table = {s_: calendar.timegm(saml2.time_util.str_to_time(s_)) for s_ in TIME_STRS}
    parse_time = "(fun v_ => p2_getitem %s v_)" % encode(table)
    tcalls = {"time_util.utc_now": lambda a: "now_", "calendar.timegm": lambda a: a[0],
              "time_util.str_to_time": lambda a: "(parse_time %s)" % a[0], "str_to_time": lambda a: "(parse_time %s)" % a[0],
              "time.gmtime": lambda a: a[0] if a else "now_", "time.strftime": lambda a: '(PStr "t")',
              "%": lambda a: '(PStr "m")'}
    textra = {"extra_params": [("now_", "pyval"), ("parse_time", "pyval -> pyval")], "calls": tcalls}
    targs = ["(PInt %d%%Z)" % FIXED_NOW, parse_time]
    PATCHES.append((saml2.time_util, "utc_now", lambda: FIXED_NOW))
    PATCHES.append((saml2.time_util.time, "gmtime", _fake_gmtime(saml2.time_util.time.gmtime)))
    g_tstr = lambda r: r.choice(TIME_STRS + [None, ""])
    g_slack = lambda r: r.choice([0, 10, 10 ** 9, -10 ** 9, 1])
    add("val_before", saml2.validate, "validate_before", dict(textra, params=["not_before", "slack"]),
        [g_tstr, g_slack], extra_args=targs)
    add("val_on_or_after", saml2.validate, "validate_on_or_after", dict(textra, params=["not_on_or_after", "slack"]),
        [g_tstr, g_slack], extra_args=targs)
    # --- time_util.py (struct_time values are represented by their epoch seconds: same order)
    g_point = lambda r: r.choice(TIME_STRS + [None, 0, 1577836800, 1900000000, 4102444800])
    add("tu_later_than", saml2.time_util, "later_than", dict(textra, params=["after", "before"]), [g_point, g_point],
        extra_args=targs)
    add("tu_before", saml2.time_util, "before", dict(textra, params=["point"]), [g_point], extra_args=targs, n=30)
    acalls = dict(tcalls, before=lambda a: "(t_tu_before now_ parse_time %s)" % a[0])
    add("tu_after", saml2.time_util, "after", dict(textra, params=["point"], calls=acalls), [g_point], extra_args=targs, n=30)
    # --- ident.py
    attr_names = list(saml2.ident.ATTR)
    g_nval = lambda r: r.choice([None, "", "abc", "a b", "x/y", "a=b,c", "urn:oasis:names:tc", "caf\u00e9", "100%", "~._-"])
    g_item = lambda r: Rec(**{a: g_nval(r) for a in attr_names})
    add("ident_code", saml2.ident, "code",
        {"params": ["item"], "globals": {"ATTR": encode(attr_names)}, "calls": {"quote": on_str("quote")}}, [g_item])

    class NameID:            # the view of a saml.NameID instance: the five attributes in ATTR order
        pass

    def view(res):
        if isinstance(res, Exc):
            return res
        v = NameID()
        for a in attr_names:
            setattr(v, a, getattr(res, a))
        return v
    empty = NameID()
    for a in attr_names:
        setattr(empty, a, None)
    junk = ["0=a,1=b", "5=x", "x=1", "0=a=b", "", "2=", "0=%41%2F", ",,", "4=t,4=u", "1", "0=a,zz", "-1=q", "3=a%20b"]

    def g_txt(r):
        return saml2.ident.code(g_item(r)) if r.random() < 0.5 else r.choice(junk)
    add("ident_decode", saml2.ident, "decode",
        {"params": ["txt"], "globals": {"ATTR": encode(attr_names)},
         "calls": {"NameID": lambda a: encode(empty), "unquote": on_str("unquote")}}, [g_txt], view=view)
    # --- s_utils.py
    g_attribute = lambda r: Rec(friendly_name=r.choice([None, "", "mail"]), name="urn:oid:0.9", name_format="uri")
    add("su_identity_attribute", saml2.s_utils, "identity_attribute", {"params": ["form", "attribute", "forward_map"]},
        [lambda r: r.choice(["friendly", "name", ""]), g_attribute, lambda r: r.choice([None, {}])], n=30)
    # --- sigver.py: the parser and the signature check are the callees, given as extra arguments
    responses = {"signed-ok": Rec(signature=Rec(x=1), name="r1"), "signed-bad": Rec(signature=Rec(x=1), name="r2"),
                 "unsigned": Rec(signature=None, name="r3"), "garbage": None}

    class FakeContext:
        def _check_signature(self, xml, response, cls, origdoc):
            if xml == "signed-bad":
                raise saml2.sigver.SignatureError("bad")
    PATCHES.append((saml2.sigver.samlp, "any_response_from_string", lambda xml: copy.deepcopy(responses.get(xml))))
    PATCHES.append((saml2.sigver, "class_name", lambda instance: "cls"))
    fake = FakeContext()
    fake.tag = 1
    parse_resp = "(fun v_ => p2_get3 %s v_ PNone)" % encode(responses)
    check_sig = '(fun v_ => match pv_eq v_ (PStr "signed-bad") with Some true => PExc "SignatureError" | Some false => PNone | None => PErr end)'
    add("sig_correctly_signed_response", saml2.sigver, "SecurityContext.correctly_signed_response",
        {"params": ["self", "decoded_xml", "must", "origdoc", "only_valid_cert", "require_response_signature", "kwargs"],
         "extra_params": [("parse_resp", "pyval -> pyval"), ("check_sig", "pyval -> pyval")],
         "calls": {"samlp.any_response_from_string": lambda a: "(parse_resp %s)" % a[0],
                   "self._check_signature": lambda a: "(check_sig %s)" % a[0], "class_name": lambda a: '(PStr "cls")'}},
        [lambda r: fake, lambda r: r.choice(list(responses)), "b", lambda r: None, "b", "b",
         lambda r: r.choice([{}, {"do_not_verify": True}, {"other": 1}])],
        extra_args=[parse_resp, check_sig], kwargs=6)
    return items


def _fake_gmtime(real):
    """time.gmtime() without argument answers for FIXED_NOW (the translated `before` gets the same instant)."""
    def gmtime(*a):
        return real(*a) if a else real(FIXED_NOW)
    return gmtime


SELFTEST_HEADER = """From Coq Require Import String Ascii List Bool ZArith NArith.
From Verif Require Import Base.Str Base.Py Base.Py2 Base.Percent.
Import ListNotations.
Open Scope string_scope.

"""

SELFTEST_FOOTER = """
Definition outcome (c : N * pyval * pyval * bool) : nat :=
  let '(i, got, want, lax) := c in
  if pyval_eqb got want then 0%nat
  else if lax && pyval_eqb got PErr then 1%nat else 2%nat.
Definition bad : list N := flat_map (fun c => if Nat.eqb (outcome c) 2 then [fst (fst (fst c))] else []) cases.
Definition refused : list N := flat_map (fun c => if Nat.eqb (outcome c) 1 then [fst (fst (fst c))] else []) cases.
Eval vm_compute in (bad, refused, length cases).
"""


def build(seed=SEED, per_fn=40, per_real=60, verbose=False):
    rng = random.Random(seed)
    ns = {}
    exec(compile(CORPUS_SRC, "<py2coq2 corpus>", "exec"), ns)
    install_object_generators(ns)
    tree = ast.parse(CORPUS_SRC)
    defs, cases, meta, problems = [], [], [], []
    fns = [n for n in tree.body if isinstance(n, ast.FunctionDef) and n.name in E]
    missing = set(E) - {f.name for f in fns}
    if missing:
        problems.append("corpus entries without a function: %s" % sorted(missing))
    jobs = []
    for fn in fns:
        kinds, spec, opt = E[fn.name]
        spec = dict(spec)
        spec.setdefault("params", [a.arg for a in fn.args.args])
        spec["name"] = "t_" + fn.name
        try:
            defs.append(py2coq2.translate_def(fn, spec, "corpus:" + fn.name))
        except py2coq2.Untranslatable as ex:
            problems.append("corpus function %s is untranslatable: %s" % (fn.name, ex))
            continue
        jobs.append((fn.name, ns[fn.name], spec, kinds, opt, opt.get("n", per_fn)))
    for label, path, qualname, spec, pyfn, kinds, opt in real_items(ns):
        spec = dict(spec)
        spec["name"] = "t_" + label
        try:
            defs.append(py2coq2.translate(path, qualname, spec))
        except (py2coq2.Untranslatable, OSError) as ex:
            problems.append("real function %s is untranslatable: %s" % (qualname, ex))
            continue
        jobs.append((label, pyfn, spec, kinds, opt, opt.get("n", per_real)))
    saved = [(m, a, getattr(m, a)) for m, a, _ in PATCHES]
    for m, a, v in PATCHES:
        setattr(m, a, v)
    try:
        run_jobs(jobs, rng, cases, meta, problems)
    finally:
        for m, a, v in saved:
            setattr(m, a, v)
    # functions that must be refused
    refused_ok = 0
    for fn in ast.parse(REFUSED_SRC).body:
        if not isinstance(fn, ast.FunctionDef):
            continue
        try:
            py2coq2.translate_def(fn, {"name": "t_" + fn.name, "params": [a.arg for a in fn.args.args]})
            problems.append("%s was translated although it uses an unsupported construct" % fn.name)
        except py2coq2.Untranslatable:
            refused_ok += 1
    return defs, cases, meta, problems, refused_ok


def run_jobs(jobs, rng, cases, meta, problems):
    for name, pyfn, spec, kinds, opt, n in jobs:
        state_idx = [spec["params"].index(x) for x in spec.get("returns_state", [])]
        for _ in range(n):
            args = opt["args"](rng) if "args" in opt else [(G[k] if isinstance(k, str) else k)(rng) for k in kinds]
            try:
                coq_args = [encode(a) for a in args]
            except ValueError as ex:
                problems.append("%s: %s" % (name, ex))
                continue
            want, lax = run_python(pyfn, args, opt, state_idx)
            call = "(%s)" % " ".join([spec["name"]] + list(opt.get("extra_args", [])) + coq_args)
            cases.append("(%d%%N, %s, %s, %s)" % (len(cases), call, want, "true" if lax else "false"))
            meta.append((name, args, want, call))


def main(argv=None):
    t0 = time.time()
    os.makedirs(WD, exist_ok=True)
    defs, cases, meta, problems, refused_ok = build()
    path = os.path.join(WD, "selftest.v")
    with open(path, "w") as f:
        f.write(SELFTEST_HEADER + "\n".join(defs) + "\n")
        # one big list literal elaborates in quadratic time: the cases are defined in chunks
        chunks = [cases[i:i + CHUNK] for i in range(0, len(cases), CHUNK)]
        for j, ch in enumerate(chunks):
            f.write("Definition cases_%d : list (N * pyval * pyval * bool) := [\n%s\n].\n" % (j, ";\n".join(ch)))
        f.write("Definition cases : list (N * pyval * pyval * bool) := concat [%s].\n" % "; ".join(
            "cases_%d" % j for j in range(len(chunks))))
        f.write(SELFTEST_FOOTER)
    rc, out = common.coqc(path, cwd=WD, timeout=600)
    bad = None
    m = re.search(r"=\s*\(\s*(\[.*?\])\s*,\s*(\[.*?\])\s*,\s*(\d+)(?:%nat)?\s*\)", out, flags=re.S)
    refused_by_fn = {}
    if rc != 0 or not m:
        problems.append("coqc failed on %s (rc=%d):\n%s" % (os.path.relpath(path, common.VERIF), rc, out[-3000:]))
    else:
        bad = [int(x) for x in re.findall(r"(\d+)(?:%N)?", m.group(1))]
        for i in re.findall(r"(\d+)(?:%N)?", m.group(2)):
            refused_by_fn[meta[int(i)][0]] = refused_by_fn.get(meta[int(i)][0], 0) + 1
        n_cases = int(m.group(3))
        if n_cases != len(cases):
            problems.append("case count: Coq saw %d, generated %d" % (n_cases, len(cases)))
    if bad:
        first = {}
        for i in bad:
            first.setdefault(meta[i][0], []).append(i)
        show = sorted(i for v in first.values() for i in v[:4])[:16]
        txt = explain(path, show, meta)
        by_fn = {}
        for i in bad:
            by_fn.setdefault(meta[i][0], []).append(i)
        print("DISAGREEMENTS: %d case(s) in %d function(s): %s" % (
            len(bad), len(by_fn), ", ".join("%s(%d)" % (k, len(v)) for k, v in sorted(by_fn.items()))))
        print(txt)
    for p in problems:
        print("PROBLEM: " + p)
    n_fn = len({m_[0] for m_ in meta})
    ok = not problems and bad == []
    print("py2coq2 self-test: %d functions, %d (function, input) pairs, %d refused-as-required, %s refusal(s) (PErr) accepted, "
          "%d disagreement(s), %.1fs -> %s" % (n_fn, len(cases), refused_ok, sum(refused_by_fn.values()) if m else "?",
                                              len(bad or []), time.time() - t0, "OK" if ok else "FAIL"))
    if refused_by_fn:
        print("  refusals: " + ", ".join("%s(%d)" % kv for kv in sorted(refused_by_fn.items())))
    return 0 if ok else 1


def explain(path, idxs, meta):
    """Re-evaluate a few disagreeing cases and show input, expected and actual value."""
    with open(path) as f:
        src = f.read()
    src = src[:src.index("Definition cases_0")]
    epath = os.path.join(WD, "selftest_explain.v")
    with open(epath, "w") as f:
        f.write(src + "\n".join("Eval vm_compute in (%s)." % meta[i][3] for i in idxs) + "\n")
    rc, out = common.coqc(epath, cwd=WD, timeout=300)
    vals = re.findall(r"=\s*(.*?)\s*:\s*pyval", out, flags=re.S)
    lines = []
    for j, i in enumerate(idxs):
        name, args, want, call = meta[i]
        got = " ".join(vals[j].split()) if j < len(vals) else "?"
        lines.append("  case %d  %s%r\n     python: %s\n     coq   : %s" % (i, name, tuple(args), want, got))
    return "\n".join(lines)


if __name__ == "__main__":
    sys.exit(main())
