"""C06 — responses are accepted only as successful answers to outstanding requests."""
import itertools
import os
import tempfile

from harness import common, env, fixtures, render, spaccept, world
from harness.common import Raw, cq, cq_opt

PID = "C06"
PARALLEL = 12
IMPORTS = "From Verif Require Import C06.Model C06.Spec C06.Corr."
CASE_TYPE = "C06.Corr.case"
RUNNER = "C06.Corr.run"
FINDING_CLASSES = {2: "C06-F2", 3: "C06-F3"}
RULE = ("complete products per group with the other groups at their baseline: correlation = Response InResponseTo(4) x "
        "SubjectConfirmation shapes (0-2 confirmations, each {no data, data without InResponseTo, outstanding id, other "
        "outstanding id, unknown id}) x allow_unsolicited(2) x outstanding set {empty, one, many}, completely for BOTH "
        "browser bindings (HTTP-POST base64 to the POST endpoint, HTTP-Redirect deflate+base64 to the Redirect endpoint); a "
        "reduced correlation product (InResponseTo(4) x 8 confirmation shapes x allow(2) x outstanding{None, many}) "
        "for every other delivery: POST deflated, each browser binding x Destination {absent, the other binding's endpoint, "
        "a foreign URL}, HTTP-Artifact x Destination(2), SOAP, PAOS (outstanding=None: the caller passes no dict); status = all table "
        "codes + unknown + absent second level x 3 top-level codes x {POST, Redirect, SOAP}; top-level status VALUES around "
        "the defined ones (every proper prefix and suffix of the Success URN, its colon-separated pieces, case variants, "
        "one-character extensions, blanks, the same at colon boundaries for the other top-level codes) over POST, the boundary "
        "ones also over Redirect / SOAP / POST encrypted in rotation; versions "
        "{2.0,1.1,2.1,3.0,1.0,0.9,10.0} x all 5 bindings; shape = assertions{0,1,2} x AuthnStatements{0,1,2} x "
        "subject{absent,present} x {POST, Redirect, Artifact, SOAP}; ENCRYPTED assertions: the complete correlation product "
        "(4 x 31 x 2, outstanding many; the 0/1-confirmation shapes also with outstanding one) with the single assertion "
        "delivered as EncryptedAssertion over POST (part of them with the assertion signed as well), reduced over Redirect / Artifact / SOAP; two assertions {clear+encrypted, "
        "encrypted+clear, both encrypted} x confirmations of each from {answers req-1, answers req-2, no InResponseTo, "
        "[req-2, req-1]} x InResponseTo{req-1, unknown, absent} x allow(2); three assertions; shape / status / version with "
        "the assertion encrypted; plus seeded random mixtures across groups, deliveries and encryption flags. "
        "non-trivial = distinct abstract input differing from the all-valid baseline")
TRUSTED = ["source-to-Gallina translator harness/py2coq.py + coq/theories/Base/Py.v (check_subject_confirmation_in_response_to is "
           "re-translated from the source text on every run; c06_source_check_sc_irt proves it equal to the model)",
           "xmlsec1 stand-in", "renderer harness/render.py", "translator harness/c06.py:regenerate_tables (STATUSCODE2EXCEPTION)"]
ASSUMPTIONS = ["signature, times, audience, recipient valid in every case; the message is encoded the way the named binding "
               "prescribes (POST also deflated, which Entity.unravel accepts)",
               "the SP registers one HTTP-POST and one HTTP-Redirect assertion consumer endpoint and none for other bindings",
               "encrypted assertions are encrypted for the SP's own certificate (RSA-OAEP + AES-128-CBC through the stand-in) and "
               "decrypt; the Response is always signed by the IdP, the assertions are signed as well in part of the cases",
               "request ids and contexts are non-empty ASCII strings; InResponseTo values are NCNames (anything else, the empty string "
               "included, is refused by the schema validation in front of the signature check: SignatureError)"]

OUT_MANY = [("req-1", "/ctx1"), ("req-2", "/ctx2"), ("req-3", "/ctx3")]
OUTS = {"none": None, "empty": [], "one": [("req-1", "/ctx1")], "many": OUT_MANY}   # none: the caller passes outstanding=None

# deliveries: (binding the caller names, encoding of the message, Response/@Destination)
BINDINGS = {"post": world.BINDING_HTTP_POST, "redirect": world.BINDING_HTTP_REDIRECT, "artifact": world.BINDING_HTTP_ARTIFACT,
            "soap": world.BINDING_SOAP, "paos": world.BINDING_PAOS}
COQ_BINDING = {"post": "Post", "redirect": "Redirect", "artifact": "Artifact", "soap": "Soap", "paos": "Paos"}
DESTS = {"post": world.SP_ACS_POST, "redirect": world.SP_ACS_REDIRECT, "elsewhere": "https://other.example.org/acs/post",
         "absent": None}
COQ_DEST = {"post": "DPost", "redirect": "DRedirect", "elsewhere": "DElsewhere", "absent": "DAbsent"}
ENCODERS = {"b64": render.b64, "deflate": render.deflate_b64, "soap": render.soap_envelope}
FULL_DELIVERIES = [("post", "b64", "post"), ("redirect", "deflate", "redirect")]
OTHER_DELIVERIES = [("post", "deflate", "post"), ("post", "b64", "absent"), ("post", "b64", "redirect"), ("post", "b64", "elsewhere"),
                    ("redirect", "deflate", "absent"), ("redirect", "deflate", "post"), ("redirect", "deflate", "elsewhere"),
                    ("artifact", "b64", "absent"), ("artifact", "b64", "post"),
                    ("soap", "soap", "post"), ("paos", "soap", "post")]
RARE_DELIVERIES = [("artifact", "b64", "elsewhere"), ("artifact", "b64", "redirect"), ("soap", "soap", "absent"),
                   ("soap", "soap", "elsewhere"), ("paos", "soap", "absent")]   # only in the random mixtures
IRT = [None, "req-1", "req-2", "unknown-9"]
SCD = [("nodata",), ("data", None), ("data", "req-1"), ("data", "req-2"), ("data", "unknown-9")]
SUCCESS = render.STATUS_SUCCESS


def regenerate_tables(ctx):
    env.check_repo_import()
    from saml2 import response, samlp

    table = response.STATUSCODE2EXCEPTION
    if not isinstance(table, dict) or not table:
        raise RuntimeError("STATUSCODE2EXCEPTION: unexpected shape")
    rows = []
    for code, cls in table.items():
        if not isinstance(code, str) or not isinstance(cls, type) or not issubclass(cls, response.StatusError):
            raise RuntimeError("STATUSCODE2EXCEPTION entry of unexpected shape: %r" % (code,))
        rows.append("  (%s, %s)" % (cq(code), cq(cls.__name__)))
    txt = ("(* GENERATED by harness/c06.py from saml2.response.STATUSCODE2EXCEPTION and saml2.samlp — do not edit *)\n"
           "From Coq Require Import String List.\nImport ListNotations.\nOpen Scope string_scope.\n"
           "Definition STATUS_SUCCESS : string := %s.\n"
           "Definition statuscode2exception : list (string * string) := [\n%s\n].\n" % (
               cq(samlp.STATUS_SUCCESS), ";\n".join(rows)))
    changed = common.write_if_changed(os.path.join(common.GEN, "C06Tables.v"), txt)
    # translator: check_subject_confirmation_in_response_to as it reads NOW -> coq/gen/C06Src.v (C06/Source.v proves it
    # equal to the model)
    from harness import py2coq
    src = py2coq.regenerate(os.path.join(common.GEN, "C06Src.v"), [
        (os.path.join(env.SRC, "saml2", "response.py"), "AuthnResponse.check_subject_confirmation_in_response_to",
         {"name": "src_check_sc_irt", "params": ["self", "irp"]})])
    return {"file": "coq/gen/C06Tables.v", "entries": len(rows), "changed": changed or src["changed"],
            "obligations": 1 + src["obligations"], "discharged": 1 + src["discharged"], "source": src,
            "untranslatable": src["untranslatable"],
            "table_theorems": ["table_names_ok (C06/Proofs.v): every defined code maps to the class its name demands"]}


def mk(irt="req-1", scs=(("data", "req-1"),), allow=False, out="one", top=SUCCESS, second=None, version="2.0",
       n_assert=1, n_authn=1, subject=True, tag="", delivery=FULL_DELIVERIES[0], sealed=(), scs2=None, sign_a=False):
    """sealed: which assertions (by position) arrive as EncryptedAssertion (missing = in clear); scs: confirmations of
    the first assertion, scs2: of every further one (None = the same); sign_a: the assertions are signed as well."""
    return {"via": delivery[0], "enc": delivery[1], "dest": delivery[2], "irt": irt, "scs": [list(s) for s in scs],
            "allow": allow, "out": out, "top": top, "second": second,
            "version": version, "n_assert": n_assert, "n_authn": n_authn, "subject": subject, "tag": tag,
            "sealed": [bool(b) for b in (list(sealed) + [False] * n_assert)[:n_assert]],
            "scs2": None if scs2 is None else [list(s) for s in scs2], "sign_a": bool(sign_a)}


def status_codes():
    env.check_repo_import()
    from saml2 import response

    codes = list(response.STATUSCODE2EXCEPTION.keys())
    codes += ["urn:oasis:names:tc:SAML:2.0:status:Requester", "urn:oasis:names:tc:SAML:2.0:status:Bogus",
              "urn:example:unknown", None]
    return codes


def top_variants():
    """Top-level StatusCode values around the defined ones: (all, at_boundaries).  all = every proper prefix and
    suffix of the Success URN, its pieces between colons, case variants, one-character extensions, and for the
    other top-level codes the prefixes / suffixes at colon boundaries, local names and case variants.  None of
    them IS the Success URN, so none may count as success.  (The empty value is left out: valid_instance refuses
    it before the status is looked at - MustValueError.)"""
    S = SUCCESS
    others = ["urn:oasis:names:tc:SAML:2.0:status:Responder", "urn:oasis:names:tc:SAML:2.0:status:Requester",
              "urn:oasis:names:tc:SAML:2.0:status:VersionMismatch"]
    allv, bound = [], []

    def boundary(u):
        parts = u.split(":")
        res = []
        for k in range(1, len(parts)):
            res += [":".join(parts[:k]), ":".join(parts[:k]) + ":", ":".join(parts[k:]), ":" + ":".join(parts[k:])]
        for i in range(len(parts)):
            for j in range(i + 1, len(parts) + 1):
                res.append(":".join(parts[i:j]))
        res += [u.upper(), u.lower(), u.swapcase(), u[:-len(parts[-1])] + parts[-1].lower(),
                u[:-len(parts[-1])] + parts[-1].upper(), u + "x", u + ":", u + "/", u + " ", " " + u, "x" + u, u + u,
                u[:-1], u[1:], u.replace("2.0", "2.00"), u.replace("2.0", "1.1"), u.replace("urn:", "urn::"),
                "http://example.org/" + parts[-1], ":", "%", "S", "s"]
        return res

    bound += boundary(S)
    for o in others:
        bound += [v for v in boundary(o) if v not in bound]
    allv += bound
    allv += [S[:k] for k in range(1, len(S))] + [S[k:] for k in range(1, len(S))]
    forbidden = {"", S}
    uniq = lambda l: [v for i, v in enumerate(l) if v not in forbidden and v not in l[:i]]
    return uniq(allv), uniq(bound)


def generate(ctx):
    rng = ctx.rng
    cases = []
    sc_shapes = [()] + [(a,) for a in SCD] + [(a, b) for a in SCD for b in SCD]
    for dl in FULL_DELIVERIES:
        for irt in IRT:
            for scs in sc_shapes:
                for allow in (False, True):
                    for out in ("empty", "one", "many"):
                        cases.append(mk(irt=irt, scs=scs, allow=allow, out=out, tag="corr", delivery=dl))
    few_shapes = [()] + [(a,) for a in SCD] + [(("data", "req-1"), ("data", "req-2")), (("nodata",), ("data", "unknown-9"))]
    for dl in OTHER_DELIVERIES:
        for irt in IRT:
            for scs in few_shapes:
                for allow in (False, True):
                    for out in ("none", "many"):
                        if out == "none" and dl[2] in ("elsewhere", "redirect" if dl[0] == "post" else "post") \
                                and dl[0] in ("post", "redirect"):
                            continue   # misaddressed: refused whatever the outstanding set
                        cases.append(mk(irt=irt, scs=scs, allow=allow, out=out, tag="delivery", delivery=dl))
    all_dl = FULL_DELIVERIES + OTHER_DELIVERIES + RARE_DELIVERIES
    one_per_binding = FULL_DELIVERIES + [("artifact", "b64", "absent"), ("soap", "soap", "post"), ("paos", "soap", "post")]
    tops = ["urn:oasis:names:tc:SAML:2.0:status:Responder", "urn:oasis:names:tc:SAML:2.0:status:Requester",
            "urn:oasis:names:tc:SAML:2.0:status:VersionMismatch"]
    for dl in FULL_DELIVERIES + [("soap", "soap", "post")]:
        for top in tops + [SUCCESS]:
            for second in status_codes():
                cases.append(mk(top=top, second=second, tag="status", delivery=dl))
                if top != SUCCESS and dl[0] == "post":
                    cases.append(mk(top=top, second=second, n_assert=0, tag="status", delivery=dl))
    for dl in one_per_binding:
        for v in ["2.0", "1.1", "2.1", "3.0", "1.0", "0.9", "10.0"]:
            for top in (SUCCESS, tops[0]):
                cases.append(mk(version=v, top=top, second=None if top == SUCCESS else status_codes()[1], tag="version",
                                delivery=dl))
    for dl in one_per_binding[:4]:
        for n_assert in (0, 1, 2):
            for n_authn in (0, 1, 2):
                for subject in (False, True):
                    for allow in (False, True):
                        cases.append(mk(n_assert=n_assert, n_authn=n_authn, subject=subject, allow=allow, tag="shape",
                                        delivery=dl))
    # ---- assertions delivered encrypted (loads() sees the clear ones only)
    post, redirect = FULL_DELIVERIES
    for irt in IRT:
        for scs in sc_shapes:
            for allow in (False, True):
                for out in ("one", "many"):
                    if out == "one" and len(scs) == 2:
                        continue
                    cases.append(mk(irt=irt, scs=scs, allow=allow, out=out, tag="sealed", delivery=post, sealed=(True,),
                                    sign_a=(out == "one" or (len(scs) == 2 and scs[0] == scs[1]))))
    for dl in (redirect, ("artifact", "b64", "absent"), ("soap", "soap", "post")):
        for irt in IRT:
            for scs in few_shapes:
                for allow in (False, True):
                    cases.append(mk(irt=irt, scs=scs, allow=allow, out="many", tag="sealed", delivery=dl, sealed=(True,)))
    for scs in few_shapes:
        cases.append(mk(scs=scs, out="many", tag="sealed", delivery=("post", "b64", "elsewhere"), sealed=(True,)))
    pair = [(("data", "req-1"),), (("data", "req-2"),), (("data", None),), (("data", "req-2"), ("data", "req-1"))]
    for flags in ((False, True), (True, False), (True, True)):
        for a in pair:
            for b in pair:
                for irt in ("req-1", "unknown-9", None):
                    for allow in (False, True):
                        cases.append(mk(irt=irt, scs=a, scs2=b, n_assert=2, allow=allow, out="many", tag="sealed-pair",
                                        sealed=flags))
    for flags in ((False, False, True), (False, True, True), (True, False, True), (True, True, True)):
        for last in (pair[0], pair[1]):
            for allow in (False, True):
                cases.append(mk(scs=pair[0] if flags[0] else last, scs2=last if flags[0] else pair[0], n_assert=3,
                                allow=allow, out="many", tag="sealed-pair", sealed=flags))
    for flags, n in (((True,), 1), ((False, True), 2), ((True, False), 2)):
        for n_authn in (0, 1, 2):
            for subject in (False, True):
                for allow in (False, True):
                    cases.append(mk(n_assert=n, n_authn=n_authn, subject=subject, allow=allow, tag="sealed-shape",
                                    sealed=flags))
    for top in tops:
        for second in (None, status_codes()[1]):
            for n_authn, subject in ((1, True), (1, False), (0, True)):
                cases.append(mk(top=top, second=second, n_authn=n_authn, subject=subject, tag="sealed-status", sealed=(True,)))
    for v in ["1.1", "2.1", "3.0"]:
        cases.append(mk(version=v, tag="sealed-status", sealed=(True,)))
    # ---- top-level status values around the defined ones (nothing but the Success URN itself is success)
    allv, bound = top_variants()
    code = status_codes()[1]
    for v in allv:
        cases.append(mk(top=v, second=None if len(cases) % 2 else code, tag="status-top"))
    rot = ((redirect, ()), (("soap", "soap", "post"), ()), (post, (True,)))
    for k, v in enumerate(bound):
        dl, sealed = rot[k % 3]
        cases.append(mk(top=v, second=code if (k // 3) % 2 else None, tag="status-top", delivery=dl, sealed=sealed))
    for _ in range(3000 if ctx.thorough else 400):
        cases.append(mk(irt=rng.choice(IRT), scs=rng.choice(sc_shapes), allow=rng.random() < 0.4,
                        out=rng.choice(list(OUTS)), top=rng.choice([SUCCESS] * 4 + tops * 2 + bound),
                        second=rng.choice(status_codes()), version=rng.choice(["2.0", "2.0", "2.0", "1.1", "2.1", "3.0"]),
                        n_assert=rng.choice([1, 1, 1, 0, 2]), n_authn=rng.choice([1, 1, 1, 0, 2]),
                        subject=rng.random() < 0.85, tag="random",
                        delivery=rng.choice(FULL_DELIVERIES * 4 + all_dl)))
        c = cases[-1]
        if rng.random() < 0.4:
            c["sealed"] = [rng.random() < 0.6 for _ in range(c["n_assert"])]
        if c["n_assert"] > 1 and rng.random() < 0.5:
            c["scs2"] = [list(x) for x in rng.choice(sc_shapes)]
        c["sign_a"] = rng.random() < 0.2
    return cases


def encrypt_assertions(xml, which):
    """Local variant of render.encrypt_assertion_in_response: wrap the top-level assertions at positions `which`
    (counted over Assertion and EncryptedAssertion children of the Response, document order) in
    saml:EncryptedAssertion and encrypt each for the SP's certificate; every EncryptedData gets its own Id."""
    import xml.etree.ElementTree as ET

    m = env.standin()
    A = "{urn:oasis:names:tc:SAML:2.0:assertion}"
    for k in sorted(which):
        root = m._parse(xml.encode("utf-8") if isinstance(xml, str) else xml)
        kids = [ch for ch in list(root) if ch.tag in (A + "Assertion", A + "EncryptedAssertion")]
        a = kids[k]
        if a.tag != A + "Assertion":
            raise RuntimeError("assertion %d is already encrypted" % k)
        idx = list(root).index(a)
        root.remove(a)
        wrap = ET.Element(A + "EncryptedAssertion")
        wrap.append(a)
        wrap.tail = a.tail
        a.tail = None
        root.insert(idx, wrap)
        with tempfile.NamedTemporaryFile(suffix=".xml", delete=False) as f:
            f.write(ET.tostring(root, encoding="utf-8"))
            path = f.name
        tmpl = render.ENC_TEMPLATE.replace("ED_verif", "ED_verif_%d" % k).replace("EK_verif", "EK_verif_%d" % k)
        try:
            out, _, _ = m.do_encrypt({"xml_data": path, "node_xpath": render.ASSERT_XPATH,
                                      "pubkey_cert": fixtures.cert_path("sp")}, tmpl.encode())
        finally:
            os.unlink(path)
        xml = out.decode("utf-8")
    return xml


def build(resp, assertions, sealed, sign_a):
    """Like spaccept.build (Response signed by the IdP), with the encryption step between the two signing steps."""
    axml = []
    for a in assertions:
        a = dict(a)
        if sign_a:
            a["sig_template"] = render.signature_template(a["id"])
        axml.append(render.assertion(a))
    r = dict(resp)
    r["assertions_xml"] = axml
    r["sig_template"] = render.signature_template(r["id"])
    xml = render.response(r)
    if sign_a:
        for a in assertions:
            xml = render.sign_xml(xml, "idp", render.A_ELEM, a["id"])
    which = [k for k, b in enumerate(sealed) if b]
    if which:
        xml = encrypt_assertions(xml, which)
    return render.sign_xml(xml, "idp", render.R_ELEM, r["id"])


def case_scs(case, k):
    return case["scs"] if k == 0 or case.get("scs2") is None else case["scs2"]


def render_case(case):
    assertions = []
    recipient = world.SP_ACS_REDIRECT if case["via"] == "redirect" else world.SP_ACS_POST
    for k in range(case["n_assert"]):
        a = spaccept.good_assertion(id="a-%d" % k)
        a["authn_statements"] = [{"authn_instant": env.iso(spaccept.NOW), "session_index": "s-%d" % j}
                                 for j in range(case["n_authn"])]
        if not case["subject"]:
            a["subject"] = None
        else:
            confs = []
            for sc in case_scs(case, k):
                if sc[0] == "nodata":
                    confs.append({"method": render.SCM_BEARER, "data": None})
                else:
                    d = {"recipient": recipient, "not_on_or_after": env.iso(spaccept.NOW + 300)}
                    if sc[1] is not None:
                        d["in_response_to"] = sc[1]
                    confs.append({"method": render.SCM_BEARER, "data": d})
            a["subject"]["confirmations"] = confs
        assertions.append(a)
    r = spaccept.good_response(version=case["version"], status=(case["top"], case["second"], None))
    if case["irt"] is None:
        del r["in_response_to"]
    else:
        r["in_response_to"] = case["irt"]
    if DESTS[case["dest"]] is None:
        del r["destination"]
    else:
        r["destination"] = DESTS[case["dest"]]
    sealed = case.get("sealed") or []
    if not any(sealed) and not case.get("sign_a"):
        return spaccept.build(r, assertions, sign_response="idp")
    return build(r, assertions, sealed, case.get("sign_a"))


def observe(case):
    sp = spaccept.get_sp({"sp_allow_unsolicited": True} if case["allow"] else {})
    xml = render_case(case)
    out = OUTS[case["out"]]
    o = spaccept.observe(sp, xml, BINDINGS[case["via"]], None if out is None else dict(out),
                         encoded=ENCODERS[case["enc"]](xml))
    status_err = None
    if o["exc"] and "StatusError" in (o.get("exc_mro") or []):
        status_err = o["exc"]
    return {"identity": o["identity"], "came_from": o["came_from"], "exc": o["exc"], "status_err": status_err}


def coq_case(case, obs):
    if obs["identity"]:
        v = "(Identity %s)" % cq_opt(obs["came_from"])
    elif obs["status_err"]:
        v = "(StatusErr %s)" % cq(obs["status_err"])
    else:
        v = "NoId"
    def one(k):
        scs = [Raw("NoData") if sc[0] == "nodata" else Raw("(Data %s)" % cq_opt(sc[1])) for sc in case_scs(case, k)]
        return "{| n_authn := %d%%nat; subject := %s |}" % (
            case["n_authn"], ("(Some %s)" % cq(scs)) if case["subject"] else "None")

    sealed = (list(case.get("sealed") or []) + [False] * case["n_assert"])[:case["n_assert"]]
    maj, mi = case["version"].split(".")
    return "C06.Corr.mk %s %s %s %s %s %s (%d%%nat, %d%%nat) %s %s %s %s" % (
        COQ_BINDING[case["via"]], COQ_DEST[case["dest"]], cq([bool(b) for b in sealed]),
        cq(bool(case["allow"])), cq([(k, v2) for k, v2 in (OUTS[case["out"]] or [])]), cq_opt(case["irt"]), int(maj), int(mi),
        cq(case["top"]), cq_opt(case["second"]), "[" + "; ".join(one(k) for k in range(case["n_assert"])) + "]", v)


BASELINE = mk()


def nontrivial(case, obs):
    k = {x: case[x] for x in case if x != "tag"}
    b = {x: BASELINE[x] for x in BASELINE if x != "tag"}
    return None if k == b else k


def histogram(cases, observed):
    h = {"by_tag": {}, "by_delivery": {}, "identity": 0, "status_error": 0, "other_reject": 0, "exceptions": {}}
    for c, o in zip(cases, observed):
        h["by_tag"][c["tag"]] = h["by_tag"].get(c["tag"], 0) + 1
        dk = "%s/%s/dest=%s" % (c["via"], c["enc"], c["dest"])
        h["by_delivery"][dk] = h["by_delivery"].get(dk, 0) + 1
        if o["identity"]:
            h["identity"] += 1
        elif o["status_err"]:
            h["status_error"] += 1
        else:
            h["other_reject"] += 1
        if o["exc"]:
            h["exceptions"][o["exc"]] = h["exceptions"].get(o["exc"], 0) + 1
    return h


def explain_term(t):
    return "C06.Corr.explain (%s)" % t
