"""C06 — responses are accepted only as successful answers to outstanding requests."""
import atexit
import collections
import copy
import hashlib
import itertools
import json
import os
import shutil
import sys
import tempfile

from harness import common, env, fixtures, render, spaccept, world
from harness.common import Raw, cq, cq_opt

PID = "C06"
PARALLEL = 12
IMPORTS = "From Verif Require Import C06.Model C06.Spec C06.History C06.Corr."
CASE_TYPE = "C06.Corr.case"
RUNNER = "C06.Corr.run"
FINDING_CLASSES = {2: "C06-F2", 3: "C06-F3", 4: "C06-F4"}
RULE = ("complete products per group with the other groups at their baseline: correlation = Response InResponseTo(4) x "
        "SubjectConfirmation shapes (0-2 confirmations, each {no data, data without InResponseTo, outstanding id, other "
        "outstanding id, unknown id}) x allow_unsolicited(2) x outstanding set {empty, one, many}, completely for BOTH "
        "browser bindings (HTTP-POST base64 to the POST endpoint, HTTP-Redirect deflate+base64 to the Redirect endpoint); a "
        "reduced correlation product (InResponseTo(4) x 8 confirmation shapes x allow(2) x outstanding{None, many}) "
        "for every other delivery: POST deflated, each browser binding x Destination {absent, the other binding's endpoint, "
        "a foreign URL}, HTTP-Artifact x Destination(2), SOAP, PAOS (outstanding=None: the caller passes no dict); status = all table "
        "codes + unknown + absent second level x 3 top-level codes x {POST, Redirect, SOAP}; top-level status VALUES around "
        "the defined ones (every proper prefix and suffix of the Success URN, its colon-separated pieces, case variants, "
        "one-character extensions, blanks, the same at colon boundaries for the other top-level codes) over POST, the boundary "
        "ones also over Redirect / SOAP / POST encrypted in rotation; versions "
        "{2.0,1.1,2.1,3.0,1.0,0.9,10.0} x all 5 bindings; shape = assertions{0,1,2} x AuthnStatements{0,1,2} x "
        "subject{absent,present} x {POST, Redirect, Artifact, SOAP}; ENCRYPTED assertions: the complete correlation product "
        "(4 x 31 x 2, outstanding many; the 0/1-confirmation shapes also with outstanding one) with the single assertion "
        "delivered as EncryptedAssertion over POST (part of them with the assertion signed as well), reduced over Redirect / Artifact / SOAP; two assertions {clear+encrypted, "
        "encrypted+clear, both encrypted} x confirmations of each from {answers req-1, answers req-2, no InResponseTo, "
        "[req-2, req-1]} x InResponseTo{req-1, unknown, absent} x allow(2); three assertions; shape / status / version with "
        "the assertion encrypted; THE SET-UP OF THE RECEIVER: how the SP option allow_unsolicited is written {absent (older groups), "
        "None, False, True (older groups), 'false', 'true', 0, 1} x both browser bindings x InResponseTo(4) x 5 confirmation "
        "shapes x outstanding {empty, many} (+ one, two confirmations, encrypted, SOAP / Artifact / misaddressed, status / "
        "version / shape failures); 27 further spellings (words that say yes: 'True', 'yes', 'on', '1', blanks; words that say "
        "no: 'False', 'FALSE', 'no', 'off', '0', blanks = finding C06-F4, fixed; '', other words = no client can be built, other numbers) x both browser "
        "bindings x 7 solicited / unsolicited shapes; how the configuration object is made {SPConfig, Config, IdPConfig "
        "loaded from the dict, config_factory('sp', dict), Saml2Client(config_file=module)} x 10 spellings x 5 shapes; "
        "THE METHOD A SubjectConfirmation NAMES (the older groups are bearer throughout): one confirmation = {holder-of-key with "
        "KeyInfo, holder-of-key without, sender-vouches, unknown method} x {no data, data without InResponseTo, req-1, req-2, "
        "unknown id} x InResponseTo(4) x allow(2) x {in clear, encrypted} over POST (reduced over Redirect; outstanding one / "
        "empty); 8 further spellings (KeyInfo inside bearer / sender-vouches data, two KeyInfo, KeyName without KeyInfo, "
        "method URIs that are nearly a defined one); a bearer confirmation answering req-1 beside one of another method in "
        "both orders x 5 contents x 5 solicited / unsolicited set-ups x {clear, encrypted}; pairs without a bearer one; a "
        "stray bearer one beside a good one of another method; triples; two assertions (clear + encrypted, both encrypted) "
        "of different methods; SOAP / Artifact; other spellings of the option; status / version / shape failures; "
        "HISTORIES (what the same PROCESS handled before the Response is delivered; played in a forked child of the observing "
        "process, the caller passing the same outstanding dict object throughout): 22 histories = a LogoutResponse through "
        "parse_logout_request_response over {POST, Redirect, SOAP} with status {Success, Responder/PartialLogout, Success with "
        "second-level PartialLogout}, one that cannot be decoded, one handled by ANOTHER client of the process, one handled "
        "before the receiving client is BUILT; ManageNameID / NameIDMapping / AttributeQuery (accepted, failed) / AuthnQuery "
        "responses; Authz / AssertionID / Artifact responses; earlier authentication Responses (accepted, failed with a status, "
        "unsolicited and refused, unsolicited and accepted by a client that allows it, wrong version, back channel, encrypted "
        "with a stray confirmation); a client built afresh; a mixed sequence of 8 - each x all second-level status codes (21 "
        "table codes + Requester + 2 unknown + absent; top-level code and browser binding in rotation; thorough tier: x 4 "
        "top-level codes x {POST, Redirect, SOAP}) and x 11 finals for the other clauses (accepted over both bindings, "
        "unsolicited, unknown id, stray confirmation in clear / encrypted, Success with a second-level code, version, no "
        "assertion, unsolicited allowed, back channel); "
        "plus seeded random mixtures across groups, deliveries, encryption flags, set-ups, methods and histories (1-5 events). "
        "non-trivial = distinct abstract input differing from the all-valid baseline")
TRUSTED = ["source-to-Gallina translator harness/py2coq.py + coq/theories/Base/Py.v (check_subject_confirmation_in_response_to is "
           "re-translated from the source text on every run; c06_source_check_sc_irt proves it equal to the model)",
           "xmlsec1 stand-in", "renderer harness/render.py", "translator harness/c06.py:regenerate_tables (STATUSCODE2EXCEPTION)",
           "translator v2 harness/py2coq2.py + coq/theories/Base/Py2.v (not-modelled list: notes/translator_v2.md) and the cut "
           "harness/c06.py:config_slices (takes the statements between cnf[arg] and self.setattr out of Config.load_special and "
           "those between config.getattr and setattr out of Base.__init__, refuses any other shape of the statements around "
           "them); Config.setattr / Config.getattr are translated whole; c06_source_* prove them equal to the model's "
           "load_special_val / client_init_val / truthy; that Config.load calls load_special for the 'sp' section, that "
           "_parse_response hands self.allow_unsolicited on and the class of the configuration object are covered by the "
           "correspondence run only",
           "the cut harness/c06.py:subject_slice (takes the if statement between the attesting-entity test and the loop over "
           "the confirmations out of AuthnResponse.get_subject, refuses any other shape and a loop that raises "
           "UnsolicitedResponse itself); c06_source_subject_repeat_check proves it equal to the model's method-blind test "
           "(sc_all_match_m every_method); that nothing in front of it returns early is covered by the correspondence run only",
           "the cut harness/c06.py:status_slice (StatusResponse.status_ok: every statement in front of `err_cls = "
           "STATUSCODE2EXCEPTION.get(err_code, StatusError)` is translated - c06_source_status_ok proves that it reads "
           "self.response.status only and lets exactly the Success URN pass -, the statements behind it must be `msg = f'..'; "
           "[logger.debug(msg);] raise err_cls(msg)`; refuses a response class that overrides status_ok and a module that writes "
           "to the table); that verify() calls status_ok is covered by the correspondence run only",
           "histories: the events are played in a forked child of the observing process (harness/c06.py:observe_after), messages "
           "and clients being made in the parent; LogoutResponse / ManageNameIDResponse / NameIDMappingResponse are rendered by "
           "harness/c06.py:status_message and signed through the stand-in; the final observation (observe_final) counts a write "
           "to the identity cache by THIS delivery as identity (the cache may hold the history's subjects)"]
ASSUMPTIONS = ["a history is a finite sequence of messages handed to the parse_* functions of clients of the same process (and of "
               "client constructions); threads, other processes, configuration reloads and direct writes to library objects by "
               "the application are outside it",
               "a confirmation of a method other than bearer carries the same Recipient / NotOnOrAfter as a bearer one and no Address; "
               "a holder-of-key KeyInfo names a key (ds:KeyName) - whether the presenter holds that key is not the library's test",
               "signature, times, audience, recipient valid in every case; the message is encoded the way the named binding "
               "prescribes (POST also deflated, which Entity.unravel accepts)",
               "the SP registers one HTTP-POST and one HTTP-Redirect assertion consumer endpoint and none for other bindings",
               "encrypted assertions are encrypted for the SP's own certificate (RSA-OAEP + AES-128-CBC through the stand-in) and "
               "decrypt; the Response is always signed by the IdP, the assertions are signed as well in part of the cases",
               "allow_unsolicited is written in the service/sp section of the configuration (a top-level entry is not an SP "
               "option); string spellings are ASCII; a string that says neither yes nor no (meaning = None in Spec.v: 'maybe', "
               "'tru', '-') carries no obligation; since 6bdc97cd no client can be built with it (SAMLError), observed as 'no "
               "identity' for every delivery, and the model has to agree",
               "request ids and contexts are non-empty ASCII strings; InResponseTo values are NCNames (anything else, the empty string "
               "included, is refused by the schema validation in front of the signature check: SignatureError)"]

OUT_MANY = [("req-1", "/ctx1"), ("req-2", "/ctx2"), ("req-3", "/ctx3")]
OUTS = {"none": None, "empty": [], "one": [("req-1", "/ctx1")], "many": OUT_MANY}   # none: the caller passes outstanding=None

# deliveries: (binding the caller names, encoding of the message, Response/@Destination)
BINDINGS = {"post": world.BINDING_HTTP_POST, "redirect": world.BINDING_HTTP_REDIRECT, "artifact": world.BINDING_HTTP_ARTIFACT,
            "soap": world.BINDING_SOAP, "paos": world.BINDING_PAOS}
COQ_BINDING = {"post": "Post", "redirect": "Redirect", "artifact": "Artifact", "soap": "Soap", "paos": "Paos"}
DESTS = {"post": world.SP_ACS_POST, "redirect": world.SP_ACS_REDIRECT, "elsewhere": "https://other.example.org/acs/post",
         "absent": None}
COQ_DEST = {"post": "DPost", "redirect": "DRedirect", "elsewhere": "DElsewhere", "absent": "DAbsent"}
ENCODERS = {"b64": render.b64, "deflate": render.deflate_b64, "soap": render.soap_envelope}
FULL_DELIVERIES = [("post", "b64", "post"), ("redirect", "deflate", "redirect")]
OTHER_DELIVERIES = [("post", "deflate", "post"), ("post", "b64", "absent"), ("post", "b64", "redirect"), ("post", "b64", "elsewhere"),
                    ("redirect", "deflate", "absent"), ("redirect", "deflate", "post"), ("redirect", "deflate", "elsewhere"),
                    ("artifact", "b64", "absent"), ("artifact", "b64", "post"),
                    ("soap", "soap", "post"), ("paos", "soap", "post")]
RARE_DELIVERIES = [("artifact", "b64", "elsewhere"), ("artifact", "b64", "redirect"), ("soap", "soap", "absent"),
                   ("soap", "soap", "elsewhere"), ("paos", "soap", "absent")]   # only in the random mixtures
IRT = [None, "req-1", "req-2", "unknown-9"]

# ---- the set-up of the receiver: how the SP option allow_unsolicited is WRITTEN (service/sp section) ...
ABSENT, NONE = ["absent"], ["none"]
def B(b): return ["bool", bool(b)]
def S(s): return ["str", s]
def I(n): return ["int", int(n)]
OPT_DOCUMENTED = [ABSENT, NONE, B(False), B(True), S("false"), S("true"), I(0), I(1)]
OPT_NEW = [NONE, B(False), S("false"), S("true"), I(0), I(1)]          # absent / True are the two the older groups use
OPT_YES_WORDS = [S("True"), S("TRUE"), S("yes"), S("on"), S("1"), S(" true"), S("true ")]
OPT_NO_WORDS = [S("False"), S("FALSE"), S("fAlSe"), S("no"), S("No"), S("off"), S("0"), S(" false"), S("false "), S(" ")]   # C06-F4
OPT_OTHER = [S(""), S("maybe"), S("falsey"), S("fals"), S("tru"), S("truee"), S("unsolicited"), S("-"), I(2), I(7)]
# ... and how the configuration object is made
LOADERS = ["spconfig", "config", "idpconfig", "factory-dict", "client-file"]
COQ_LOADER = {"spconfig": "LSPConfig", "config": "LConfig", "idpconfig": "LIdPConfig", "factory-dict": "LFactoryDict",
              "client-file": "LClientFile"}
SCD = [("nodata",), ("data", None), ("data", "req-1"), ("data", "req-2"), ("data", "unknown-9")]

# ---- the Method a SubjectConfirmation names: name -> (Method URI, what its SubjectConfirmationData contains, the model's
# constructor).  A confirmation is ("nodata",) / ("data", InResponseTo) [bearer] or (kind, InResponseTo, method name).
CM = "urn:oasis:names:tc:SAML:2.0:cm:"
KEYINFO = '<ds:KeyInfo xmlns:ds="http://www.w3.org/2000/09/xmldsig#"><ds:KeyName>holder</ds:KeyName></ds:KeyInfo>'
KEYNAME = '<ds:KeyName xmlns:ds="http://www.w3.org/2000/09/xmldsig#">holder</ds:KeyName>'
METHODS = {
    "bearer": (CM + "bearer", "", "Bearer"),
    "bearer-ki": (CM + "bearer", KEYINFO, "Bearer"),                # a bearer confirmation may carry a KeyInfo too
    "hok-ki": (CM + "holder-of-key", KEYINFO, "HokKey"),
    "hok-ki2": (CM + "holder-of-key", KEYINFO + KEYINFO, "HokKey"),
    "hok": (CM + "holder-of-key", "", "HokBare"),                   # holder-of-key without a key: not used
    "hok-name": (CM + "holder-of-key", KEYNAME, "HokBare"),         # ... or with something that is no KeyInfo
    "sv": (CM + "sender-vouches", "", "SenderVouches"),
    "sv-ki": (CM + "sender-vouches", KEYINFO, "SenderVouches"),
    "other": (CM + "unheard-of", "", "OtherMethod"),
    "other-case": (CM + "Bearer", "", "OtherMethod"),               # the URIs are compared as they are
    "other-saml1": ("urn:oasis:names:tc:SAML:1.0:cm:bearer", "", "OtherMethod"),
    "other-hok": (CM + "holder-of-key ", KEYINFO, "OtherMethod"),
}


def sc_method(sc):
    return sc[2] if len(sc) > 2 and sc[2] else "bearer"


def sc_irt(sc):
    return sc[1] if len(sc) > 1 else None


def with_method(sc, m):
    """The confirmation [sc] under method [m] (bearer: the two-element form of the older groups)."""
    return tuple(sc[:2]) if m == "bearer" else (sc[0], sc_irt(sc), m)
SUCCESS = render.STATUS_SUCCESS


def regenerate_tables(ctx):
    env.check_repo_import()
    from saml2 import response, samlp

    table = response.STATUSCODE2EXCEPTION
    if not isinstance(table, dict) or not table:
        raise RuntimeError("STATUSCODE2EXCEPTION: unexpected shape")
    rows = []
    for code, cls in table.items():
        if not isinstance(code, str) or not isinstance(cls, type) or not issubclass(cls, response.StatusError):
            raise RuntimeError("STATUSCODE2EXCEPTION entry of unexpected shape: %r" % (code,))
        rows.append("  (%s, %s)" % (cq(code), cq(cls.__name__)))
    txt = ("(* GENERATED by harness/c06.py from saml2.response.STATUSCODE2EXCEPTION and saml2.samlp — do not edit *)\n"
           "From Coq Require Import String List.\nImport ListNotations.\nOpen Scope string_scope.\n"
           "Definition STATUS_SUCCESS : string := %s.\n"
           "Definition statuscode2exception : list (string * string) := [\n%s\n].\n" % (
               cq(samlp.STATUS_SUCCESS), ";\n".join(rows)))
    changed = common.write_if_changed(os.path.join(common.GEN, "C06Tables.v"), txt)
    # translator: check_subject_confirmation_in_response_to as it reads NOW -> coq/gen/C06Src.v (C06/Source.v proves it
    # equal to the model)
    from harness import py2coq
    src = py2coq.regenerate(os.path.join(common.GEN, "C06Src.v"), [
        (os.path.join(env.SRC, "saml2", "response.py"), "AuthnResponse.check_subject_confirmation_in_response_to",
         {"name": "src_check_sc_irt", "params": ["self", "irp"]})])
    src2 = regenerate_source2()
    return {"file": "coq/gen/C06Tables.v", "entries": len(rows), "changed": changed or src["changed"] or src2["changed"],
            "obligations": 1 + src["obligations"] + src2["obligations"],
            "discharged": 1 + src["discharged"] + src2["discharged"], "source": src, "source2": src2,
            "untranslatable": src["untranslatable"] + src2["untranslatable"],
            "table_theorems": ["table_names_ok (C06/Proofs.v): every defined code maps to the class its name demands"]}


# ---------------------------------------------------------------------------- source tie for the option's way
def _same(node, text):
    import ast
    return ast.dump(node) == ast.dump(ast.parse(text).body[0])


def config_slices():
    """The statements through which the value of a boolean SP option passes between the configuration dict and the
    attribute of the client, cut out of their functions as two small pure functions (fail-closed: every statement
    around the cut must have exactly the expected shape, else Untranslatable):
      Config.load_special   for arg in SPEC[typ]: try: _val = cnf[arg] / except KeyError: pass / else: <CUT>;
                            self.setattr(typ, arg, _val)            ->  def load_special_value(_val): <CUT>; return _val
      Base.__init__         for attr, val_default in attribute_defaults.items(): val_config = self.config.getattr(attr, "sp");
                            <CUT>; setattr(self, attr, val)         ->  def option_value(attr, val_config, val_default): <CUT>; return val
    and the default of allow_unsolicited in the attribute_defaults literal of Base.__init__.
    Returns [(origin, FunctionDef, spec)], default (a Python constant)."""
    import ast
    from harness import py2coq2

    U = py2coq2.Untranslatable
    out = []
    path = os.path.join(env.SRC, "saml2", "config.py")
    with open(path) as f:
        fn = py2coq2.find_function(ast.parse(f.read()), "Config.load_special")
    body = [b for b in fn.body if not (isinstance(b, ast.Expr) and isinstance(b.value, ast.Constant))]
    loop = body[0] if body else None
    if not (isinstance(loop, ast.For) and isinstance(loop.target, ast.Name)
            and loop.target.id == "arg" and ast.dump(loop.iter) == ast.dump(ast.parse("SPEC[typ]").body[0].value)
            and not loop.orelse and len(loop.body) == 1 and isinstance(loop.body[0], ast.Try)):
        raise U("Config.load_special: the loop over SPEC[typ] has another shape")
    t = loop.body[0]
    if not (len(t.body) == 1 and _same(t.body[0], "_val = cnf[arg]") and len(t.handlers) == 1
            and ast.dump(t.handlers[0]) == ast.dump(ast.parse("try:\n pass\nexcept KeyError:\n pass").body[0].handlers[0])
            and not t.finalbody and t.orelse and _same(t.orelse[-1], "self.setattr(typ, arg, _val)")):
        raise U("Config.load_special: the try statement around cnf[arg] has another shape")
    for rest in body[1:]:
        if not (_same(rest, "self.context = typ") or _same(rest, "self.context = self.def_context")):
            raise U("Config.load_special: unexpected statement after the loop")
    f1 = ast.parse("def load_special_value(_val):\n pass").body[0]
    f1.body = list(t.orelse[:-1]) + [ast.parse("return _val").body[0]]
    f1.lineno, f1.end_lineno = t.orelse[0].lineno, t.orelse[-1].end_lineno
    out.append(("saml2/config.py:Config.load_special (the else block in front of self.setattr, cut out by harness/c06.py:config_slices)",
                ast.fix_missing_locations(f1), {"name": "src2_load_special_value", "params": ["_val"]}))

    path = os.path.join(env.SRC, "saml2", "client_base.py")
    with open(path) as f:
        fn = py2coq2.find_function(ast.parse(f.read()), "Base.__init__")
    k = next((i for i, b in enumerate(fn.body) if isinstance(b, ast.Assign) and len(b.targets) == 1
              and isinstance(b.targets[0], ast.Name) and b.targets[0].id == "attribute_defaults"), None)
    if k is None or k + 1 >= len(fn.body) or not isinstance(fn.body[k].value, ast.Dict):
        raise U("Base.__init__: attribute_defaults literal not found")
    try:
        defaults = ast.literal_eval(fn.body[k].value)
    except ValueError:
        raise U("Base.__init__: attribute_defaults is not a literal")
    loop = fn.body[k + 1]
    if not (isinstance(loop, ast.For) and not loop.orelse
            and ast.dump(loop.target) == ast.dump(ast.parse("attr, val_default = 0").body[0].targets[0])
            and ast.dump(loop.iter) == ast.dump(ast.parse("attribute_defaults.items()").body[0].value)
            and len(loop.body) >= 2 and _same(loop.body[0], 'val_config = self.config.getattr(attr, "sp")')
            and _same(loop.body[-1], "setattr(self, attr, val)")):
        raise U("Base.__init__: the loop over attribute_defaults has another shape")
    uses = [n for b in fn.body[k + 2:] for n in ast.walk(b) if isinstance(n, ast.Attribute) and n.attr == "allow_unsolicited"
            and isinstance(n.ctx, ast.Store)]
    if uses or "allow_unsolicited" not in defaults or type(defaults["allow_unsolicited"]) is not bool:
        raise U("Base.__init__: allow_unsolicited is set in another way as well")
    f2 = ast.parse("def option_value(attr, val_config, val_default):\n pass").body[0]
    f2.body = list(loop.body[1:-1]) + [ast.parse("return val").body[0]]
    f2.lineno, f2.end_lineno = loop.lineno, loop.end_lineno
    out.append(("saml2/client_base.py:Base.__init__ (the body of the loop over attribute_defaults between config.getattr and "
                "setattr, cut out by harness/c06.py:config_slices)", ast.fix_missing_locations(f2),
                SRC2_SPECS[1]))
    return out, defaults["allow_unsolicited"]


SRC2_SPECS = [{"name": "src2_load_special_value", "params": ["_val"]},
              {"name": "src2_option_value", "params": ["attr", "val_config", "val_default"], "lenient_raise_args": True,
               "exc_parents": {"SAMLError": ["Exception"]}},
              {"name": "src2_config_setattr", "params": ["self", "context", "attr", "val"], "returns_state": ["self"]},
              {"name": "src2_config_getattr", "params": ["self", "attr", "context"]},
              {"name": "src2_subject_repeat_check", "params": ["self", "subject"], "lenient_raise_args": True,
               "exc_parents": {"UnsolicitedResponse": ["Exception"]}},
              {"name": "src2_status_ok_head", "params": ["self"]}]


def subject_slice():
    """The repeat of the InResponseTo test of loads() at the head of AuthnResponse.get_subject (e76039c1), cut out as a
    function of (self, subject) (fail-closed: the statements around the cut must have exactly the expected shape, else
    Untranslatable):
      subject = self.assertion.subject / subjconf = [] / if not self.verify_attesting_entity(...): raise ... /
      <CUT: one if statement> / for subject_confirmation in subject.subject_confirmation: _data = ...; if method == ...
    ->  def subject_repeat_check(self, subject): <CUT>; return None
    The evaluation loop behind the cut must not leave through UnsolicitedResponse itself (the test belongs in front of
    it, over ALL confirmations)."""
    import ast
    from harness import py2coq2

    U = py2coq2.Untranslatable
    path = os.path.join(env.SRC, "saml2", "response.py")
    with open(path) as f:
        fn = py2coq2.find_function(ast.parse(f.read()), "AuthnResponse.get_subject")
    body = [b for b in fn.body if not (isinstance(b, ast.Expr) and isinstance(b.value, ast.Constant))]
    k = next((i for i, b in enumerate(body) if isinstance(b, ast.If) and "verify_attesting_entity" in ast.dump(b.test)), None)
    if k is None or k + 2 >= len(body) or not any(_same(b, "subject = self.assertion.subject") for b in body[:k]):
        raise U("AuthnResponse.get_subject: the head (subject = ..., verify_attesting_entity) has another shape")
    cut, loop = body[k + 1], body[k + 2]
    if not (isinstance(cut, ast.If) and not cut.orelse and isinstance(loop, ast.For) and not loop.orelse
            and ast.dump(loop.iter) == ast.dump(ast.parse("subject.subject_confirmation").body[0].value)
            and isinstance(loop.target, ast.Name) and loop.body
            and _same(loop.body[0], "_data = %s.subject_confirmation_data" % loop.target.id)):
        raise U("AuthnResponse.get_subject: no single if statement between the attesting-entity test and the loop over "
                "subject.subject_confirmation")
    if any(isinstance(n, ast.Raise) and "UnsolicitedResponse" in ast.dump(n) for n in ast.walk(loop)):
        raise U("AuthnResponse.get_subject: the evaluation loop raises UnsolicitedResponse itself")
    f1 = ast.parse("def subject_repeat_check(self, subject):\n pass").body[0]
    f1.body = [cut, ast.parse("return None").body[0]]
    f1.lineno, f1.end_lineno = cut.lineno, cut.end_lineno
    return ("saml2/response.py:AuthnResponse.get_subject (the if statement between the attesting-entity test and the loop over "
            "the confirmations, cut out by harness/c06.py:subject_slice)", ast.fix_missing_locations(f1), SRC2_SPECS[4])


def status_slice():
    """StatusResponse.status_ok cut in two (fail-closed: any other shape is Untranslatable):
      HEAD  every statement in front of `err_cls = STATUSCODE2EXCEPTION.get(err_code, StatusError)` - which value counts
            as success, which code is looked up, and whatever else may return before the lookup -, turned into
            def status_ok_head(self): <HEAD>; return err_code       (True: the status test passes; else the code looked up)
      TAIL  exactly: err_cls = STATUSCODE2EXCEPTION.get(err_code, StatusError) / msg = <f-string> / logger.debug(msg) /
            raise err_cls(msg): the class comes out of the table (coq/gen/C06Tables.v, regenerated from the live dict) with
            StatusError as the default, and it is raised.
    The head may not mention the table or err_cls, the class may define no other status_ok (AuthnResponse & co inherit
    it: checked on the live classes), and the table must be a dict display that nothing in the module writes to."""
    import ast
    from harness import py2coq2

    U = py2coq2.Untranslatable
    path = os.path.join(env.SRC, "saml2", "response.py")
    with open(path) as f:
        tree = ast.parse(f.read())
    fn = py2coq2.find_function(tree, "StatusResponse.status_ok")
    body = [b for b in fn.body if not (isinstance(b, ast.Expr) and isinstance(b.value, ast.Constant))]
    k = next((i for i, b in enumerate(body) if _same(b, "err_cls = STATUSCODE2EXCEPTION.get(err_code, StatusError)")), None)
    if k is None:
        raise U("StatusResponse.status_ok: the table lookup `err_cls = STATUSCODE2EXCEPTION.get(err_code, StatusError)` not found")
    head, tail = body[:k], body[k + 1:]
    tail = [b for b in tail if not _same(b, "logger.debug(msg)")]
    if not (len(tail) == 2 and isinstance(tail[0], ast.Assign) and len(tail[0].targets) == 1
            and isinstance(tail[0].targets[0], ast.Name) and tail[0].targets[0].id == "msg"
            and isinstance(tail[0].value, (ast.JoinedStr, ast.Constant)) and _same(tail[1], "raise err_cls(msg)")):
        raise U("StatusResponse.status_ok: the statements behind the table lookup are not `msg = f'...'; raise err_cls(msg)`")
    for b in head:
        for n in ast.walk(b):
            if isinstance(n, ast.Name) and n.id in ("STATUSCODE2EXCEPTION", "err_cls"):
                raise U("StatusResponse.status_ok: the statements in front of the table lookup mention %s" % n.id)
    # the other response classes inherit status_ok; nothing in the module writes to the table or to a class
    for node in ast.walk(tree):
        if isinstance(node, ast.ClassDef) and node.name != "StatusResponse":
            if any(isinstance(b, ast.FunctionDef) and b.name == "status_ok" for b in node.body):
                raise U("class %s defines a status_ok of its own" % node.name)
        if isinstance(node, (ast.Subscript, ast.Attribute)) and isinstance(node.ctx, (ast.Store, ast.Del)):
            d = py2coq2._dotted(node.value)
            if d == "STATUSCODE2EXCEPTION":
                raise U("the module writes to STATUSCODE2EXCEPTION (line %d)" % node.lineno)
        if isinstance(node, ast.Call) and isinstance(node.func, ast.Attribute) \
                and py2coq2._dotted(node.func.value) == "STATUSCODE2EXCEPTION" and node.func.attr != "get":
            raise U("the module calls STATUSCODE2EXCEPTION.%s (line %d)" % (node.func.attr, node.lineno))
    f1 = ast.parse("def status_ok_head(self):\n pass").body[0]
    f1.body = list(head) + [ast.parse("return err_code").body[0]]
    f1.lineno, f1.end_lineno = fn.lineno, body[k].end_lineno
    from saml2 import samlp

    spec = dict(SRC2_SPECS[5], globals={"samlp.STATUS_SUCCESS": "(PStr %s)" % cq(samlp.STATUS_SUCCESS)})
    return ("saml2/response.py:StatusResponse.status_ok (the statements in front of the table lookup, cut out by "
            "harness/c06.py:status_slice)", ast.fix_missing_locations(f1), spec)


def regenerate_source2():
    """coq/gen/C06Src2.v: the two cuts of config_slices, Config.setattr / Config.getattr (whole functions), the cut of
    subject_slice (the repeat of the InResponseTo test in get_subject) and the default of allow_unsolicited, re-translated from the source text as it is NOW (translator v2; C06/Source2.v proves
    them equal to load_special_val / client_init_val of the model)."""
    import ast
    from harness import py2coq2

    out, failed, names = [py2coq2.HEADER], [], []
    default = None
    try:
        slices, default = config_slices()
    except (py2coq2.Untranslatable, OSError, SyntaxError, AttributeError, IndexError) as e:
        slices = []
        failed.append("config_slices: %s" % e)
        out += [py2coq2.poison(sp["name"], sp, str(e)) for sp in SRC2_SPECS[:2]]
    for origin, fn, spec in slices:
        names.append(spec["name"])
        try:
            out.append(py2coq2.translate_def(fn, spec, origin))
        except py2coq2.Untranslatable as e:
            failed.append("%s: %s" % (spec["name"], e))
            out.append(py2coq2.poison(spec["name"], spec, str(e)))
    path = os.path.join(env.SRC, "saml2", "config.py")
    for q, spec in (("Config.setattr", SRC2_SPECS[2]), ("Config.getattr", SRC2_SPECS[3])):
        names.append(q)
        try:
            out.append(py2coq2.translate(path, q, spec))
        except (py2coq2.Untranslatable, OSError, SyntaxError) as e:
            failed.append("%s: %s" % (q, e))
            out.append(py2coq2.poison(q, spec, str(e)))
    names.append(SRC2_SPECS[4]["name"])
    try:
        origin, fn, spec = subject_slice()
        out.append(py2coq2.translate_def(fn, spec, origin))
    except (py2coq2.Untranslatable, OSError, SyntaxError, AttributeError, IndexError) as e:
        failed.append("subject_slice: %s" % e)
        out.append(py2coq2.poison(SRC2_SPECS[4]["name"], SRC2_SPECS[4], str(e)))
    names.append(SRC2_SPECS[5]["name"])
    try:
        origin, fn, spec = status_slice()
        out.append(py2coq2.translate_def(fn, spec, origin))
    except (py2coq2.Untranslatable, OSError, SyntaxError, AttributeError, IndexError) as e:
        failed.append("status_slice: %s" % e)
        out.append(py2coq2.poison(SRC2_SPECS[5]["name"], SRC2_SPECS[5], str(e)))
    out.append("(* saml2/client_base.py:Base.__init__, attribute_defaults[\"allow_unsolicited\"] *)\n"
               "Definition src2_allow_unsolicited_default : pyval := %s.\n" % (
                   "PErr" if default is None else "(PBool %s)" % ("true" if default else "false")))
    changed = common.write_if_changed(os.path.join(common.GEN, "C06Src2.v"), "\n".join(out))
    n = len(SRC2_SPECS) + 1
    return {"translated": names, "untranslatable": failed, "changed": changed, "obligations": n,
            "discharged": n - len(failed) if slices else 0}


def mk(irt="req-1", scs=(("data", "req-1"),), allow=False, out="one", top=SUCCESS, second=None, version="2.0",
       n_assert=1, n_authn=1, subject=True, tag="", delivery=FULL_DELIVERIES[0], sealed=(), scs2=None, sign_a=False,
       opt=None, how="spconfig", hist=()):
    """hist: what the process handled before this delivery (list of events, see ev / ev_authn / NEWCLIENT; () = nothing:
    the long-lived client of the worker process); allow: shorthand for the two set-ups of the older groups (False: option absent, True: the boolean True);
    opt: how the option is written (overrides allow); how: how the configuration object is made; sealed: which assertions (by position) arrive as EncryptedAssertion (missing = in clear); scs: confirmations of
    the first assertion, scs2: of every further one (None = the same); sign_a: the assertions are signed as well."""
    return {"via": delivery[0], "enc": delivery[1], "dest": delivery[2], "irt": irt, "scs": [list(s) for s in scs],
            "opt": list(opt) if opt is not None else (B(True) if allow else ABSENT), "how": how,
            "out": out, "top": top, "second": second,
            "version": version, "n_assert": n_assert, "n_authn": n_authn, "subject": subject, "tag": tag,
            "sealed": [bool(b) for b in (list(sealed) + [False] * n_assert)[:n_assert]],
            "scs2": None if scs2 is None else [list(s) for s in scs2], "sign_a": bool(sign_a),
            "hist": [copy.deepcopy(e) for e in hist]}


def status_codes():
    env.check_repo_import()
    from saml2 import response

    codes = list(response.STATUSCODE2EXCEPTION.keys())
    codes += ["urn:oasis:names:tc:SAML:2.0:status:Requester", "urn:oasis:names:tc:SAML:2.0:status:Bogus",
              "urn:example:unknown", None]
    return codes


def top_variants():
    """Top-level StatusCode values around the defined ones: (all, at_boundaries).  all = every proper prefix and
    suffix of the Success URN, its pieces between colons, case variants, one-character extensions, and for the
    other top-level codes the prefixes / suffixes at colon boundaries, local names and case variants.  None of
    them IS the Success URN, so none may count as success.  (The empty value is left out: valid_instance refuses
    it before the status is looked at - MustValueError.)"""
    S = SUCCESS
    others = ["urn:oasis:names:tc:SAML:2.0:status:Responder", "urn:oasis:names:tc:SAML:2.0:status:Requester",
              "urn:oasis:names:tc:SAML:2.0:status:VersionMismatch"]
    allv, bound = [], []

    def boundary(u):
        parts = u.split(":")
        res = []
        for k in range(1, len(parts)):
            res += [":".join(parts[:k]), ":".join(parts[:k]) + ":", ":".join(parts[k:]), ":" + ":".join(parts[k:])]
        for i in range(len(parts)):
            for j in range(i + 1, len(parts) + 1):
                res.append(":".join(parts[i:j]))
        res += [u.upper(), u.lower(), u.swapcase(), u[:-len(parts[-1])] + parts[-1].lower(),
                u[:-len(parts[-1])] + parts[-1].upper(), u + "x", u + ":", u + "/", u + " ", " " + u, "x" + u, u + u,
                u[:-1], u[1:], u.replace("2.0", "2.00"), u.replace("2.0", "1.1"), u.replace("urn:", "urn::"),
                "http://example.org/" + parts[-1], ":", "%", "S", "s"]
        return res

    bound += boundary(S)
    for o in others:
        bound += [v for v in boundary(o) if v not in bound]
    allv += bound
    allv += [S[:k] for k in range(1, len(S))] + [S[k:] for k in range(1, len(S))]
    forbidden = {"", S}
    uniq = lambda l: [v for i, v in enumerate(l) if v not in forbidden and v not in l[:i]]
    return uniq(allv), uniq(bound)


def generate(ctx):
    rng = ctx.rng
    cases = []
    sc_shapes = [()] + [(a,) for a in SCD] + [(a, b) for a in SCD for b in SCD]
    for dl in FULL_DELIVERIES:
        for irt in IRT:
            for scs in sc_shapes:
                for allow in (False, True):
                    for out in ("empty", "one", "many"):
                        cases.append(mk(irt=irt, scs=scs, allow=allow, out=out, tag="corr", delivery=dl))
    few_shapes = [()] + [(a,) for a in SCD] + [(("data", "req-1"), ("data", "req-2")), (("nodata",), ("data", "unknown-9"))]
    for dl in OTHER_DELIVERIES:
        for irt in IRT:
            for scs in few_shapes:
                for allow in (False, True):
                    for out in ("none", "many"):
                        if out == "none" and dl[2] in ("elsewhere", "redirect" if dl[0] == "post" else "post") \
                                and dl[0] in ("post", "redirect"):
                            continue   # misaddressed: refused whatever the outstanding set
                        cases.append(mk(irt=irt, scs=scs, allow=allow, out=out, tag="delivery", delivery=dl))
    all_dl = FULL_DELIVERIES + OTHER_DELIVERIES + RARE_DELIVERIES
    one_per_binding = FULL_DELIVERIES + [("artifact", "b64", "absent"), ("soap", "soap", "post"), ("paos", "soap", "post")]
    tops = ["urn:oasis:names:tc:SAML:2.0:status:Responder", "urn:oasis:names:tc:SAML:2.0:status:Requester",
            "urn:oasis:names:tc:SAML:2.0:status:VersionMismatch"]
    for dl in FULL_DELIVERIES + [("soap", "soap", "post")]:
        for top in tops + [SUCCESS]:
            for second in status_codes():
                cases.append(mk(top=top, second=second, tag="status", delivery=dl))
                if top != SUCCESS and dl[0] == "post":
                    cases.append(mk(top=top, second=second, n_assert=0, tag="status", delivery=dl))
    for dl in one_per_binding:
        for v in ["2.0", "1.1", "2.1", "3.0", "1.0", "0.9", "10.0"]:
            for top in (SUCCESS, tops[0]):
                cases.append(mk(version=v, top=top, second=None if top == SUCCESS else status_codes()[1], tag="version",
                                delivery=dl))
    for dl in one_per_binding[:4]:
        for n_assert in (0, 1, 2):
            for n_authn in (0, 1, 2):
                for subject in (False, True):
                    for allow in (False, True):
                        cases.append(mk(n_assert=n_assert, n_authn=n_authn, subject=subject, allow=allow, tag="shape",
                                        delivery=dl))
    # ---- assertions delivered encrypted (loads() sees the clear ones only)
    post, redirect = FULL_DELIVERIES
    for irt in IRT:
        for scs in sc_shapes:
            for allow in (False, True):
                for out in ("one", "many"):
                    if out == "one" and len(scs) == 2:
                        continue
                    cases.append(mk(irt=irt, scs=scs, allow=allow, out=out, tag="sealed", delivery=post, sealed=(True,),
                                    sign_a=(out == "one" or (len(scs) == 2 and scs[0] == scs[1]))))
    for dl in (redirect, ("artifact", "b64", "absent"), ("soap", "soap", "post")):
        for irt in IRT:
            for scs in few_shapes:
                for allow in (False, True):
                    cases.append(mk(irt=irt, scs=scs, allow=allow, out="many", tag="sealed", delivery=dl, sealed=(True,)))
    for scs in few_shapes:
        cases.append(mk(scs=scs, out="many", tag="sealed", delivery=("post", "b64", "elsewhere"), sealed=(True,)))
    pair = [(("data", "req-1"),), (("data", "req-2"),), (("data", None),), (("data", "req-2"), ("data", "req-1"))]
    for flags in ((False, True), (True, False), (True, True)):
        for a in pair:
            for b in pair:
                for irt in ("req-1", "unknown-9", None):
                    for allow in (False, True):
                        cases.append(mk(irt=irt, scs=a, scs2=b, n_assert=2, allow=allow, out="many", tag="sealed-pair",
                                        sealed=flags))
    for flags in ((False, False, True), (False, True, True), (True, False, True), (True, True, True)):
        for last in (pair[0], pair[1]):
            for allow in (False, True):
                cases.append(mk(scs=pair[0] if flags[0] else last, scs2=last if flags[0] else pair[0], n_assert=3,
                                allow=allow, out="many", tag="sealed-pair", sealed=flags))
    for flags, n in (((True,), 1), ((False, True), 2), ((True, False), 2)):
        for n_authn in (0, 1, 2):
            for subject in (False, True):
                for allow in (False, True):
                    cases.append(mk(n_assert=n, n_authn=n_authn, subject=subject, allow=allow, tag="sealed-shape",
                                    sealed=flags))
    for top in tops:
        for second in (None, status_codes()[1]):
            for n_authn, subject in ((1, True), (1, False), (0, True)):
                cases.append(mk(top=top, second=second, n_authn=n_authn, subject=subject, tag="sealed-status", sealed=(True,)))
    for v in ["1.1", "2.1", "3.0"]:
        cases.append(mk(version=v, tag="sealed-status", sealed=(True,)))
    # ---- top-level status values around the defined ones (nothing but the Success URN itself is success)
    allv, bound = top_variants()
    code = status_codes()[1]
    for v in allv:
        cases.append(mk(top=v, second=None if len(cases) % 2 else code, tag="status-top"))
    rot = ((redirect, ()), (("soap", "soap", "post"), ()), (post, (True,)))
    for k, v in enumerate(bound):
        dl, sealed = rot[k % 3]
        cases.append(mk(top=v, second=code if (k // 3) % 2 else None, tag="status-top", delivery=dl, sealed=sealed))
    # ---- the set-up: how allow_unsolicited is written x how the configuration object is made
    unknown = "unknown-9"
    conf_shapes = [(), (("data", None),), (("data", "req-1"),), (("data", "req-2"),), (("data", unknown),)]
    for opt in OPT_NEW:
        for dl in FULL_DELIVERIES:
            for irt in IRT:
                for scs in conf_shapes:
                    for out in ("empty", "many"):
                        cases.append(mk(irt=irt, scs=scs, opt=opt, out=out, tag="config", delivery=dl))
                cases.append(mk(irt=irt, scs=(("data", irt),), opt=opt, out="one", tag="config", delivery=dl))
                cases.append(mk(irt=irt, scs=(("data", "req-1"), ("data", unknown)), opt=opt, out="one", tag="config",
                                delivery=dl))
        for irt in IRT:
            for scs in conf_shapes:
                cases.append(mk(irt=irt, scs=scs, opt=opt, out="many", tag="config", delivery=post, sealed=(True,)))
        for dl in (("soap", "soap", "post"), ("artifact", "b64", "absent"), ("post", "b64", "elsewhere")):
            for irt, sc in (("req-1", "req-1"), (unknown, unknown), (None, None)):
                cases.append(mk(irt=irt, scs=(("data", sc),), opt=opt, out="many", tag="config", delivery=dl))
        cases.append(mk(opt=opt, top=tops[0], second=code, tag="config"))
        cases.append(mk(opt=opt, irt=unknown, scs=(("data", unknown),), top=tops[0], second=code, tag="config"))
        cases.append(mk(opt=opt, irt=unknown, scs=(("data", unknown),), version="2.1", tag="config"))
        cases.append(mk(opt=opt, irt=unknown, scs=(("data", unknown),), n_authn=0, tag="config"))
        cases.append(mk(opt=opt, irt=unknown, n_assert=0, tag="config"))
    word_shapes = [("req-1", "req-1"), ("req-1", "req-2"), (unknown, unknown), (None, None), (None, unknown), (unknown, None),
                   ("req-2", None)]
    for opt in OPT_YES_WORDS + OPT_NO_WORDS + OPT_OTHER:
        for k, dl in enumerate(FULL_DELIVERIES):
            for irt, sc in word_shapes:
                cases.append(mk(irt=irt, scs=(("data", sc),), opt=opt, out=("many", "one", "empty")[(k + len(cases)) % 3],
                                tag="config-words", delivery=dl))
        cases.append(mk(irt=unknown, scs=(("data", unknown),), opt=opt, out="many", tag="config-words", sealed=(True,)))
        cases.append(mk(irt=unknown, scs=(("data", unknown),), opt=opt, out="many", tag="config-words",
                        delivery=("soap", "soap", "post")))
    for how in LOADERS[1:]:
        for opt in [ABSENT, NONE, B(False), B(True), S("false"), S("true"), I(0), S("False"), S("yes"), S("")]:
            for k, (irt, sc) in enumerate(word_shapes[:5]):
                cases.append(mk(irt=irt, scs=(("data", sc),), opt=opt, how=how, out="many", tag="config-loader",
                                delivery=FULL_DELIVERIES[k % 2]))
    cases += method_cases()
    cases += history_cases(ctx)
    pool = [e for _, h in histories() for e in h]
    all_opts = OPT_DOCUMENTED * 3 + OPT_YES_WORDS + OPT_NO_WORDS + OPT_OTHER
    for _ in range(3000 if ctx.thorough else 400):
        cases.append(mk(irt=rng.choice(IRT), scs=rng.choice(sc_shapes), allow=rng.random() < 0.4,
                        out=rng.choice(list(OUTS)), top=rng.choice([SUCCESS] * 4 + tops * 2 + bound),
                        second=rng.choice(status_codes()), version=rng.choice(["2.0", "2.0", "2.0", "1.1", "2.1", "3.0"]),
                        n_assert=rng.choice([1, 1, 1, 0, 2]), n_authn=rng.choice([1, 1, 1, 0, 2]),
                        subject=rng.random() < 0.85, tag="random",
                        delivery=rng.choice(FULL_DELIVERIES * 4 + all_dl)))
        c = cases[-1]
        if rng.random() < 0.4:
            c["sealed"] = [rng.random() < 0.6 for _ in range(c["n_assert"])]
        if c["n_assert"] > 1 and rng.random() < 0.5:
            c["scs2"] = [list(x) for x in rng.choice(sc_shapes)]
        c["sign_a"] = rng.random() < 0.2
        if rng.random() < 0.5:
            c["opt"] = list(rng.choice(all_opts))
            c["how"] = rng.choice(LOADERS[:1] * 3 + LOADERS)
        if rng.random() < 0.35:
            names = ["bearer"] * 3 + MAIN_METHODS * 2 + list(METHODS)
            c["scs"] = [list(with_method(tuple(sc), rng.choice(names))) for sc in c["scs"]]
            if c["scs2"] is not None:
                c["scs2"] = [list(with_method(tuple(sc), rng.choice(names))) for sc in c["scs2"]]
        if rng.random() < 0.15:
            c["hist"] = [copy.deepcopy(rng.choice(pool)) for _ in range(rng.choice([1, 1, 2, 3, 5]))]
    return cases


MAIN_METHODS = ["hok-ki", "hok", "sv", "other"]


def method_cases():
    """The Method a SubjectConfirmation names (tag "methods").  The older groups are bearer throughout."""
    cases = []
    post, redirect = FULL_DELIVERIES
    soap, artifact = ("soap", "soap", "post"), ("artifact", "b64", "absent")

    def add(**kw):
        kw.setdefault("tag", "methods")
        kw.setdefault("out", "many")
        cases.append(mk(**kw))

    # one confirmation: method x what it carries x InResponseTo of the Response x allowed x in clear / encrypted (POST);
    # over Redirect the encrypted ones and, in clear, the two solicited / unsolicited extremes
    for m in MAIN_METHODS:
        for sc in SCD:
            scs = (with_method(sc, m),)
            for irt in IRT:
                for allow in (False, True):
                    for sealed in ((), (True,)):
                        add(irt=irt, scs=scs, allow=allow, sealed=sealed, sign_a=(allow and bool(sealed)))
                add(irt=irt, scs=scs, delivery=redirect, sealed=(True,))
                add(irt=irt, scs=scs, delivery=redirect, allow=(irt is None))
            add(scs=scs, out="one", sealed=(True,))
            add(scs=scs, out="one", irt="req-2", sealed=(True,))
            add(scs=scs, out="empty", sealed=(True,), allow=True)
    # the other spellings of the methods (what the data contains beside the attributes; URIs that are nearly a defined one)
    for m in [x for x in METHODS if x not in MAIN_METHODS and x != "bearer"]:
        for sc in (("nodata",), ("data", "req-1"), ("data", "req-2"), ("data", None)):
            for irt, allow in (("req-1", False), (None, True), ("unknown-9", False)):
                for sealed in ((), (True,)):
                    add(irt=irt, scs=(with_method(sc, m),), allow=allow, sealed=sealed)
    # two confirmations: a bearer one that answers req-1 beside one of another method, in both orders ...
    good = ("data", "req-1")
    for m in MAIN_METHODS:
        for sc in SCD:
            other = with_method(sc, m)
            for scs in ((good, other), (other, good)):
                for irt, allow in (("req-1", False), ("req-1", True), (None, False), (None, True), ("unknown-9", True)):
                    for sealed in ((), (True,)):
                        if not sealed and (irt, allow) in ((None, False), ("req-1", True)):
                            continue
                        add(irt=irt, scs=scs, allow=allow, sealed=sealed)
                add(scs=scs, delivery=redirect, sealed=(True,))
    # ... two of which none is bearer, a stray bearer one beside a good one of another method, three confirmations
    nb = [("data", "req-1", "hok-ki"), ("data", "req-2", "hok-ki"), ("data", "req-1", "sv"), ("data", "req-2", "sv"),
          ("data", None, "sv"), ("data", "req-1", "hok"), ("nodata", None, "hok-ki")]
    for a in nb:
        for b in nb:
            if a != b:
                for sealed in ((), (True,)):
                    add(scs=(a, b), sealed=sealed)
    for m in ("hok-ki", "sv"):
        for stray in (("data", "req-2"), ("data", None), ("data", "unknown-9"), ("nodata",)):
            for scs in ((stray, ("data", "req-1", m)), (("data", "req-1", m), stray)):
                for sealed in ((), (True,)):
                    add(scs=scs, sealed=sealed)
                    add(scs=scs, sealed=sealed, irt=None, allow=True)
    triples = [(good, ("data", "req-1", "hok-ki"), ("data", "req-1", "sv")),
               (good, ("data", "req-1", "hok-ki"), ("data", "req-2", "sv")),
               (("data", "req-2", "hok-ki"), good, ("data", "req-1", "sv")),
               (("nodata", None, "hok-ki"), ("data", "req-1", "hok"), ("data", "req-1", "sv")),
               (("nodata",), ("data", "req-1", "hok"), ("data", "unknown-9", "sv")),
               (("data", "req-1", "sv"), ("data", "req-1", "other"), good),
               (good, good, ("data", None, "hok-ki"))]
    for scs in triples:
        for sealed in ((), (True,)):
            for dl in (post, redirect):
                add(scs=scs, sealed=sealed, delivery=dl)
            add(scs=scs, sealed=sealed, irt=None, allow=True)
    # several assertions: the bearer one in clear or encrypted beside one of another method
    for flags in ((False, True), (True, False), (True, True)):
        for m in ("hok-ki", "sv"):
            for sc in (("data", "req-1"), ("data", "req-2"), ("data", None)):
                for first in (True, False):
                    one, two = (good,), (with_method(sc, m),)
                    for allow in (False, True):
                        add(scs=one if first else two, scs2=two if first else one, n_assert=2, sealed=flags, allow=allow)
    # the back channel and HTTP-Artifact: no correlation asked for / correlated like POST
    for dl in (soap, artifact):
        for m in MAIN_METHODS:
            for sc in SCD[:4]:
                for sealed in ((), (True,)):
                    add(scs=(with_method(sc, m),), delivery=dl, sealed=sealed)
                    if sc[0] == "data":
                        add(scs=(with_method(sc, m),), delivery=dl, sealed=sealed, irt=None, out="none")
    # other ways of writing "not allowed", misaddressed, status / version / shape failures under another method
    for opt in (NONE, B(False), S("false"), I(0), S("False"), S("true"), I(1)):
        for m in ("hok-ki", "sv"):
            for sc in (("data", "req-2"), ("data", None), ("data", "req-1")):
                add(scs=(with_method(sc, m),), opt=opt, sealed=(True,))
            add(scs=(("data", "unknown-9", m),), irt="unknown-9", opt=opt, sealed=(True,))
    tops = "urn:oasis:names:tc:SAML:2.0:status:Responder"
    for m in ("hok-ki", "sv", "other"):
        for sealed in ((), (True,)):
            scs = (("data", "req-1", m),)
            add(scs=scs, sealed=sealed, delivery=("post", "b64", "elsewhere"))
            add(scs=scs, sealed=sealed, top=tops, second=status_codes()[1])
            add(scs=scs, sealed=sealed, version="2.1")
            add(scs=scs, sealed=sealed, n_authn=0)
            add(scs=scs, sealed=sealed, n_authn=2)
            add(scs=(("data", "req-2", m),), sealed=sealed, top=tops)
    return cases


# ---------------------------------------------------------------------------- histories
# What the PROCESS handled before the Response is delivered.  An event is
#   {"kind": k, "via": binding name, "who": "same" | "other", "top", "second", "irt", "garbage"}   a message of another
#       kind handed to the matching parse_* function (EVENT_PARSERS) of the receiving client ("same") or of another
#       client of the process ("other": one that allows unsolicited Responses); garbage: a message that cannot be decoded;
#   {"kind": "authn", "who": ..., "case": <a case made by mk()>}   an earlier authentication Response (its own set-up
#       is ignored: it goes to the client that "who" names; the caller passes the SAME outstanding dict object every time);
#   {"kind": "newclient"}   from here on the receiving client is one built NOW (same configuration).
ST = "urn:oasis:names:tc:SAML:2.0:status:"
PARTIAL_LOGOUT, RESPONDER = ST + "PartialLogout", ST + "Responder"
NEWCLIENT = {"kind": "newclient"}
EVENT_KINDS = {"authn": "MAuthn", "logout": "MLogout", "manage": "MManageNameId", "mapping": "MNameIdMapping",
               "attrq": "MAttribute", "authnq": "MAuthnQuery", "authz": "MAuthz", "aid": "MAssertionId", "artifact": "MArtifact"}
EVENT_TAGS = {"logout": "LogoutResponse", "manage": "ManageNameIDResponse", "mapping": "NameIDMappingResponse"}
EVENT_PARSERS = {
    "logout": lambda sp, m, b: sp.parse_logout_request_response(m, b),
    "manage": lambda sp, m, b: sp.parse_manage_name_id_request_response(m, b),
    "mapping": lambda sp, m, b: sp.parse_name_id_mapping_request_response(m, b),
    "attrq": lambda sp, m, b: sp.parse_attribute_query_response(m, b),
    "authnq": lambda sp, m, b: sp.parse_authn_query_response(m, b),
    "authz": lambda sp, m, b: sp.parse_authz_decision_query_response(m, b),
    "aid": lambda sp, m, b: sp.parse_assertion_id_request_response(m, b),
    "artifact": lambda sp, m, b: sp.parse_artifact_resolve_response(m),
}
SLO = {"post": world.SP_SLO_POST, "redirect": world.SP_SLO_REDIRECT, "soap": world.SP_SLO_SOAP}
EVENT_ENC = {"post": "b64", "redirect": "deflate", "soap": "soap", "artifact": "b64", "paos": "soap"}


def ev(kind, via="soap", who="same", top=SUCCESS, second=None, irt="lreq-1", garbage=False):
    return {"kind": kind, "via": via, "who": who, "top": top, "second": second, "irt": irt, "garbage": bool(garbage)}


def ev_authn(who="same", **kw):
    return {"kind": "authn", "who": who, "case": mk(**kw)}


def status_message(tag, top, second, irt, dest, body=""):
    """A StatusResponseType message other than Response (LogoutResponse, ManageNameIDResponse, NameIDMappingResponse),
    signed by the IdP (local: render.py knows Response only)."""
    ident = "m-1"
    xml = '<samlp:%s %s ID="%s"%s Version="2.0" IssueInstant="%s"%s><saml:Issuer>%s</saml:Issuer>%s%s%s</samlp:%s>' % (
        tag, render.NS_DECL, ident, render.attr("InResponseTo", irt), env.iso(spaccept.NOW), render.attr("Destination", dest),
        world.IDP_ID, render.signature_template(ident), render.status(top, second), body, tag)
    return render.sign_xml(xml, "idp", "urn:oasis:names:tc:SAML:2.0:protocol:" + tag, ident)


_event_msgs = {}


def event_message(e):
    """(encoded message, binding URI) of an event; rendered once per process (the renderer is harness code)."""
    key = json.dumps(e, sort_keys=True)
    hit = _event_msgs.get(key)
    if hit is not None:
        return hit
    if e["kind"] == "authn":
        c = e["case"]
        xml = render_case(c)
        res = (ENCODERS[c["enc"]](xml), BINDINGS[c["via"]])
    else:
        if e.get("garbage"):
            xml = "<samlp:%s this is no XML" % EVENT_TAGS.get(e["kind"], "Response")
        elif e["kind"] in EVENT_TAGS:
            xml = status_message(EVENT_TAGS[e["kind"]], e["top"], e["second"], e["irt"],
                                 SLO.get(e["via"]) if e["kind"] == "logout" else None,
                                 render.name_id("mapped-1") if e["kind"] == "mapping" else "")
        else:   # the kinds whose message is a Response element (with an assertion that has no AuthnStatement)
            xml = render_case(mk(top=e["top"], second=e["second"], irt=e["irt"], n_authn=0,
                                 scs=(("data", e["irt"]),), delivery=("soap", "soap", "absent")))
        res = (ENCODERS[EVENT_ENC[e["via"]]](xml), BINDINGS[e["via"]])
    _event_msgs[key] = res
    return res


def histories():
    """(name, events): the histories the group "history" runs in front of every final delivery."""
    lo = lambda **k: ev("logout", **k)
    soap = ("soap", "soap", "post")
    return [
        ("logout-post", [lo(via="post")]),
        ("logout-redirect", [lo(via="redirect")]),
        ("logout-soap", [lo(via="soap")]),
        ("logout-partial", [lo(via="post", top=RESPONDER, second=PARTIAL_LOGOUT)]),       # raises StatusPartialLogout there
        ("logout-success-partial", [lo(via="redirect", second=PARTIAL_LOGOUT)]),
        ("logout-garbage", [lo(via="post", garbage=True)]),                               # the object is made, nothing parsed
        ("logout-other-client", [lo(via="redirect", who="other")]),
        ("logout-then-new-client", [lo(via="post"), NEWCLIENT]),
        ("manage", [ev("manage")]),
        ("mapping", [ev("mapping")]),
        ("attrq", [ev("attrq")]),
        ("attrq-failed", [ev("attrq", top=RESPONDER, second=PARTIAL_LOGOUT)]),
        ("authnq", [ev("authnq")]),
        ("authz-aid-artifact", [ev("authz"), ev("aid"), ev("artifact"), ev("attrq", via="post")]),
        ("authn-accepted", [ev_authn()]),
        ("authn-failed", [ev_authn(top=RESPONDER, second=PARTIAL_LOGOUT)]),
        ("authn-unsolicited", [ev_authn(irt=None, scs=(("data", None),))]),
        ("authn-allowed-elsewhere", [ev_authn(who="other", irt=None, scs=(("data", None),))]),
        ("authn-version", [ev_authn(version="2.1"), ev_authn(delivery=soap)]),
        ("authn-sealed", [ev_authn(sealed=(True,), scs=(("data", "req-2"),)), ev_authn(sealed=(True,))]),
        ("new-client", [NEWCLIENT]),
        ("mixed", [ev_authn(), lo(via="redirect"), ev("attrq"), ev_authn(top=RESPONDER, second=ST + "AuthnFailed"),
                   lo(via="soap", top=RESPONDER, second=PARTIAL_LOGOUT), NEWCLIENT, ev("manage"), ev_authn(irt="unknown-9")]),
    ]


def history_cases(ctx):
    """Group "history": every history x every second-level status code (top-level code and browser binding in
    rotation; the thorough tier: x 4 top-level codes x {POST, Redirect, SOAP}) and x the finals that exercise the other
    clauses (accepted over both bindings, unsolicited, unknown id, stray confirmation in clear / encrypted, success with a
    second-level code, version, no assertion, unsolicited allowed, back channel)."""
    cases = []
    post, redirect = FULL_DELIVERIES
    soap = ("soap", "soap", "post")
    tops = [RESPONDER, ST + "Requester", ST + "VersionMismatch"]
    codes = status_codes()
    for i, (name, h) in enumerate(histories()):
        tag = "history:" + name
        if ctx.thorough:
            for dl in (post, redirect, soap):
                for top in tops + [SUCCESS]:
                    for second in codes:
                        cases.append(mk(top=top, second=second, hist=h, tag=tag, delivery=dl))
        else:
            for j, second in enumerate(codes):
                cases.append(mk(top=tops[(i + j) % 3], second=second, hist=h, tag=tag, delivery=FULL_DELIVERIES[(i + j // 3) % 2]))
        for kw in (dict(), dict(delivery=redirect), dict(irt=None, scs=(("data", None),)), dict(irt="unknown-9", scs=(("data", "unknown-9"),)),
                   dict(scs=(("data", "req-2"),), out="many"), dict(scs=(("data", "req-2"),), out="many", sealed=(True,)),
                   dict(second=PARTIAL_LOGOUT), dict(version="2.1"), dict(n_assert=0),
                   dict(irt=None, scs=(("data", None),), allow=True), dict(delivery=soap, out="none")):
            cases.append(mk(hist=h, tag=tag, **kw))
    return cases


def encrypt_assertions(xml, which):
    """Local variant of render.encrypt_assertion_in_response: wrap the top-level assertions at positions `which`
    (counted over Assertion and EncryptedAssertion children of the Response, document order) in
    saml:EncryptedAssertion and encrypt each for the SP's certificate; every EncryptedData gets its own Id."""
    import xml.etree.ElementTree as ET

    m = env.standin()
    A = "{urn:oasis:names:tc:SAML:2.0:assertion}"
    for k in sorted(which):
        root = m._parse(xml.encode("utf-8") if isinstance(xml, str) else xml)
        kids = [ch for ch in list(root) if ch.tag in (A + "Assertion", A + "EncryptedAssertion")]
        a = kids[k]
        if a.tag != A + "Assertion":
            raise RuntimeError("assertion %d is already encrypted" % k)
        idx = list(root).index(a)
        root.remove(a)
        wrap = ET.Element(A + "EncryptedAssertion")
        wrap.append(a)
        wrap.tail = a.tail
        a.tail = None
        root.insert(idx, wrap)
        with tempfile.NamedTemporaryFile(suffix=".xml", delete=False) as f:
            f.write(ET.tostring(root, encoding="utf-8"))
            path = f.name
        tmpl = render.ENC_TEMPLATE.replace("ED_verif", "ED_verif_%d" % k).replace("EK_verif", "EK_verif_%d" % k)
        try:
            out, _, _ = m.do_encrypt({"xml_data": path, "node_xpath": render.ASSERT_XPATH,
                                      "pubkey_cert": fixtures.cert_path("sp")}, tmpl.encode())
        finally:
            os.unlink(path)
        xml = out.decode("utf-8")
    return xml


def build(resp, assertions, sealed, sign_a):
    """Like spaccept.build (Response signed by the IdP), with the encryption step between the two signing steps."""
    axml = []
    for a in assertions:
        a = dict(a)
        if sign_a:
            a["sig_template"] = render.signature_template(a["id"])
        axml.append(render.assertion(a))
    r = dict(resp)
    r["assertions_xml"] = axml
    r["sig_template"] = render.signature_template(r["id"])
    xml = render.response(r)
    if sign_a:
        for a in assertions:
            xml = render.sign_xml(xml, "idp", render.A_ELEM, a["id"])
    which = [k for k, b in enumerate(sealed) if b]
    if which:
        xml = encrypt_assertions(xml, which)
    return render.sign_xml(xml, "idp", render.R_ELEM, r["id"])


def case_scs(case, k):
    return case["scs"] if k == 0 or case.get("scs2") is None else case["scs2"]


def confirmation_xml(sc, data):
    """Local variant of render.subject_confirmation: the Method the confirmation names and, inside its
    SubjectConfirmationData, what that method puts there (ds:KeyInfo for holder-of-key)."""
    from xml.sax.saxutils import quoteattr

    uri, inner, _ = METHODS[sc_method(sc)]
    d = ""
    if data is not None:
        d = "<saml:SubjectConfirmationData%s%s%s>%s</saml:SubjectConfirmationData>" % (
            render.attr("InResponseTo", data.get("in_response_to")), render.attr("NotOnOrAfter", data.get("not_on_or_after")),
            render.attr("Recipient", data.get("recipient")), inner)
    return "<saml:SubjectConfirmation Method=%s>%s</saml:SubjectConfirmation>" % (quoteattr(uri), d)


def render_case(case):
    assertions = []
    recipient = world.SP_ACS_REDIRECT if case["via"] == "redirect" else world.SP_ACS_POST
    for k in range(case["n_assert"]):
        a = spaccept.good_assertion(id="a-%d" % k)
        a["authn_statements"] = [{"authn_instant": env.iso(spaccept.NOW), "session_index": "s-%d" % j}
                                 for j in range(case["n_authn"])]
        if not case["subject"]:
            a["subject"] = None
        else:
            confs = []
            for sc in case_scs(case, k):
                if sc[0] == "nodata":
                    confs.append({"method": render.SCM_BEARER, "data": None})
                else:
                    d = {"recipient": recipient, "not_on_or_after": env.iso(spaccept.NOW + 300)}
                    if sc[1] is not None:
                        d["in_response_to"] = sc[1]
                    confs.append({"method": render.SCM_BEARER, "data": d})
            if all(len(sc) <= 2 for sc in case_scs(case, k)):
                a["subject"]["confirmations"] = confs
            else:
                # render.subject_confirmation writes an empty SubjectConfirmationData element: confirmations that
                # name a method are written here and handed over behind the NameID
                a["subject"]["confirmations"] = []
                a["subject"]["name_id_xml"] = render.name_id(a["subject"].get("name_id", "subject-1")) + "".join(
                    confirmation_xml(sc, c.get("data")) for sc, c in zip(case_scs(case, k), confs))
        assertions.append(a)
    r = spaccept.good_response(version=case["version"], status=(case["top"], case["second"], None))
    if case["irt"] is None:
        del r["in_response_to"]
    else:
        r["in_response_to"] = case["irt"]
    if DESTS[case["dest"]] is None:
        del r["destination"]
    else:
        r["destination"] = DESTS[case["dest"]]
    sealed = case.get("sealed") or []
    if not any(sealed) and not case.get("sign_a"):
        return spaccept.build(r, assertions, sign_response="idp")
    return build(r, assertions, sealed, case.get("sign_a"))


_clients = {}
_refused = {}
_conf_dir = []


def case_opt(case):
    """(opt, how) of a case; cases recorded before the set-up dimension existed carry "allow" only."""
    if "opt" in case:
        return list(case["opt"]), case.get("how", "spconfig")
    return (B(True) if case.get("allow") else ABSENT), "spconfig"


def opt_over(opt):
    """The entry of the service/sp section that writes the option the way [opt] says (none when absent)."""
    if opt[0] == "absent":
        return {}
    return {"sp_allow_unsolicited": None if opt[0] == "none" else opt[1]}


def build_client(opt, how):
    """A NEW Saml2Client whose configuration writes allow_unsolicited as [opt] says, the configuration object being made
    the way [how] says."""
    env.install_standin()
    spaccept.CLOCK.install()
    from saml2 import config as cfg
    from saml2.client import Saml2Client

    if how == "spconfig":
        return world.make_sp(**copy.deepcopy(opt_over(opt)))
    d = world.sp_config(**opt_over(opt))
    if how == "config":
        return Saml2Client(config=cfg.Config().load(d))
    if how == "idpconfig":
        return Saml2Client(config=cfg.IdPConfig().load(d))
    if how == "factory-dict":
        return Saml2Client(config=cfg.config_factory("sp", d))
    if how == "client-file":
        if not _conf_dir:
            _conf_dir.append(tempfile.mkdtemp(prefix="verif-c06-conf-%d-" % os.getpid()))
            atexit.register(shutil.rmtree, _conf_dir[0], True)
        name = "verif_c06_conf_%s" % hashlib.sha1(repr(opt).encode()).hexdigest()[:12]
        path = os.path.join(_conf_dir[0], name + ".py")
        with open(path, "w") as f:
            f.write("CONFIG = %r\n" % (d,))
        try:
            return Saml2Client(config_file=path)
        finally:
            sys.modules.pop(name, None)
            while _conf_dir[0] in sys.path:
                sys.path.remove(_conf_dir[0])
    raise ValueError(how)


def get_client(opt, how):
    """Local variant of spaccept.get_sp: a Saml2Client whose configuration writes allow_unsolicited as [opt] says, the
    configuration object being made the way [how] says; one long-lived client per set-up and process, identity cache
    cleared on every use."""
    if how == "spconfig":
        return spaccept.get_sp(opt_over(opt))
    env.install_standin()
    spaccept.CLOCK.install()
    key = (how, repr(opt))
    sp = _clients.get(key)
    if sp is None:
        sp = _clients[key] = build_client(opt, how)
    from saml2.population import Population

    sp.users = Population()
    return sp


# ---- sequences: the history is played, then the Response delivered, in a forked child of the observing process, so
# that nothing the history leaves behind in classes / modules / clients reaches the cases WITHOUT that history: a replay
# reproduces.  The child is kept for the deliveries of the same history and set-up that follow (a fork per delivery costs
# more than the delivery on a loaded machine), as the long-lived clients of the process are kept for the plain cases.
def observe_final(sp, encoded, binding, outstanding):
    """Local variant of spaccept.observe for a client whose identity cache the history may have filled: "cached" = THIS
    delivery wrote to the cache (a call of Population.add_information_about_person, or a subject that was not there)."""
    users = sp.users

    def subjects():
        try:
            return {str(x) for x in sp.users.subjects()}
        except Exception:  # noqa
            return set()

    before, writes = subjects(), []
    orig = users.add_information_about_person
    users.add_information_about_person = lambda info: (writes.append(1), orig(info))[1]
    obs = {"identity": False, "exc": None, "exc_mro": None, "came_from": None}
    r = None
    try:
        r = sp.parse_authn_request_response(encoded, binding, outstanding)
    except Exception as e:  # noqa
        obs["exc"] = type(e).__name__
        obs["exc_mro"] = [c.__name__ for c in type(e).__mro__ if c.__name__ not in ("object", "BaseException")]
    finally:
        del users.add_information_about_person
    if r is not None:
        nid = getattr(r, "name_id", None)
        obs["came_from"] = getattr(r, "came_from", None)
        try:
            si = r.session_info()
        except Exception:  # noqa
            si = None
        obs["identity"] = bool((nid is not None and getattr(nid, "text", None) is not None) or getattr(r, "ava", None)
                               or getattr(r, "assertion", None) is not None or si is not None)
    if writes or sp.users is not users or subjects() - before:
        obs["identity"] = True
    return obs


def play_history(hist, sp, other, msgs, opt, how):
    """Runs in the child: the events of the history in order.  Returns (receiving client, the outstanding dicts the
    caller handed over on the way, what became of each event)."""
    dicts = {}

    def outstanding(name):
        if OUTS[name] is None:
            return None
        if name not in dicts:
            dicts[name] = dict(OUTS[name])    # the caller's long-lived dict: the same object for the whole sequence
        return dicts[name]

    steps = []
    for e, m in zip(hist, msgs):
        if e["kind"] == "newclient":
            sp = build_client(opt, how)
            steps.append("new")
            continue
        who = sp if e.get("who", "same") == "same" else other
        try:
            if e["kind"] == "authn":
                r = who.parse_authn_request_response(m[0], m[1], outstanding(e["case"]["out"]))
            else:
                r = EVENT_PARSERS[e["kind"]](who, m[0], m[1])
            steps.append("handled" if r else "nothing")
        except Exception as ex:  # noqa
            steps.append(type(ex).__name__)
    return sp, dicts, steps


def serve(rfd, wfd, hist, sp, other, msgs, opt, how):
    """The child: plays the history once, then answers deliveries (one JSON line each) until the pipe is closed."""
    code = 1
    try:
        sp, dicts, steps = play_history(hist, sp, other, msgs, opt, how)
        with os.fdopen(rfd, "r") as rf, os.fdopen(wfd, "w") as wf:
            for line in rf:
                req = json.loads(line)
                try:
                    out = OUTS[req["out"]]
                    if out is not None:
                        out = dicts[req["out"]] if req["out"] in dicts else dict(out)
                    o = observe_final(sp, req["encoded"], req["binding"], out)
                except BaseException as ex:  # noqa
                    o = {"identity": False, "came_from": None, "exc": "harness:" + type(ex).__name__, "exc_mro": [],
                         "detail": repr(ex)[:200]}
                o["steps"] = steps
                wf.write(json.dumps(o) + "\n")
                wf.flush()
        code = 0
    except BaseException:  # noqa
        pass
    finally:
        os._exit(code)


_sessions = collections.OrderedDict()     # (history, set-up) -> [pid, write end, read end]; per observing process
MAX_SESSIONS = 3


def close_session(key):
    pid, w, r = _sessions.pop(key)
    for f in (w, r):
        try:
            f.close()
        except Exception:  # noqa
            pass
    try:
        os.waitpid(pid, 0)
    except Exception:  # noqa
        pass


def observe_after(case, sp, opt, how):
    """The verdict on [case] after its history: asked of a forked child of this process that has played the history
    (one child per history and set-up, kept for the deliveries that follow it, as the long-lived clients are)."""
    hist = case["hist"]
    key = json.dumps([hist, opt, how], sort_keys=True)
    encoded = ENCODERS[case["enc"]](render_case(case))
    for attempt in (0, 1):
        sess = _sessions.get(key)
        if sess is None:
            # what the harness itself has to make (messages, clients) is made here, in the parent, and kept
            msgs = [None if e["kind"] == "newclient" else event_message(e) for e in hist]
            other = None
            if any(e.get("who") == "other" for e in hist):
                other = get_client(ABSENT if opt == B(True) else B(True), "spconfig")
            while len(_sessions) >= MAX_SESSIONS:
                close_session(next(iter(_sessions)))
            req_r, req_w = os.pipe()
            res_r, res_w = os.pipe()
            sys.stdout.flush()
            sys.stderr.flush()
            pid = os.fork()
            if pid == 0:
                try:
                    os.close(req_w)
                    os.close(res_r)
                    for _pid, w, r in _sessions.values():      # the ends of the other sessions' pipes
                        for f in (w, r):
                            try:
                                os.close(f.fileno())
                            except Exception:  # noqa
                                pass
                except BaseException:  # noqa
                    os._exit(1)
                serve(req_r, res_w, hist, sp, other, msgs, opt, how)
            os.close(req_r)
            os.close(res_w)
            sess = _sessions[key] = [pid, os.fdopen(req_w, "w"), os.fdopen(res_r, "r")]
        _sessions.move_to_end(key)
        line = ""
        try:
            sess[1].write(json.dumps({"encoded": encoded, "binding": BINDINGS[case["via"]], "out": case["out"]}) + "\n")
            sess[1].flush()
            line = sess[2].readline()
        except Exception:  # noqa
            line = ""
        if line:
            return json.loads(line)
        close_session(key)      # the child is gone: once more with a new one, then give up
    return {"identity": False, "came_from": None, "exc": "harness:child-died", "exc_mro": [], "steps": []}


def observe(case):
    opt, how = case_opt(case)
    key = (how, repr(opt))
    if key not in _refused:
        try:
            sp = get_client(opt, how)
        except Exception as e:  # noqa  - a set-up the library refuses (SAMLError since 6bdc97cd): no receiver
            _refused[key] = "setup:" + type(e).__name__
    if key in _refused:    # no receiver, hence no identity whatever is delivered
        return {"identity": False, "came_from": None, "exc": _refused[key], "status_err": None}
    if case.get("hist"):
        o = observe_after(case, sp, opt, how)
    else:
        xml = render_case(case)
        out = OUTS[case["out"]]
        o = spaccept.observe(sp, xml, BINDINGS[case["via"]], None if out is None else dict(out),
                             encoded=ENCODERS[case["enc"]](xml))
    status_err = None
    if o["exc"] and "StatusError" in (o.get("exc_mro") or []):
        status_err = o["exc"]
    res = {"identity": o["identity"], "came_from": o["came_from"], "exc": o["exc"], "status_err": status_err}
    if case.get("hist"):
        res["steps"] = o.get("steps")      # what became of each event of the history (not part of the Coq case)
    return res


def coq_setup(case):
    opt, how = case_opt(case)
    o = {"absent": lambda: "OAbsent", "none": lambda: "ONone", "bool": lambda: "(OBool %s)" % cq(bool(opt[1])),
         "str": lambda: "(OStr %s)" % cq(opt[1]), "int": lambda: "(OInt %d%%nat)" % opt[1]}[opt[0]]()
    return "{| opt := %s; how := %s |}" % (o, COQ_LOADER[how])


def coq_history(hist):
    out = []
    for e in hist:
        if e["kind"] == "newclient":
            out.append("C06.History.NewClient")
            continue
        if e["kind"] == "authn":
            c = e["case"]
            via, irt, st = c["via"], c["irt"], (c["top"], c["second"])
        else:
            via, irt, st = e["via"], e["irt"], None if e.get("garbage") else (e["top"], e["second"])
        out.append("C06.History.Msg C06.History.%s %s %s %s %s" % (
            EVENT_KINDS[e["kind"]], COQ_BINDING[via], cq(e.get("who", "same") == "same"), cq_opt(irt),
            "None" if st is None else "(Some (%s, %s))" % (cq(st[0]), cq_opt(st[1]))))
    return "[" + "; ".join(out) + "]"


def coq_case(case, obs):
    if obs["identity"]:
        v = "(Identity %s)" % cq_opt(obs["came_from"])
    elif obs["status_err"]:
        v = "(StatusErr %s)" % cq(obs["status_err"])
    else:
        v = "NoId"
    def one(k):
        scs = [Raw("NoData") if sc[0] == "nodata" else Raw("(Data %s)" % cq_opt(sc[1])) for sc in case_scs(case, k)]
        return "{| n_authn := %d%%nat; subject := %s |}" % (
            case["n_authn"], ("(Some %s)" % cq(scs)) if case["subject"] else "None")

    sealed = (list(case.get("sealed") or []) + [False] * case["n_assert"])[:case["n_assert"]]
    maj, mi = case["version"].split(".")
    mss = [[METHODS[sc_method(sc)][2] for sc in case_scs(case, k)] if case["subject"] else [] for k in range(case["n_assert"])]
    if all(m == "Bearer" for ms in mss for m in ms):
        mss = []          # bearer throughout: the delivery of the older layers
    return "C06.Corr.mk %s %s %s %s %s %s %s %s (%d%%nat, %d%%nat) %s %s %s %s" % (
        coq_history(case.get("hist") or []), COQ_BINDING[case["via"]], COQ_DEST[case["dest"]], cq([bool(b) for b in sealed]),
        "[" + "; ".join("[" + "; ".join(ms) + "]" for ms in mss) + "]", coq_setup(case), cq([(k, v2) for k, v2 in (OUTS[case["out"]] or [])]), cq_opt(case["irt"]), int(maj), int(mi),
        cq(case["top"]), cq_opt(case["second"]), "[" + "; ".join(one(k) for k in range(case["n_assert"])) + "]", v)


BASELINE = mk()


def nontrivial(case, obs):
    k = {x: case[x] for x in case if x != "tag"}
    b = {x: BASELINE[x] for x in BASELINE if x != "tag"}
    return None if k == b else k


def histogram(cases, observed):
    h = {"by_tag": {}, "by_delivery": {}, "identity": 0, "status_error": 0, "other_reject": 0, "exceptions": {}}
    for c, o in zip(cases, observed):
        h["by_tag"][c["tag"]] = h["by_tag"].get(c["tag"], 0) + 1
        dk = "%s/%s/dest=%s" % (c["via"], c["enc"], c["dest"])
        h["by_delivery"][dk] = h["by_delivery"].get(dk, 0) + 1
        opt, how = case_opt(c)
        ok = "%s/%s" % (":".join(repr(x) if isinstance(x, str) and opt[0] == "str" else str(x) for x in opt), how)
        h.setdefault("by_setup", {})
        h["by_setup"][ok] = h["by_setup"].get(ok, 0) + 1
        if c.get("hist"):
            hk = "+".join(e["kind"] + ("" if e.get("who", "same") == "same" else "@other") for e in c["hist"])
            h.setdefault("by_history", {})
            h["by_history"][hk] = h["by_history"].get(hk, 0) + 1
            for e, st in zip(c["hist"], o.get("steps") or []):
                sk = "%s: %s" % (e["kind"], st)
                h.setdefault("history_steps", {})
                h["history_steps"][sk] = h["history_steps"].get(sk, 0) + 1
        if o["identity"]:
            h["identity"] += 1
        elif o["status_err"]:
            h["status_error"] += 1
        else:
            h["other_reject"] += 1
        if o["exc"]:
            h["exceptions"][o["exc"]] = h["exceptions"].get(o["exc"], 0) + 1
    return h


def explain_term(t):
    return "C06.Corr.explain (%s)" % t
