"""C06 — responses are accepted only as successful answers to outstanding requests."""
import itertools
import os

from harness import common, env, render, spaccept, world
from harness.common import Raw, cq, cq_opt

PID = "C06"
PARALLEL = 12
IMPORTS = "From Verif Require Import C06.Model C06.Spec C06.Corr."
CASE_TYPE = "C06.Corr.case"
RUNNER = "C06.Corr.run"
FINDING_CLASSES = {}
RULE = ("complete products per group with the other groups at their baseline: correlation = Response InResponseTo(4) x "
        "SubjectConfirmation shapes (0-2 confirmations, each {no data, data without InResponseTo, outstanding id, other "
        "outstanding id, unknown id}) x allow_unsolicited(2) x outstanding set {empty, one, many}, completely for BOTH "
        "browser bindings (HTTP-POST base64 to the POST endpoint, HTTP-Redirect deflate+base64 to the Redirect endpoint); a "
        "reduced correlation product (InResponseTo(4) x 8 confirmation shapes x allow(2) x outstanding{None, many}) "
        "for every other delivery: POST deflated, each browser binding x Destination {absent, the other binding's endpoint, "
        "a foreign URL}, HTTP-Artifact x Destination(2), SOAP, PAOS (outstanding=None: the caller passes no dict); status = all table "
        "codes + unknown + absent second level x 3 top-level codes x {POST, Redirect, SOAP}; versions "
        "{2.0,1.1,2.1,3.0,1.0,0.9,10.0} x all 5 bindings; shape = assertions{0,1,2} x AuthnStatements{0,1,2} x "
        "subject{absent,present} x {POST, Redirect, Artifact, SOAP}; plus seeded random mixtures across groups and deliveries. "
        "non-trivial = distinct abstract input differing from the all-valid baseline")
TRUSTED = ["source-to-Gallina translator harness/py2coq.py + coq/theories/Base/Py.v (check_subject_confirmation_in_response_to is "
           "re-translated from the source text on every run; c06_source_check_sc_irt proves it equal to the model)",
           "xmlsec1 stand-in", "renderer harness/render.py", "translator harness/c06.py:regenerate_tables (STATUSCODE2EXCEPTION)"]
ASSUMPTIONS = ["signature, times, audience, recipient valid in every case; the message is encoded the way the named binding "
               "prescribes (POST also deflated, which Entity.unravel accepts)",
               "the SP registers one HTTP-POST and one HTTP-Redirect assertion consumer endpoint and none for other bindings",
               "request ids and contexts are non-empty ASCII strings; InResponseTo values are NCNames (anything else, the empty string "
               "included, is refused by the schema validation in front of the signature check: SignatureError)"]

OUT_MANY = [("req-1", "/ctx1"), ("req-2", "/ctx2"), ("req-3", "/ctx3")]
OUTS = {"none": None, "empty": [], "one": [("req-1", "/ctx1")], "many": OUT_MANY}   # none: the caller passes outstanding=None

# deliveries: (binding the caller names, encoding of the message, Response/@Destination)
BINDINGS = {"post": world.BINDING_HTTP_POST, "redirect": world.BINDING_HTTP_REDIRECT, "artifact": world.BINDING_HTTP_ARTIFACT,
            "soap": world.BINDING_SOAP, "paos": world.BINDING_PAOS}
COQ_BINDING = {"post": "Post", "redirect": "Redirect", "artifact": "Artifact", "soap": "Soap", "paos": "Paos"}
DESTS = {"post": world.SP_ACS_POST, "redirect": world.SP_ACS_REDIRECT, "elsewhere": "https://other.example.org/acs/post",
         "absent": None}
COQ_DEST = {"post": "DPost", "redirect": "DRedirect", "elsewhere": "DElsewhere", "absent": "DAbsent"}
ENCODERS = {"b64": render.b64, "deflate": render.deflate_b64, "soap": render.soap_envelope}
FULL_DELIVERIES = [("post", "b64", "post"), ("redirect", "deflate", "redirect")]
OTHER_DELIVERIES = [("post", "deflate", "post"), ("post", "b64", "absent"), ("post", "b64", "redirect"), ("post", "b64", "elsewhere"),
                    ("redirect", "deflate", "absent"), ("redirect", "deflate", "post"), ("redirect", "deflate", "elsewhere"),
                    ("artifact", "b64", "absent"), ("artifact", "b64", "post"),
                    ("soap", "soap", "post"), ("paos", "soap", "post")]
RARE_DELIVERIES = [("artifact", "b64", "elsewhere"), ("artifact", "b64", "redirect"), ("soap", "soap", "absent"),
                   ("soap", "soap", "elsewhere"), ("paos", "soap", "absent")]   # only in the random mixtures
IRT = [None, "req-1", "req-2", "unknown-9"]
SCD = [("nodata",), ("data", None), ("data", "req-1"), ("data", "req-2"), ("data", "unknown-9")]
SUCCESS = render.STATUS_SUCCESS


def regenerate_tables(ctx):
    env.check_repo_import()
    from saml2 import response, samlp

    table = response.STATUSCODE2EXCEPTION
    if not isinstance(table, dict) or not table:
        raise RuntimeError("STATUSCODE2EXCEPTION: unexpected shape")
    rows = []
    for code, cls in table.items():
        if not isinstance(code, str) or not isinstance(cls, type) or not issubclass(cls, response.StatusError):
            raise RuntimeError("STATUSCODE2EXCEPTION entry of unexpected shape: %r" % (code,))
        rows.append("  (%s, %s)" % (cq(code), cq(cls.__name__)))
    txt = ("(* GENERATED by harness/c06.py from saml2.response.STATUSCODE2EXCEPTION and saml2.samlp — do not edit *)\n"
           "From Coq Require Import String List.\nImport ListNotations.\nOpen Scope string_scope.\n"
           "Definition STATUS_SUCCESS : string := %s.\n"
           "Definition statuscode2exception : list (string * string) := [\n%s\n].\n" % (
               cq(samlp.STATUS_SUCCESS), ";\n".join(rows)))
    changed = common.write_if_changed(os.path.join(common.GEN, "C06Tables.v"), txt)
    # translator: check_subject_confirmation_in_response_to as it reads NOW -> coq/gen/C06Src.v (C06/Source.v proves it
    # equal to the model)
    from harness import py2coq
    src = py2coq.regenerate(os.path.join(common.GEN, "C06Src.v"), [
        (os.path.join(env.SRC, "saml2", "response.py"), "AuthnResponse.check_subject_confirmation_in_response_to",
         {"name": "src_check_sc_irt", "params": ["self", "irp"]})])
    return {"file": "coq/gen/C06Tables.v", "entries": len(rows), "changed": changed or src["changed"],
            "obligations": 1 + src["obligations"], "discharged": 1 + src["discharged"], "source": src,
            "untranslatable": src["untranslatable"],
            "table_theorems": ["table_names_ok (C06/Proofs.v): every defined code maps to the class its name demands"]}


def mk(irt="req-1", scs=(("data", "req-1"),), allow=False, out="one", top=SUCCESS, second=None, version="2.0",
       n_assert=1, n_authn=1, subject=True, tag="", delivery=FULL_DELIVERIES[0]):
    return {"via": delivery[0], "enc": delivery[1], "dest": delivery[2], "irt": irt, "scs": [list(s) for s in scs], "allow": allow, "out": out, "top": top, "second": second,
            "version": version, "n_assert": n_assert, "n_authn": n_authn, "subject": subject, "tag": tag}


def status_codes():
    env.check_repo_import()
    from saml2 import response

    codes = list(response.STATUSCODE2EXCEPTION.keys())
    codes += ["urn:oasis:names:tc:SAML:2.0:status:Requester", "urn:oasis:names:tc:SAML:2.0:status:Bogus",
              "urn:example:unknown", None]
    return codes


def generate(ctx):
    rng = ctx.rng
    cases = []
    sc_shapes = [()] + [(a,) for a in SCD] + [(a, b) for a in SCD for b in SCD]
    for dl in FULL_DELIVERIES:
        for irt in IRT:
            for scs in sc_shapes:
                for allow in (False, True):
                    for out in ("empty", "one", "many"):
                        cases.append(mk(irt=irt, scs=scs, allow=allow, out=out, tag="corr", delivery=dl))
    few_shapes = [()] + [(a,) for a in SCD] + [(("data", "req-1"), ("data", "req-2")), (("nodata",), ("data", "unknown-9"))]
    for dl in OTHER_DELIVERIES:
        for irt in IRT:
            for scs in few_shapes:
                for allow in (False, True):
                    for out in ("none", "many"):
                        cases.append(mk(irt=irt, scs=scs, allow=allow, out=out, tag="delivery", delivery=dl))
    all_dl = FULL_DELIVERIES + OTHER_DELIVERIES + RARE_DELIVERIES
    one_per_binding = FULL_DELIVERIES + [("artifact", "b64", "absent"), ("soap", "soap", "post"), ("paos", "soap", "post")]
    tops = ["urn:oasis:names:tc:SAML:2.0:status:Responder", "urn:oasis:names:tc:SAML:2.0:status:Requester",
            "urn:oasis:names:tc:SAML:2.0:status:VersionMismatch"]
    for dl in FULL_DELIVERIES + [("soap", "soap", "post")]:
        for top in tops + [SUCCESS]:
            for second in status_codes():
                cases.append(mk(top=top, second=second, tag="status", delivery=dl))
                if top != SUCCESS and dl[0] == "post":
                    cases.append(mk(top=top, second=second, n_assert=0, tag="status", delivery=dl))
    for dl in one_per_binding:
        for v in ["2.0", "1.1", "2.1", "3.0", "1.0", "0.9", "10.0"]:
            for top in (SUCCESS, tops[0]):
                cases.append(mk(version=v, top=top, second=None if top == SUCCESS else status_codes()[1], tag="version",
                                delivery=dl))
    for dl in one_per_binding[:4]:
        for n_assert in (0, 1, 2):
            for n_authn in (0, 1, 2):
                for subject in (False, True):
                    for allow in (False, True):
                        cases.append(mk(n_assert=n_assert, n_authn=n_authn, subject=subject, allow=allow, tag="shape",
                                        delivery=dl))
    for _ in range(3000 if ctx.thorough else 500):
        cases.append(mk(irt=rng.choice(IRT), scs=rng.choice(sc_shapes), allow=rng.random() < 0.4,
                        out=rng.choice(list(OUTS)), top=rng.choice([SUCCESS, SUCCESS] + tops),
                        second=rng.choice(status_codes()), version=rng.choice(["2.0", "2.0", "2.0", "1.1", "2.1", "3.0"]),
                        n_assert=rng.choice([1, 1, 1, 0, 2]), n_authn=rng.choice([1, 1, 1, 0, 2]),
                        subject=rng.random() < 0.85, tag="random",
                        delivery=rng.choice(FULL_DELIVERIES * 4 + all_dl)))
    return cases


def render_case(case):
    assertions = []
    recipient = world.SP_ACS_REDIRECT if case["via"] == "redirect" else world.SP_ACS_POST
    for k in range(case["n_assert"]):
        a = spaccept.good_assertion(id="a-%d" % k)
        a["authn_statements"] = [{"authn_instant": env.iso(spaccept.NOW), "session_index": "s-%d" % j}
                                 for j in range(case["n_authn"])]
        if not case["subject"]:
            a["subject"] = None
        else:
            confs = []
            for sc in case["scs"]:
                if sc[0] == "nodata":
                    confs.append({"method": render.SCM_BEARER, "data": None})
                else:
                    d = {"recipient": recipient, "not_on_or_after": env.iso(spaccept.NOW + 300)}
                    if sc[1] is not None:
                        d["in_response_to"] = sc[1]
                    confs.append({"method": render.SCM_BEARER, "data": d})
            a["subject"]["confirmations"] = confs
        assertions.append(a)
    r = spaccept.good_response(version=case["version"], status=(case["top"], case["second"], None))
    if case["irt"] is None:
        del r["in_response_to"]
    else:
        r["in_response_to"] = case["irt"]
    if DESTS[case["dest"]] is None:
        del r["destination"]
    else:
        r["destination"] = DESTS[case["dest"]]
    return spaccept.build(r, assertions, sign_response="idp")


def observe(case):
    sp = spaccept.get_sp({"sp_allow_unsolicited": True} if case["allow"] else {})
    xml = render_case(case)
    out = OUTS[case["out"]]
    o = spaccept.observe(sp, xml, BINDINGS[case["via"]], None if out is None else dict(out),
                         encoded=ENCODERS[case["enc"]](xml))
    status_err = None
    if o["exc"] and "StatusError" in (o.get("exc_mro") or []):
        status_err = o["exc"]
    return {"identity": o["identity"], "came_from": o["came_from"], "exc": o["exc"], "status_err": status_err}


def coq_case(case, obs):
    if obs["identity"]:
        v = "(Identity %s)" % cq_opt(obs["came_from"])
    elif obs["status_err"]:
        v = "(StatusErr %s)" % cq(obs["status_err"])
    else:
        v = "NoId"
    scs = []
    for sc in case["scs"]:
        scs.append(Raw("NoData") if sc[0] == "nodata" else Raw("(Data %s)" % cq_opt(sc[1])))
    a = "{| n_authn := %d%%nat; subject := %s |}" % (case["n_authn"], ("(Some %s)" % cq(scs)) if case["subject"] else "None")
    maj, mi = case["version"].split(".")
    return "C06.Corr.mk %s %s %s %s %s (%d%%nat, %d%%nat) %s %s %s %s" % (
        COQ_BINDING[case["via"]], COQ_DEST[case["dest"]],
        cq(bool(case["allow"])), cq([(k, v2) for k, v2 in (OUTS[case["out"]] or [])]), cq_opt(case["irt"]), int(maj), int(mi),
        cq(case["top"]), cq_opt(case["second"]), "[" + "; ".join([a] * case["n_assert"]) + "]", v)


BASELINE = mk()


def nontrivial(case, obs):
    k = {x: case[x] for x in case if x != "tag"}
    b = {x: BASELINE[x] for x in BASELINE if x != "tag"}
    return None if k == b else k


def histogram(cases, observed):
    h = {"by_tag": {}, "by_delivery": {}, "identity": 0, "status_error": 0, "other_reject": 0, "exceptions": {}}
    for c, o in zip(cases, observed):
        h["by_tag"][c["tag"]] = h["by_tag"].get(c["tag"], 0) + 1
        dk = "%s/%s/dest=%s" % (c["via"], c["enc"], c["dest"])
        h["by_delivery"][dk] = h["by_delivery"].get(dk, 0) + 1
        if o["identity"]:
            h["identity"] += 1
        elif o["status_err"]:
            h["status_error"] += 1
        else:
            h["other_reject"] += 1
        if o["exc"]:
            h["exceptions"][o["exc"]] = h["exceptions"].get(o["exc"], 0) + 1
    return h


def explain_term(t):
    return "C06.Corr.explain (%s)" % t
