"""C11 — the metadata store answers exactly what authentic, current metadata says.

A case is a HISTORY: an initial time, a universe of entity ids, and a list of steps
(load / reload / tick / MDQ-server change).  After every step the complete query set
(service / single_sign_on_service / assertion_consumer_service / certs /
attribute_requirement / entity_categories / registration_info / __getitem__ per entity of
the universe, then keys() and with_descriptor() per kind) is put to the REAL MetadataStore.
Documents are rendered from abstract descriptions by string templates (no pysaml2 element
class), signed through the xmlsec1 stand-in, and served to the store as inline text, local
files, MetaDataExtern behind a stub http object, or MetaDataMDX behind a stub `requests`.
Optional keys of a source specification are written only when the case spells them; the store's own
check_validity and the time zone of the process are part of the case.
"""
import calendar
import hashlib
import io
import itertools
import os
import shutil
import sys
import tempfile
import time as _time
from xml.sax.saxutils import escape, quoteattr

from harness import env, fixtures, render, world
from harness.common import Raw, cq, cq_opt

PID = "C11"
PARALLEL = 6
IMPORTS = "From Verif Require Import C11.Model C11.Spec C11.Corr."
CASE_TYPE = "C11.Corr.case"
RUNNER = "C11.Corr.run"
FINDING_CLASSES = {1: "C11-F1", 2: "C11-F2", 3: "C11-F3", 4: "C11-F4", 5: "C11-F5", 6: "C11-F6", 7: "C11-F7",
                   8: "C11-F8", 9: "C11-F9"}
RULE = (
    "histories over random EntityDescriptor/EntitiesDescriptor documents (1-6 entities from a pool of 3 ids so that "
    "ids repeat, 1-3 role descriptors of the 5 role kinds, protocolSupportEnumeration in {2.0, 1.1, 1.1+2.0, x+2.0, "
    "1.0+1.1}, 0-4 endpoints per service over 3 bindings, KeyDescriptors use in {signing, encryption, absent}, "
    "validUntil in {absent, past, soon, far} on entities and groups, entity-category / registration extensions, "
    "RequestedAttributes) spread over 1-3 sources of kinds inline / local file / MetaDataExtern (stub http) / MDQ (stub "
    "requests); optional keys of a source specification are written only when the case spells them (check_validity "
    "{absent, True, False}, node_name, cert {absent, '', None, file}, freshness_period, positional MDQ url) and the "
    "store's own check_validity is {on, off}: complete product source kind x route (load / imp with a dictionary / "
    "list-style item) x check_validity spelling x store switch x {group with an expired, a current and an undated "
    "entity; single expired entity; group past its validUntil after a good source}, each followed by a reload of the "
    "same specification; complete product source kind x configuration style x signature state {unsigned, valid, tampered(2 ways), "
    "wrong key} x cert configured x node_name x document shape; reload histories in which the k-th of n<=3 elements "
    "fails for every k and every failure kind {missing, malformed, wrong root, http error (status 500 WITH a usable body), "
    "bad signature, wrong key, expired group, unsigned, unusable specification}; MDQ histories with ticks across the freshness period and refresh "
    "failures; cold-MDQ histories (MDQ only / before / after a static source with the same ids); the witness histories "
    "of C11/Facts.v; the PROCESS TIME ZONE: a fifth of all histories runs in a POSIX zone other than UTC (fixed offsets "
    "+14 ... -12, +5:45; daylight-saving zones of both hemispheres and a half-hour one), and the family 'zone' puts "
    "now + freshness_period just before / at the start of / inside / at the end of / after the stretch of UTC readings "
    "that the local calendar skips, for periods {10 min, 1 h, 12 h}, with validUntil one second before / at / after now.  "
    "protocolSupportEnumeration AS WRITTEN: a fifth of the role descriptors of the random families and the family 'pse' "
    "(103 histories) give the attribute VALUE - 1-4 names out of {SAML 2.0, SAML 1.0 / 1.1, Shibboleth 1.0, another URI, "
    "18 near misses of the SAML 2.0 name: the name as prefix / suffix / inside a longer URI, in other letter cases, "
    "truncated, doubled, glued to another name by ',' / ';'}, repeats allowed, separated by one / several blanks or by a "
    "tab / line feed / carriage return (character reference), blanks and line breaks in front / behind, every blank "
    "written as blank / literal tab / line break / CRLF - per role, in entities with 1-3 roles (a near-miss role next to "
    "a SAML 2.0 role of the same or another kind; nothing but a near-miss role), through inline / file / remote / MDQ "
    "sources; Coq splits the value (Tokens.rp: the pieces; Tokens.canon_hist: the items, str.split() as of 9be4974e) and the reference reads its ITEMS; values are ASCII (str.split() also splits at non-ASCII spaces, which an xs:list does not: outside the model).  "
    "After EVERY step the whole query set (27 lookups per entity of the universe + keys() + "
    "with_descriptor() for 6 kinds) is put in the case's ORDER — as listed (__getitem__ first), 'service first' "
    "(keys / with_descriptor, then per entity service lookups ... and __getitem__ last) or a seeded permutation, a third "
    "each — so that cold MDQ entities are met first by every kind of lookup; every answer is compared.  non-trivial = distinct (tag, kinds of "
    "sources, outcome flags, multiset of answer shapes)")
TRUSTED = ["xmlsec1 stand-in (harness/standin/xmlsec1.py)",
           "libc's calendar for the case's zone (time.mktime / time.localtime under TZ): the table of daylight-saving gaps in "
           "the case (used by Corr.cls / Model.zone_v0 only) is measured through it by harness.c11.zone_gaps, and re-measured in observe()", "metadata renderer and answer abstraction in harness/c11.py",
           "stub http / requests objects (status_code, content)",
           "translator v2 (harness/py2coq2.py + Base/Py2.v; value semantics, no aliasing) for the functions re-translated on "
           "every run into coq/gen/C11Src2.v and proved equal to the model in C11/Source2.v: "
           "InMemoryMetaData.do_entity_descriptor, MetaData.certs.extract_certs (nested function), "
           "MetaDataMDX._is_metadata_fresh, MetaDataMDX.__getitem__, MetadataStore.__getitem__, MetadataStore.reload, "
           "InMemoryMetaData.signed; their external calls (time_util.valid/before, mdie.to_dict, repack_cert, "
           "_fetch_metadata, imp, the entity filter) are hypotheses of the theorems, and the pyval encodings of "
           "C11/Source2.v (entity dict, role descriptor dict, source objects) are trusted to describe the Python values"]
ASSUMPTIONS = [
    "a document's validity (validUntil) is judged when it is loaded / fetched, as the code does; static sources are not "
    "re-examined when time passes",
    "schema-invalid EntitiesDescriptor documents (role without its mandatory endpoint, indexed endpoint without index, "
    "AttributeConsumingService without RequestedAttribute) say nothing",
    "MDQ answers: single EntityDescriptor documents, garbage, foreign root, error status, and EntitiesDescriptor "
    "documents (usable ones with the asked entity among others, expired ones, ones with an indexed endpoint lacking "
    "index); under a certificate an MDQ answer counts as verified only if it is an EntityDescriptor with a valid signature",
    "every KeyDescriptor carries exactly one X509Certificate and no KeyName; every role descriptor carries "
    "protocolSupportEnumeration with at least one name in it (an empty / blank value makes do_entity_descriptor raise "
    "KeyError - to_dict drops the key -, an EntitiesDescriptor with an empty one fails validation: a failed load either "
    "way, outside the model); its value holds no white space other than blank, tab, line feed and carriage return "
    "(str.strip() in mdie.to_dict would remove more); a list-style imp() item names one source",
    "MetaDataMD (json dump) and MetaDataLoader sources are outside the quantifier (MetaDataLoader cannot be "
    "constructed at all: SAMLError 'No file specified')",
    "an unusable source specification (a remote source named by a bare string, an unknown source type, an unknown loader "
    "class, a list-style item without 'class') is a source that yields no bytes: the load fails",
    "signature verification is the stand-in's; its result enters the model as data (signature state of the case)",
    "load('inline', text) and load('local', file) have no certificate parameter: a certificate counts as configured only "
    "where the API accepts one (list-style items, remote, mdq)",
    "the daylight-saving gaps of the case's zone are not an input of the model of the code now (7137d601: expiration dates "
    "are computed in UTC); the table in the case serves only to recognise a regression of that commit (Corr.cls = 8)",
    "the finding class of a failing history is that of its FIRST failing position (heuristic attribution, Spec.query_class); "
    "detection does not depend on it: any deviation from the model is reported"]

T0 = 1700000000
R, P, S = world.BINDING_HTTP_REDIRECT, world.BINDING_HTTP_POST, world.BINDING_SOAP
SAML2P = "urn:oasis:names:tc:SAML:2.0:protocol"
SAML11P = "urn:oasis:names:tc:SAML:1.1:protocol"
SAML10P = "urn:oasis:names:tc:SAML:1.0:protocol"
ENTITY_CATEGORY = "http://macedir.org/entity-category"
K_SP, K_IDP, K_ROLE, K_AUTHN, K_AA, K_PDP, K_AFFIL = (
    "spsso_descriptor", "idpsso_descriptor", "role_descriptor", "authn_authority_descriptor",
    "attribute_authority_descriptor", "pdp_descriptor", "affiliation_descriptor")
KINDS = [K_SP, K_IDP, K_ROLE, K_AUTHN, K_AA, K_PDP]          # order of mdstore's own lists
KIND_TAG = {K_SP: "SPSSODescriptor", K_IDP: "IDPSSODescriptor", K_AUTHN: "AuthnAuthorityDescriptor",
            K_AA: "AttributeAuthorityDescriptor", K_PDP: "PDPDescriptor"}
N_ARS, N_SLO, N_SSO, N_ACS, N_ATTR, N_AUTHZ, N_AUTHNQ = (
    "artifact_resolution_service", "single_logout_service", "single_sign_on_service", "assertion_consumer_service",
    "attribute_service", "authz_service", "authn_query_service")
SVC_ORDER = [N_ARS, N_SLO, N_SSO, N_ACS, N_ATTR, N_AUTHZ, N_AUTHNQ]
SVC_TAG = {N_ARS: "ArtifactResolutionService", N_SLO: "SingleLogoutService", N_SSO: "SingleSignOnService",
           N_ACS: "AssertionConsumerService", N_ATTR: "AttributeService", N_AUTHZ: "AuthzService",
           N_AUTHNQ: "AuthnQueryService"}
ALLOWED = {K_IDP: [N_ARS, N_SLO, N_SSO], K_SP: [N_ARS, N_SLO, N_ACS], K_AA: [N_ATTR], K_PDP: [N_AUTHZ],
           K_AUTHN: [N_AUTHNQ]}
MANDATORY = {K_IDP: N_SSO, K_SP: N_ACS, K_AA: N_ATTR, K_PDP: N_AUTHZ, K_AUTHN: N_AUTHNQ}
CERTS = ["idp", "idp2", "idpenc", "other", "sp"]
NX = "urn:nx"

NS_ALL = (world.MD_NS + ' xmlns:mdattr="urn:oasis:names:tc:SAML:metadata:attribute" '
          'xmlns:mdrpi="urn:oasis:names:tc:SAML:metadata:rpi" xmlns:saml="urn:oasis:names:tc:SAML:2.0:assertion"')
EN_NODE = "urn:oasis:names:tc:SAML:2.0:metadata:EntityDescriptor"
ENS_NODE = "urn:oasis:names:tc:SAML:2.0:metadata:EntitiesDescriptor"

# constants that have a name on the Coq side (keeps the case files small)
COQ_NAMES = {R: "bR", P: "bP", S: "bS", SAML2P: "NS_SAML2P", SAML11P: "p11", SAML10P: "p10", ENTITY_CATEGORY: "ENTITY_CATEGORY",
             K_SP: "K_SPSSO", K_IDP: "K_IDPSSO", K_ROLE: "K_ROLE", K_AUTHN: "K_AUTHN", K_AA: "K_AA", K_PDP: "K_PDP",
             K_AFFIL: "K_AFFIL", N_ARS: "N_ARS", N_SLO: "N_SLO", N_SSO: "N_SSO", N_ACS: "N_ACS", N_ATTR: "N_ATTR",
             N_AUTHZ: "N_AUTHZ", N_AUTHNQ: "N_AUTHNQ"}


import json as _json

with open(os.path.join(os.path.dirname(os.path.abspath(__file__)), "c11_names.json")) as _f:
    COQ_NAMES.update(_json.load(_f))          # the generators' alphabets, named in C11/Corr.v


# ------------------------------------------------------------------------------------ rendering
def r_svc(s):
    name, binding, loc, index = s
    return world.endpoint(SVC_TAG[name], binding, loc, index)


def r_role(r):
    svcs = "".join(r_svc(s) for s in r["svcs"])
    keys = "".join(world.key_descriptor(c, u) for u, c in r["keys"])
    acs = ""
    for index, attrs in r.get("acs", []):
        acs += '<md:AttributeConsumingService index=%s><md:ServiceName xml:lang="en">svc</md:ServiceName>%s' \
               "</md:AttributeConsumingService>" % (
                   quoteattr(index),
                   "".join("<md:RequestedAttribute Name=%s%s/>" % (quoteattr(n), render.attr("isRequired", q))
                           for n, q in attrs))
    return "<md:%s protocolSupportEnumeration=%s>%s%s%s</md:%s>" % (
        KIND_TAG[r["kind"]], r_pse(r), keys, svcs, acs, KIND_TAG[r["kind"]])


_PSE_ESC = {'"': "&quot;", "\t": "&#9;", "\n": "&#10;", "\r": "&#13;"}


def pse_value(r):
    """protocolSupportEnumeration as the XML parser reports it: r["pse"] when the role spells the attribute value
    out, else the items of r["protos"] with one blank between them."""
    return r["pse"] if r.get("pse") is not None else " ".join(r["protos"])


def r_pse(r):
    """The attribute as WRITTEN.  A tab / line feed / carriage return of the value needs a character reference;
    every blank of the value may be written as a blank or as a literal tab / line break (r["sep"], used in turn):
    attribute-value normalisation turns each of them into one blank ("\r\n" counts as one line break)."""
    seps = r.get("sep") or [" "]
    pieces = pse_value(r).split(" ")
    out = escape(pieces[0], _PSE_ESC)
    for i, piece in enumerate(pieces[1:]):
        out += seps[i % len(seps)] + escape(piece, _PSE_ESC)
    return '"' + out + '"'


def r_ext(e):
    out = ""
    for g in e.get("regs", []):
        out += "<mdrpi:RegistrationInfo registrationAuthority=%s%s>%s</mdrpi:RegistrationInfo>" % (
            quoteattr(g["auth"]), render.attr("registrationInstant", g["inst"]),
            "".join('<mdrpi:RegistrationPolicy xml:lang=%s>%s</mdrpi:RegistrationPolicy>' % (quoteattr(l), escape(t))
                    for l, t in g["pols"]))
    if e.get("attrs"):
        out += "<mdattr:EntityAttributes>%s</mdattr:EntityAttributes>" % "".join(
            '<saml:Attribute Name=%s NameFormat="urn:oasis:names:tc:SAML:2.0:attrname-format:uri">%s</saml:Attribute>' % (
                quoteattr(n), "".join("<saml:AttributeValue>%s</saml:AttributeValue>" % escape(v) for v in vals))
            for n, vals in e["attrs"])
    return "<md:Extensions>%s</md:Extensions>" % out if out else ""


def r_ent(e, root_id=None, sig=""):
    affil = ""
    if e.get("affil"):
        affil = ('<md:AffiliationDescriptor affiliationOwnerID="urn:owner"><md:AffiliateMember>urn:member'
                 "</md:AffiliateMember></md:AffiliationDescriptor>")
    return "<md:EntityDescriptor %s entityID=%s%s%s>%s%s%s%s</md:EntityDescriptor>" % (
        NS_ALL, quoteattr(e["id"]), render.attr("ID", root_id),
        render.attr("validUntil", env.iso(e["vu"]) if e.get("vu") is not None else None),
        sig, r_ext(e), "".join(r_role(r) for r in e["roles"]), affil)


def r_doc(d, root_id=None, sig=""):
    if not d["group"]:
        return r_ent(d["ents"][0], root_id, sig)
    return "<md:EntitiesDescriptor %s%s%s>%s%s</md:EntitiesDescriptor>" % (
        NS_ALL, render.attr("ID", root_id), render.attr("validUntil", env.iso(d["vu"]) if d.get("vu") is not None else None),
        sig, "".join(r_ent(e) for e in d["ents"]))


def body_of(fetch):
    """The bytes a source yields, or None when it is missing."""
    st = fetch["st"]
    if st in ("missing", "http"):
        return None
    if st == "garbage":
        return "<md:EntitiesDescriptor"
    if st == "wrongroot":
        return '<other xmlns="urn:other"/>'
    d = fetch["doc"]
    sg = fetch.get("sig", "unsigned")
    if sg == "unsigned":
        return r_doc(d, "doc1")
    xml = r_doc(d, "doc1", render.signature_template("doc1"))
    node = ENS_NODE if d["group"] else EN_NODE
    xml = render.sign_xml(xml, "attacker" if sg == "wrongkey" else "idp", node, "doc1")
    if sg == "tampered":
        if fetch.get("tamper", 0) == 0:
            xml = render.corrupt_signature_value(xml)
        else:
            xml = xml.replace(' ID="doc1"', ' ID="doc1" cacheDuration="PT1H"', 1)   # signed content altered
    return xml


def error_body(eid):
    """What an error response (status 500) carries: a perfectly usable document.  It must not be looked at."""
    e = {"id": eid, "vu": None, "affil": False, "attrs": [], "regs": [],
         "roles": [{"kind": K_IDP, "protos": [SAML2P], "svcs": [[N_SSO, R, "https://error.example.org/sso", None]],
                    "keys": [], "acs": []}]}
    return r_ent(e, "doc1")


# ------------------------------------------------------------------------------------ stubs
class _Resp:
    def __init__(self, code, body):
        self.status_code = code
        self.text = body
        self.content = body.encode("utf-8")


class _Http:
    """stands for MetadataStore.http (HTTPBase): .send(url) -> response"""

    def __init__(self):
        self.table = {}

    def send(self, url, **kw):
        return self.table.get(url, _Resp(404, ""))


class _Requests:
    """stands for the `requests` module inside saml2.mdstore"""

    def __init__(self):
        self.table = {}

    def get(self, url, headers=None, timeout=None, **kw):
        return self.table.get(url, _Resp(404, ""))


_CONF = None


def _config():
    """One SP configuration per process.  Loading a PEM private key costs ~40 ms here, so the two places
    that do it once per call are memoised: the stand-in's signing-key loader and the security context that
    MetadataStore.__init__ builds from the (unchanging) configuration."""
    global _CONF
    if _CONF is None:
        m = env.install_standin()
        from saml2.config import SPConfig
        import saml2.mdstore as M

        c = SPConfig()
        c.load(world.sp_config(metadata_xml=[]))
        _CONF = c
        orig_key, keys = m._load_privkey, {}
        m._load_privkey = lambda path: keys[path] if path in keys else keys.setdefault(path, orig_key(path))
        orig_sc, ctxs = M.security_context, {}
        M.security_context = lambda conf: ctxs[id(conf)] if id(conf) in ctxs else ctxs.setdefault(id(conf), orig_sc(conf))
    return _CONF


CERT_FILE = fixtures.cert_path("idp")
_CERT_BY_TEXT = None


def cert_name(text):
    global _CERT_BY_TEXT
    if _CERT_BY_TEXT is None:
        _CERT_BY_TEXT = {fixtures.cert_b64(n): n for n in fixtures.NAMES}
    return _CERT_BY_TEXT.get("".join(text.split()), "?")


# ------------------------------------------------------------------------------------ answers
def a_svc(s):
    name = None
    cls = s.get("__class__", "")
    for n, t in SVC_TAG.items():
        if cls.endswith("&" + t):
            name = n
    return [name, s.get("binding"), s.get("location"), s.get("index")]


def a_role(kind, r):
    svcs = []
    for n in SVC_ORDER:
        svcs += [a_svc(s) for s in r.get(n, [])]
    keys = []
    for k in r.get("key_descriptor", []):
        for dat in (k.get("key_info") or {}).get("x509_data", []):
            keys.append([k.get("use"), cert_name(dat["x509_certificate"]["text"])])
    acs = []
    for a in r.get("attribute_consuming_service", []):
        acs.append([a.get("index"), [[q.get("name"), q.get("is_required")] for q in a.get("requested_attribute", [])]])
    return {"kind": kind, "protos": r.get("protocol_support_enumeration", "").split(" "), "svcs": svcs, "keys": keys,
            "acs": acs}


def a_fp(entdict):
    roles = []
    for kind in KINDS:
        for r in entdict.get(kind, []):
            roles.append(a_role(kind, r))
    return roles


def _guard(f):
    from saml2.s_utils import UnknownSystemEntity, UnsupportedBinding

    try:
        return f()
    except KeyError:
        return ["K"]
    except UnknownSystemEntity:
        return ["U"]
    except UnsupportedBinding:
        return ["X"]
    except Exception:
        return ["R"]


def _svc_answer(res):
    if res is None:
        return ["N"]
    if isinstance(res, dict):
        return ["D", [[b, [a_svc(s) for s in l]] for b, l in res.items()]]
    return ["S", [a_svc(s) for s in res]]


SERVICE_QUERIES = (
    [(K_IDP, N_SSO, b) for b in (None, R, P, S)] + [(K_SP, N_ACS, b) for b in (None, R, P, S)]
    + [(K_IDP, N_SLO, None), (K_IDP, N_SLO, S), (K_SP, N_SLO, R), (K_AA, N_ATTR, None), (K_AA, N_ATTR, S),
       (K_PDP, N_AUTHZ, S), (K_AUTHN, N_AUTHNQ, S)])
CERT_QUERIES = [("any", "signing"), ("any", "encryption"), (K_IDP, "signing"), (K_SP, "encryption"), (K_AA, "signing")]
WITH_KINDS = [K_IDP, K_SP, K_AA, K_PDP, K_AUTHN, K_AFFIL]


PER_ENTITY = 1 + len(SERVICE_QUERIES) + 2 + len(CERT_QUERIES) + 2 + 1 + 1       # queries per entity of the universe


def n_queries(universe):
    return PER_ENTITY * len(universe) + 1 + len(WITH_KINDS)


def query_thunks(mds, universe):
    """The query set in the listed order; mirrors C11.Corr.queries."""
    out = []
    for e in universe:
        out.append(lambda e=e: (lambda en: ["E", bool(en.get(K_AFFIL)), a_fp(en)])(mds[e]))
        for typ, name, b in SERVICE_QUERIES:
            out.append(lambda e=e, typ=typ, name=name, b=b: _svc_answer(mds.service(e, typ, name, b)))
        out.append(lambda e=e: _svc_answer(mds.single_sign_on_service(e)))
        out.append(lambda e=e: _svc_answer(mds.assertion_consumer_service(e)))
        for d, u in CERT_QUERIES:
            dd = d[:-len("_descriptor")] if d.endswith("_descriptor") else d
            out.append(lambda e=e, dd=dd, u=u: ["C", [cert_name(c) for _n, c in mds.certs(e, dd, u)]])
        for idx in (None, "1"):
            def ar(e=e, idx=idx):
                res = mds.attribute_requirement(e, idx)
                if res is None:
                    return ["N"]
                return ["Q", [a["name"] for a in res["required"]], [a["name"] for a in res["optional"]]]
            out.append(ar)
        out.append(lambda e=e: ["T", list(mds.entity_categories(e))])

        def reg(e=e):
            g = mds.registration_info(e)
            return ["G", g["registration_authority"], g["registration_instant"],
                    [[l, t] for l, t in g["registration_policy"].items()]]
        out.append(reg)
    out.append(lambda: ["Y", list(mds.keys())])
    for kind in WITH_KINDS:
        out.append(lambda kind=kind: ["W", [[eid, [sv[2] for r in a_fp(en) for sv in r["svcs"]]] for eid, en in
                                            mds.with_descriptor(kind[:-len("_descriptor")]).items()]])
    return out


def ask_all(mds, universe, order=None):
    """Puts the query set in the given order (indices into the listed order; empty = as listed).  The order
    matters: a lookup on an MDQ entity that is not cached fetches it."""
    th = query_thunks(mds, universe)
    return [_guard(th[i]) for i in (order or range(len(th)))]


def order_listed(universe):
    return []


def order_service_first(universe):
    """per entity: the service lookups, single_sign_on_service, assertion_consumer_service, then certs, ..., and
    __getitem__ LAST; keys() and with_descriptor() before everything"""
    n = PER_ENTITY * len(universe)
    out = list(range(n, n + 1 + len(WITH_KINDS)))
    for k in range(len(universe)):
        base = k * PER_ENTITY
        out += list(range(base + 1, base + PER_ENTITY)) + [base]
    return out


def order_random(rng, universe):
    o = list(range(n_queries(universe)))
    rng.shuffle(o)
    return o


def assign_orders(rng, cases):
    """Every case gets an order for its query set: a third as listed (__getitem__ first), a third "service first",
    a third a seeded permutation; witness cases keep the listed order."""
    for i, c in enumerate(cases):
        if "order" in c:
            continue
        k = i % 3
        c["order"] = ([] if k == 0 else order_service_first(c["universe"]) if k == 1 else order_random(rng, c["universe"]))
    return cases


# ------------------------------------------------------------------------------------ running a history
LOADER_CLASS = {"inline": "saml2.mdstore.InMemoryMetaData", "file": "saml2.mdstore.MetaDataFile",
                "remote": "saml2.mdstore.MetaDataExtern", "mdq": "saml2.mdstore.MetaDataMDX"}
OLD_TYP = {"inline": "inline", "file": "local", "remote": "remote", "mdq": "mdq"}


def inline_key(text):
    return "inline:" + hashlib.sha1(text.encode("utf-8")).hexdigest()[:10]


class _Run:
    def __init__(self, case):
        import saml2.mdstore as M
        from saml2.mdstore import MetadataStore

        self.M = M
        conf = _config()
        # the store-wide switch is a constructor argument (default True); given only when the case switches it off
        if case.get("scv", True):
            self.mds = MetadataStore(conf.attribute_converters, conf)
        else:
            self.mds = MetadataStore(conf.attribute_converters, conf, check_validity=False)
        self.http = _Http()
        self.mds.http = self.http
        self.req = _Requests()
        M.requests = self.req
        self.dir = tempfile.mkdtemp(prefix="h", dir=_workdir())
        self.mdq_urls = set()
        self.server = {}
        self.universe = case["universe"]

    def close(self):
        shutil.rmtree(self.dir, ignore_errors=True)

    # place the bytes where the source will look; return the argument that names the source
    def stage(self, src, fetch):
        kind = src["kind"]
        body = body_of(fetch) if kind != "mdq" else None
        if kind == "inline":
            return body
        if kind == "file":
            path = os.path.join(self.dir, src["key"] + ".xml")
            if body is None:
                if os.path.exists(path):
                    os.unlink(path)
            else:
                with open(path, "w") as f:
                    f.write(body)
            return path
        if kind == "remote":
            url = "http://md.example.org/" + src["key"]
            self.http.table[url] = _Resp(200, body) if body is not None else (
                _Resp(500, error_body("urn:e1")) if fetch["st"] == "http" else _Resp(404, ""))
            return url
        url = "http://mdq.example.org/" + src["key"]
        self.mdq_urls.add(url)
        self.publish()
        return url

    def publish(self):
        self.req.table = {}
        for url in self.mdq_urls:
            for eid, fetch in self.server.items():
                body = body_of(fetch)
                u = "%s/entities/%s" % (url, self.M.MetaDataMDX.sha1_entity_transform(eid))
                self.req.table[u] = _Resp(200, body) if body is not None else (
                    _Resp(500, error_body(eid)) if fetch["st"] == "http" else _Resp(404, ""))

    def old_val(self, src, name):
        kind = src["kind"]
        if kind in ("inline", "file"):
            return name
        # Optional keys are written only when the case SPELLS them: {"url": ...} alone is the ordinary way to
        # configure a remote / MDQ source, and then the defaults apply (check_validity True, node_name None,
        # no certificate, freshness period 12 h).  src["cv"]: None = key absent, True / False = given.
        if src.get("bad"):
            # an unusable specification: a remote source named by a bare string (load() wants url=...),
            # or a source type that does not exist
            return name if src["bad"] == "nourl" else {"url": name}
        if kind == "remote":
            v = {"url": name}
            if src["cv"] is not None:
                v["check_validity"] = bool(src["cv"])
            if src["cert"]:
                v["cert"] = CERT_FILE
            elif src.get("cert_sp") == "empty":
                v["cert"] = ""              # "no certificate", spelled out
            elif src.get("cert_sp") == "none":
                v["cert"] = None
            if src["node"] is not None:
                v["node_name"] = ENS_NODE if src["node"] else EN_NODE
            return v
        if src.get("form") == "pos" and not src["cert"] and src["period"] == 43200:
            return name                      # load("mdq", url) / {"mdq": [url]}: the positional form
        v = {"url": name}
        if src["cert"]:
            v["cert"] = CERT_FILE
        elif src.get("cert_sp") == "none":
            v["cert"] = None
        if src["period"] != 43200 or src.get("period_sp"):
            v["freshness_period"] = "PT%dS" % src["period"]
        return v

    def new_item(self, src, name):
        key = (name, CERT_FILE) if src["cert"] else (name,)
        if src.get("bad"):      # unusable list-style items: no such loader class / no "class" at all
            return {"class": "saml2.mdstore.NoSuchLoader", "metadata": [key]} if src["bad"] == "nourl" else {"metadata": [key]}
        return {"class": LOADER_CLASS[src["kind"]], "metadata": [key]}

    def spec(self, ns, items):
        staged = [(src, self.stage(src, fetch)) for src, fetch in items]
        if ns:
            return [self.new_item(src, name) for src, name in staged]
        spec = {}
        for src, name in staged:
            typ = "nosuchtype" if src.get("bad") == "notype" else OLD_TYP[src["kind"]]
            spec.setdefault(typ, []).append(self.old_val(src, name))
        return spec

    def do(self, step):
        op = step["op"]
        if op == "tick":
            CLOCK.tick(step["dt"])
            return []
        if op == "server":
            self.server = {e: f for e, f in step["tbl"]}
            self.publish()
            return []
        if op == "load":
            src, fetch = step["src"], step["fetch"]
            if step["ns"] or step.get("api") == "imp":
                spec = self.spec(step["ns"], [(src, fetch)])
                call = lambda: self.mds.imp(spec)
            else:
                name = self.stage(src, fetch)
                v = self.old_val(src, name)
                typ = "nosuchtype" if src.get("bad") == "notype" else OLD_TYP[src["kind"]]
                if isinstance(v, dict):
                    call = lambda: self.mds.load(typ, **v)
                else:
                    call = lambda: self.mds.load(typ, v)
        else:
            spec = self.spec(step["ns"], step["items"])
            call = lambda: self.mds.reload(spec)
        try:
            call()
            return [["F", True]]
        except Exception:
            return [["F", False]]


# ------------------------------------------------------------------------------------ source tie (translator v2)
# Functions of src/saml2/mdstore.py that are re-translated from the CURRENT source text on every run into
# coq/gen/C11Src2.v; coq/theories/C11/Source2.v proves each of them equal to the model function it mirrors
# (for all inputs of the model's domain), Property.v re-states the theorems as c11_source2_*.
def source2_items():
    env.check_repo_import()
    from saml2 import samlp

    path = os.path.join(env.SRC, "saml2", "mdstore.py")
    one = lambda f: (lambda a: "(%s %s)" % (f, a[0]))
    return [
        # anchor 1: validUntil, duplicate entityID, protocol support filter
        (path, "InMemoryMetaData.do_entity_descriptor", {
            "name": "src2_do_entity_descriptor", "params": ["self", "entity_descr"],
            "extra_params": [("valid", "pyval -> pyval"), ("to_dict", "pyval -> pyval"), ("filter_", "pyval -> pyval")],
            "calls": {"valid": one("valid"), "to_dict": one("to_dict"), "metadata_modules": lambda a: "PNone",
                      "self.filter": one("filter_")},
            "globals": {"samlp.NAMESPACE": "(PStr %s)" % cq(samlp.NAMESPACE)},
            "ignore_calls": ["print", "logger.error"], "attr_errors": True, "returns_state": ["self"]}),
        # anchor 3: KeyDescriptor use filter (the nested function of MetaData.certs; `use` is its free variable)
        (path, "MetaData.certs.extract_certs", {
            "name": "src2_extract_certs", "params": ["srvs"],
            "extra_params": [("repack_cert", "pyval -> pyval"), ("v_use", "pyval")],
            "calls": {"repack_cert": one("repack_cert")}, "globals": {"use": "v_use"}}),
        # anchor 5: freshness
        (path, "MetaDataMDX._is_metadata_fresh", {
            "name": "src2_is_fresh", "params": ["self", "item"],
            "extra_params": [("before", "pyval -> pyval")], "calls": {"before": one("before")}}),
        (path, "MetaDataMDX.__getitem__", {
            "name": "src2_mdx_getitem", "params": ["self", "item"],
            "extra_params": [("fetch", "pyval -> pyval -> pyval"), ("fresh", "pyval -> pyval -> pyval")],
            "calls": {"self._fetch_metadata": lambda a: "(fetch v_self %s)" % a[0],
                      "self._is_metadata_fresh": lambda a: "(fresh v_self %s)" % a[0]},
            "ignore_calls": ["logger.info"], "returns_state": ["self"]}),
        # anchor 2 (store level): the first configured source that has the entity answers
        (path, "MetadataStore.__getitem__", {"name": "src2_store_getitem", "params": ["self", "item"]}),
        # anchor 6: rollback on failure
        (path, "MetadataStore.reload", {
            "name": "src2_reload", "params": ["self", "spec"], "extra_params": [("imp", "pyval -> pyval -> pyval")],
            "calls": {"self.imp": lambda a: "(imp v_self %s)" % a[0]}, "returns_state": ["self"]}),
        # anchor 4: is the parsed document signed
        (path, "InMemoryMetaData.signed", {"name": "src2_signed", "params": ["self"]}),
    ]


def regenerate_tables(ctx):
    from harness import common, py2coq2

    info = py2coq2.regenerate(os.path.join(common.GEN, "C11Src2.v"), source2_items())
    return {"file": "coq/gen/C11Src2.v", "changed": info["changed"], "obligations": info["obligations"],
            "discharged": info["discharged"], "untranslatable": info["untranslatable"], "source2": info}


# ------------------------------------------------------------------------------------ the process time zone
# POSIX TZ strings (no tz database needed).  The zones with daylight saving have an hour (Lord Howe: half an hour)
# per year that does not exist as local wall-clock time.
ZONES_DST = ["PST8PDT,M3.2.0,M11.1.0", "AEST-10AEDT,M10.1.0,M4.1.0/3", "LHST-10:30LHDT-11,M10.1.0,M4.1.0"]
ZONES_FIXED = ["JST-9", "EST5", "XXX-14", "YYY+12", "NPT-5:45", "UTC0"]


class _Zone:
    """with _Zone(tz): the process runs in that zone (None = the starting zone); restored afterwards"""

    def __init__(self, tz):
        self.tz = tz

    def __enter__(self):
        self.old = os.environ.get("TZ")
        if self.tz is not None:
            os.environ["TZ"] = self.tz
            _time.tzset()
        return self

    def __exit__(self, *a):
        if self.tz is not None:
            if self.old is None:
                os.environ.pop("TZ", None)
            else:
                os.environ["TZ"] = self.old
            _time.tzset()


def _roundtrip(t):
    """libc only: the UTC reading of t taken as local wall-clock time, through mktime and back"""
    f = tuple(_time.gmtime(t)[:6])
    return calendar.timegm(tuple(_time.localtime(_time.mktime(f + (0, 0, -1)))[:6]))


_GAPS = {}


def zone_gaps(tz, lo, hi):
    """[(start, length, shift)]: the instants in [lo, hi] whose UTC reading does not exist as local time in the zone,
    and where libc puts them.  Measured through libc (time.mktime / time.localtime), not through pysaml2."""
    if tz is None:
        return []
    key = (tz, lo, hi)
    if key in _GAPS:
        return _GAPS[key]
    out = []
    with _Zone(tz):
        def edge(a, b):          # _roundtrip is the identity at exactly one of a, b: first instant of b's kind
            while b - a > 1:
                m = (a + b) // 2
                if (_roundtrip(m) != m) == (_roundtrip(b) != b):
                    b = m
                else:
                    a = m
            return b
        step, t, start = 900, lo, None
        prev = lo
        while t <= hi + step:
            bad = _roundtrip(t) != t
            if bad and start is None:
                start = edge(prev, t) if t > lo else t
            if not bad and start is not None:
                end = edge(prev, t)
                sh = _roundtrip(start) - start
                if any(_roundtrip(x) - x != sh for x in (start, (start + end) // 2, end - 1)):
                    raise RuntimeError("zone %s: uneven shift inside a gap" % tz)
                out.append([start, end - start, sh])
                start = None
            prev = t
            t += step
    _GAPS[key] = out
    return out


def zone_window(t0):
    return t0 - 86400, t0 + 4 * 86400


def set_zone(case, tz):
    case["tz"] = tz
    case["gaps"] = zone_gaps(tz, *zone_window(case["t0"]))
    return case


def year_gap(tz, year=2024):
    g = zone_gaps(tz, calendar.timegm((year, 1, 1, 0, 0, 0)), calendar.timegm((year, 12, 31, 0, 0, 0)))
    return g[0]


CLOCK = None
_WORK = None


def _workdir():
    global _WORK
    if _WORK is None:
        _WORK = os.path.join(env.VERIF, "work", "C11", "files")
        os.makedirs(_WORK, exist_ok=True)
    return _WORK


def observe(case):
    global CLOCK
    _config()
    if CLOCK is None:
        CLOCK = env.VClock().install()
    CLOCK.set(case["t0"])
    olderr = sys.stderr
    sys.stderr = io.StringIO()          # do_entity_descriptor prints duplicates to stderr
    tz = case.get("tz") or "UTC0"       # always set: the observation is a function of the case alone
    if case.get("gaps", []) != zone_gaps(tz, *zone_window(case["t0"])):
        raise RuntimeError("the case's gap table is not what libc says about zone %s" % tz)
    with _Zone(tz):
        run = _Run(case)
        try:
            out = []
            for step in case["steps"]:
                o = run.do(step)
                o += ask_all(run.mds, case["universe"], case.get("order"))
                out.append(o)
            return {"steps": out}
        finally:
            sys.stderr = olderr
            run.close()


# ------------------------------------------------------------------------------------ Coq terms
def cs(s):
    if s is None:
        return "None"
    return COQ_NAMES.get(s) or cq(s)


def cso(s):
    return "None" if s is None else "(Some %s)" % cs(s)


def clist(items):
    return "[" + "; ".join(items) + "]"


def c_svc(s):
    return "(sv %s %s %s %s)" % (cs(s[0]), cs(s[1]), cs(s[2]), cso(s[3]))


def c_role(r):
    if r.get("pse") is not None:        # the attribute value as a string: Corr.rp splits it (as the code does)
        head = "(rp %s %s" % (cs(r["kind"]), cq(r["pse"]))
    else:
        head = "(rl %s %s" % (cs(r["kind"]), clist(cs(p) for p in r["protos"]))
    return "%s %s %s %s)" % (
        head, clist(c_svc(s) for s in r["svcs"]),
        clist("(ky %s %s)" % (cso(u), cs(c)) for u, c in r["keys"]),
        clist("(ACS %s %s)" % (cs(i), clist("(RA %s %s)" % (cs(n), cso(q)) for n, q in attrs))
              for i, attrs in r.get("acs", [])))


def c_ent(e):
    return "(mkent %s %s %s %s %s %s)" % (
        cs(e["id"]), "None" if e.get("vu") is None else "(Some %s)" % cq(e["vu"]),
        clist(c_role(r) for r in e["roles"]), cq(bool(e.get("affil"))),
        clist("(%s, %s)" % (cs(n), clist(cs(v) for v in vals)) for n, vals in e.get("attrs", [])),
        clist("(Reg %s %s %s)" % (cs(g["auth"]), cso(g["inst"]), clist("(%s, %s)" % (cs(l), cs(t)) for l, t in g["pols"]))
              for g in e.get("regs", [])))


def c_doc(d):
    if not d["group"]:
        return "(Single %s)" % c_ent(d["ents"][0])
    return "(Group %s %s)" % ("None" if d.get("vu") is None else "(Some %s)" % cq(d["vu"]),
                              clist(c_ent(e) for e in d["ents"]))


SIG = {"unsigned": "Unsigned", "valid": "SigValid", "tampered": "SigTampered", "wrongkey": "SigWrongKey"}


def c_fetch(f):
    st = f["st"]
    if st in ("missing", "http"):
        return "FMissing"
    if st == "garbage":
        return "(FBody Garbage Unsigned)"
    if st == "wrongroot":
        return "(FBody WrongRoot Unsigned)"
    return "(FBody (D %s) %s)" % (c_doc(f["doc"]), SIG[f.get("sig", "unsigned")])


KIND = {"inline": "KInline", "file": "KFile", "remote": "KRemote", "mdq": "KMdq"}


def c_src(s, scv=True, via_imp=False):
    """scv: the store's check_validity; via_imp: the specification is handed to imp() (reload() always does)"""
    node = "None" if s["node"] is None else "(Some %s)" % cq(bool(s["node"]))
    cv = "None" if s["cv"] is None else "(Some %s)" % cq(bool(s["cv"]))
    return "(mksp %s %s %s %s %s %s %s %s)" % (KIND[s["kind"]], cq(s["key"]), cq(bool(s["cert"])), cv, node,
                                              cq(int(s["period"])), cq(bool(scv)), cq(bool(via_imp)))


def c_fetch_of(src, f):
    """an unusable source specification yields no bytes, whatever sits at the address"""
    return "FMissing" if src.get("bad") else c_fetch(f)


def c_op(step, scv=True):
    op = step["op"]
    if op == "tick":
        return "(OTick %s)" % cq(int(step["dt"]))
    if op == "server":
        return "(OServer %s)" % clist("(%s, %s)" % (cs(e), c_fetch(f)) for e, f in step["tbl"])
    if op == "load":
        via_imp = bool(step["ns"] or step.get("api") == "imp")
        return "(OLoad %s %s %s)" % (cq(bool(step["ns"])), c_src(step["src"], scv, via_imp), c_fetch_of(step["src"], step["fetch"]))
    return "(OReload %s %s)" % (cq(bool(step["ns"])),
                                clist("(%s, %s)" % (c_src(s, scv, True), c_fetch_of(s, f)) for s, f in step["items"]))


def c_roles(rs):
    return clist(c_role(r) for r in rs)


def c_answer(a):
    t = a[0]
    if t == "R":
        return "ARaise"
    if t == "K":
        return "AKeyErr"
    if t == "U":
        return "AUnknown"
    if t == "X":
        return "AUnsupported"
    if t == "N":
        return "ANone"
    if t == "F":
        return "(AFlag %s)" % cq(bool(a[1]))
    if t == "E":
        return "(AEnt %s %s)" % (cq(bool(a[1])), c_roles(a[2]))
    if t == "S":
        return "(ASvcs %s)" % clist(c_svc(s) for s in a[1])
    if t == "D":
        return "(ADict %s)" % clist("(%s, %s)" % (cs(b), clist(c_svc(s) for s in l)) for b, l in a[1])
    if t == "C":
        return "(ACerts %s)" % clist(cs(c) for c in a[1])
    if t == "Q":
        return "(AReq %s %s)" % (clist(cs(x) for x in a[1]), clist(cs(x) for x in a[2]))
    if t == "T":
        return "(ACats %s)" % clist(cs(x) for x in a[1])
    if t == "G":
        return "(AReg %s %s %s)" % (cso(a[1]), cso(a[2]), clist("(%s, %s)" % (cs(l), cs(x)) for l, x in a[3]))
    if t == "Y":
        return "(AKeys %s)" % clist(cs(x) for x in a[1])
    if t == "W":
        return "(AWith %s)" % clist("(%s, %s)" % (cs(e), clist(cs(x) for x in ls)) for e, ls in a[1])
    raise ValueError(a)


SHORT = {_json.dumps(k): v for k, v in [(["U"], "oU"), (["K"], "oK"), (["X"], "oX"), (["N"], "oN"), (["R"], "oR"),
                                          (["T", []], "oT0"), (["G", None, None, []], "oG0")]}


def fix_src(step):
    """inline sources named by a list-style item are keyed by their text"""
    def fx(src, fetch):
        if src["kind"] == "inline":
            return dict(src, key=inline_key(body_of(fetch) or ""))
        return dict(src, key=src["kind"] + ":" + src["key"])      # file path / url: distinct per kind
    if step["op"] == "load":
        return dict(step, src=fx(step["src"], step["fetch"]))
    if step["op"] == "reload":
        return dict(step, items=[[fx(s, f), f] for s, f in step["items"]])
    return step


def coq_case(case, obs):
    steps = []
    prev = None
    for step, answers in zip(case["steps"], obs["steps"]):
        flag = [a for a in answers[:1] if a[0] == "F"]
        qs = answers[len(flag):]
        terms = []
        for i, a in enumerate(qs):
            if prev is not None and i < len(prev) and prev[i] == a:
                t = "oS"          # same answer as after the previous step
            else:
                t = SHORT.get(_json.dumps(a)) or "(Some %s)" % c_answer(a)
            if terms and terms[-1][1] == t:
                terms[-1][0] += 1
            else:
                terms.append([1, t])
        prev = qs
        steps.append("(%s, %s, %s)" % (c_op(fix_src(step), case.get("scv", True)), clist(c_answer(a) for a in flag),
                                       clist("(%d, %s)" % (n, t) for n, t in terms)))
    gaps = clist("(%s, %s, %s)" % (cq(int(a)), cq(int(l)), cq(int(sh))) for a, l, sh in case.get("gaps", []))
    return "(%s, %s, %s, %s, %s)" % (cq(int(case["t0"])), gaps, clist(cs(e) for e in case["universe"]),
                                 clist("%d" % i for i in case.get("order") or []), clist(steps))


def explain_term(term):
    return "C11.Corr.explain (%s)" % term


# ------------------------------------------------------------------------------------ generators
IDS = ["urn:e1", "urn:e2", "urn:e3"]
PROTO_CHOICES = [[SAML2P], [SAML2P], [SAML2P], [SAML11P], [SAML11P, SAML2P], ["urn:x:proto", SAML2P], [SAML10P, SAML11P]]
LOC = 0


def g_loc(rng):
    return "https://h%d.example.org/%d" % (rng.randint(1, 3), rng.randint(1, 40))


def g_role(rng, kind=None, invalid_ok=True):
    kind = kind or rng.choice([K_IDP, K_IDP, K_SP, K_SP, K_AA, K_PDP, K_AUTHN])
    svcs = []
    for name in SVC_ORDER:
        if name not in ALLOWED[kind]:
            continue
        if name == N_ARS and rng.random() < 0.8:
            continue
        if name == N_SLO and rng.random() < 0.4:
            continue
        # 0-4 endpoints per service and binding
        for b in (R, P, S):
            k = rng.choice([0, 0, 1, 1, 1, 2, 4]) if rng.random() < 0.6 else 0
            for _ in range(k):
                idx = None
                if name in (N_ACS, N_ARS):
                    idx = str(rng.randint(0, 3))
                    if invalid_ok and rng.random() < 0.04:
                        idx = None
                svcs.append([name, b, g_loc(rng), idx])
        if name == MANDATORY[kind] and not any(s[0] == name for s in svcs) and not (invalid_ok and rng.random() < 0.15):
            svcs.append([name, rng.choice([R, P, S]), g_loc(rng), "0" if name in (N_ACS, N_ARS) else None])
    keys = [[rng.choice(["signing", "encryption", None]), rng.choice(CERTS)] for _ in range(rng.choice([0, 1, 1, 2, 3]))]
    acs = []
    if kind == K_SP:
        for _ in range(rng.choice([0, 0, 1, 2])):
            n = rng.choice([1, 1, 2, 3]) if not (invalid_ok and rng.random() < 0.06) else 0
            acs.append([rng.choice(["1", "2"]),
                        [[rng.choice(["mail", "cn", "sn", "uid"]), rng.choice(["true", "false", None])] for _ in range(n)]])
    return {"kind": kind, "protos": list(rng.choice(PROTO_CHOICES)), "svcs": svcs, "keys": keys, "acs": acs}


def g_ent(rng, eid, t0, invalid_ok=True, vu_choices=None):
    roles = [g_role(rng, invalid_ok=invalid_ok) for _ in range(rng.choice([1, 1, 2, 2, 3]))]
    attrs = []
    if rng.random() < 0.4:
        attrs.append([ENTITY_CATEGORY, ["http://cat.example.org/%d" % rng.randint(1, 4) for _ in range(rng.randint(1, 2))]])
    if rng.random() < 0.2:
        attrs.append(["urn:other:attr", ["v%d" % rng.randint(1, 3)]])
    if rng.random() < 0.15:
        attrs.append([ENTITY_CATEGORY, ["http://cat.example.org/9"]])
    regs = []
    for _ in range(rng.choice([0, 0, 0, 1, 1, 2])):
        pols = [[rng.choice(["en", "sv"]), "http://ra.example.org/pol%d" % rng.randint(1, 3)] for _ in range(rng.randint(0, 2))]
        regs.append({"auth": "http://ra%d.example.org" % rng.randint(1, 2),
                     "inst": rng.choice([None, "2013-06-15T18:15:03Z"]), "pols": pols})
    vu = rng.choice(vu_choices or [None, None, None, t0 - 1000, t0 + 1000, t0 + 10 ** 6, t0])
    return {"id": eid, "vu": vu, "roles": roles, "affil": rng.random() < 0.06, "attrs": attrs, "regs": regs}


def g_doc(rng, t0, ids=None, group=None, n=None, invalid_ok=True):
    ids = ids or IDS
    if group is None:
        group = rng.random() < 0.7
    if not group:
        return {"group": False, "vu": None, "ents": [g_ent(rng, rng.choice(ids), t0, invalid_ok)]}
    n = n if n is not None else rng.choice([1, 2, 2, 3, 3, 4, 6])
    return {"group": True, "vu": rng.choice([None, None, None, None, t0 + 5000, t0 - 5000]),
            "ents": [g_ent(rng, rng.choice(ids), t0, invalid_ok) for _ in range(n)]}


def g_src(rng, kind, key, cert=False, cv="any", node=None, period=43200):
    """cv = the source's check_validity AS SPELLED: None = the key is absent (the ordinary way), True / False = given;
    "any" / "on" draw a spelling (remote sources only: no other kind of specification has the key) - "on" among those
    that leave checking on.  The other optional keys get a drawn spelling too (absent / "" / None certificate,
    positional MDQ url, default freshness period written out); these do not change what the source is."""
    if cv in ("any", "on"):
        if rng is None or kind != "remote":
            cv = None
        else:
            cv = rng.choice([None, None, None, True, False] if cv == "any" else [None, None, True])
    src = {"kind": kind, "key": key, "cert": cert, "cv": cv, "node": node, "period": period}
    if rng is not None and kind == "remote" and not cert:
        sp = rng.choice([None, None, None, "empty", "none"])
        if sp:
            src["cert_sp"] = sp
    if rng is not None and kind == "mdq":
        if rng.random() < 0.3:
            src["form"] = "pos"
        if rng.random() < 0.3:
            src["period_sp"] = True
        if not cert and rng.random() < 0.2:
            src["cert_sp"] = "none"
    return src


def doc_fetch(doc, sig="unsigned", tamper=0):
    return {"st": "doc", "doc": doc, "sig": sig, "tamper": tamper}


def mk(tag, steps, t0=T0, universe=None):
    return {"tag": tag, "t0": t0, "universe": universe or (IDS + [NX]), "steps": steps}


def load(src, fetch, ns=False, api="load"):
    return {"op": "load", "ns": ns, "api": api, "src": src, "fetch": fetch}


def reload_(items, ns=False):
    if not ns:   # a dict-style spec groups the sources by type: keep the model's order = the dict's order
        gk = lambda s: s["kind"] + ("!" if s.get("bad") == "notype" else "")      # the dict's key for the source
        order = []
        for s, _f in items:
            if gk(s) not in order:
                order.append(gk(s))
        items = sorted(items, key=lambda it: order.index(gk(it[0])))
    return {"op": "reload", "ns": ns, "items": [[s, f] for s, f in items]}


def static_kind(rng, ns):
    return rng.choice(["inline", "file", "remote"])


def fam_doc(rng, n, t0=T0):
    """one source, one random document: lookups"""
    out = []
    for i in range(n):
        ns = rng.random() < 0.4
        kind = static_kind(rng, ns)
        src = g_src(rng, kind, "s1")
        c = mk("doc", [load(src, doc_fetch(g_doc(rng, t0)), ns, rng.choice(["load", "imp"]))], t0)
        if rng.random() < 0.15:
            c["scv"] = False
        out.append(c)
    return out


FAIL_KINDS = ["missing", "garbage", "wrongroot", "http", "tampered", "wrongkey", "tooold", "unsigned", "badspec"]


def failing(rng, kind_of_failure, t0, key, ns):
    """a (src, fetch) pair whose load fails in the given way (wrongroot / unsigned: the 'soft' ways)"""
    f = kind_of_failure
    if f == "badspec":      # the address holds a perfectly usable document; the SPECIFICATION is unusable
        d = g_doc(rng, t0, invalid_ok=False)
        if d["group"]:
            d["vu"] = None
        return dict(g_src(rng, "remote", key), bad=rng.choice(["nourl", "notype"])), doc_fetch(d)
    if f in ("missing", "http"):
        kind = rng.choice(["file", "remote"]) if f == "missing" else "remote"
        return g_src(rng, kind, key), {"st": f}
    if f in ("garbage", "wrongroot"):
        return g_src(rng, rng.choice(["inline", "file", "remote"]), key), {"st": f}
    if f == "tooold":
        d = g_doc(rng, t0, group=True, invalid_ok=False)
        d["vu"] = t0 - 5
        return g_src(rng, rng.choice(["inline", "file", "remote"]), key, cv="on"), doc_fetch(d)
    d = g_doc(rng, t0, invalid_ok=False)
    if d["group"]:
        d["vu"] = None
    if f == "unsigned":
        return g_src(rng, "remote", key, cert=True), doc_fetch(d, "unsigned")
    return g_src(rng, "remote", key, cert=True), doc_fetch(d, f, rng.randint(0, 1))


def good(rng, t0, key, ns, signed_ok=True):
    kind = rng.choice(["inline", "file", "remote"])
    d = g_doc(rng, t0, invalid_ok=False)
    if d["group"] and d["vu"] is not None and d["vu"] < t0:
        d["vu"] = None
    if kind == "remote" and signed_ok and rng.random() < 0.5:
        return g_src(rng, kind, key, cert=True), doc_fetch(d, "valid")
    return g_src(rng, kind, key), doc_fetch(d)


def fam_sig(t0=T0):
    """complete product: source kind/style x node_name x signature state x cert x document shape"""
    rng = __import__("random").Random(11)
    out = []
    sigs = [("unsigned", 0), ("valid", 0), ("tampered", 0), ("tampered", 1), ("wrongkey", 0)]
    confs = [("file", True, None), ("file", False, None), ("remote", True, None), ("remote", False, None),
             ("remote", False, True), ("remote", False, False), ("inline", False, None), ("inline", True, None)]
    for (kind, ns, node), (sig, tamper), cert, group in itertools.product(confs, sigs, (False, True), (False, True)):
        if kind == "inline" and cert and not ns:
            continue          # load("inline", text) has no certificate parameter
        d = g_doc(rng, t0, group=group, n=2, invalid_ok=False)
        d["vu"] = None
        src = g_src(rng, kind, "s1", cert=cert, node=node)
        out.append(mk("sig", [load(src, doc_fetch(d, sig, tamper), ns, "imp" if ns else rng.choice(["load", "imp"]))], t0))
    return out


def fam_multi(rng, n, t0=T0):
    """2-3 sources, overlapping ids, loaded one after the other; same key loaded again"""
    out = []
    for i in range(n):
        steps = []
        k = rng.choice([2, 2, 3])
        for j in range(k):
            ns = rng.random() < 0.3
            src, fetch = good(rng, t0, "s%d" % rng.randint(1, 3), ns)
            steps.append(load(src, fetch, ns, rng.choice(["load", "imp"])))
        c = mk("multi", steps, t0)
        if rng.random() < 0.15:
            c["scv"] = False
        out.append(c)
    return out


def fam_fail(rng, t0=T0, reps=1):
    """reload of n<=3 elements in which the k-th fails, for every k, n, failure kind and style; then a good reload"""
    out = []
    for rep in range(reps):
        for n in (1, 2, 3):
            for k in range(n):
                for f in FAIL_KINDS:
                    for ns in (False, True):
                        if ns and f in ("tampered", "wrongkey", "unsigned") and False:
                            continue
                        steps = []
                        for j in range(rng.choice([1, 2])):
                            src, fetch = good(rng, t0, "s%d" % (j + 1), False)
                            steps.append(load(src, fetch, False, "load"))
                        items = []
                        for j in range(n):
                            if j == k:
                                items.append(failing(rng, f, t0, "r%d" % (j + 1), ns))
                            else:
                                items.append(good(rng, t0, "r%d" % (j + 1), ns))
                        steps.append(reload_(items, ns))
                        if rng.random() < 0.5:
                            steps.append(reload_([good(rng, t0, "r%d" % (j + 1), ns) for j in range(rng.randint(1, 2))], ns))
                        else:
                            src, fetch = failing(rng, rng.choice(FAIL_KINDS), t0, "s9", False)
                            steps.append(load(src, fetch, rng.random() < 0.3, "imp"))
                        out.append(mk("fail", steps, t0))
    return out


def g_mdq_resp(rng, eid, t0, cert):
    r = rng.random()
    if r < 0.12:
        return {"st": rng.choice(["missing", "http"])}
    if r < 0.18:
        return {"st": rng.choice(["garbage", "wrongroot"])}
    if r < 0.22:
        return raising_group(rng, eid, t0)
    if r < 0.30:       # a usable EntitiesDescriptor answer (the asked entity among others), any signature state
        ids = [eid] + [rng.choice(IDS) for _ in range(rng.choice([0, 1, 2]))]
        rng.shuffle(ids)
        d = {"group": True, "vu": rng.choice([None, None, t0 + 10 ** 6]),
             "ents": [g_ent(rng, i, t0, invalid_ok=rng.random() < 0.2) for i in ids]}
        sig = rng.choice(["valid", "valid", "tampered", "wrongkey", "unsigned"]) if cert else rng.choice(["unsigned", "unsigned", "valid", "wrongkey"])
        return doc_fetch(d, sig, rng.randint(0, 1))
    e = g_ent(rng, eid if rng.random() < 0.85 else rng.choice(IDS), t0, invalid_ok=True)
    d = {"group": False, "vu": None, "ents": [e]}
    if cert:
        sig = rng.choice(["valid", "valid", "valid", "tampered", "wrongkey", "unsigned"])
    else:
        sig = rng.choice(["unsigned", "unsigned", "valid", "wrongkey"])
    return doc_fetch(d, sig, rng.randint(0, 1))


def raising_group(rng, eid, t0):
    """An EntitiesDescriptor answer on which parse() raises (outside what the MDQ code supports): expired
    validUntil (TooOld) or an indexed endpoint without index (MustValueError)."""
    if rng.random() < 0.5:
        e = g_ent(rng, eid, t0, invalid_ok=False)
        return doc_fetch({"group": True, "vu": t0 - 5, "ents": [e]})
    e = {"id": eid, "vu": None, "affil": False, "attrs": [], "regs": [],
         "roles": [{"kind": K_SP, "protos": [SAML2P], "svcs": [[N_ACS, P, g_loc(rng), None]], "keys": [], "acs": []}]}
    return doc_fetch({"group": True, "vu": None, "ents": [e]})


def fam_mdq(rng, n, t0=T0):
    out = []
    for i in range(n):
        cert = rng.random() < 0.6
        period = rng.choice([43200, 43200, 3600])
        steps = [{"op": "server", "tbl": [[e, g_mdq_resp(rng, e, t0, cert)] for e in IDS if rng.random() < 0.85]}]
        pos = rng.choice(["only", "first", "last"])
        mdq = load(g_src(rng, "mdq", "q1", cert=cert, period=period), {"st": "missing"}, False, rng.choice(["load", "imp"]))
        if pos == "last":
            src, fetch = good(rng, t0, "s1", False)
            steps.append(load(src, fetch, False, "load"))
        steps.append(mdq)
        if rng.random() < 0.25:       # a second MDQ source (same server) with the other certificate setting / period
            steps.append(load(g_src(rng, "mdq", "q2", cert=not cert, period=rng.choice([43200, 3600, 600])),
                              {"st": "missing"}, False, rng.choice(["load", "imp"])))
        if pos == "first":
            src, fetch = good(rng, t0, "s1", False)
            steps.append(load(src, fetch, False, "load"))
        for _ in range(rng.choice([1, 2, 2, 3])):
            steps.append({"op": "tick", "dt": rng.choice([100, period - 100, period + 1, period + 1, 2 * period])})
            if rng.random() < 0.7:
                steps.append({"op": "server", "tbl": [[e, g_mdq_resp(rng, e, t0, cert)] for e in IDS if rng.random() < 0.85]})
        c = mk("mdq", steps, t0)
        if rng.random() < 0.15:
            c["scv"] = False          # an MDQ source has no validity switch: nothing may change
        out.append(c)
    return out


def _idp_ent(eid, loc, binding):
    return {"id": eid, "vu": None, "affil": False, "attrs": [], "regs": [],
            "roles": [{"kind": K_IDP, "protos": [SAML2P], "svcs": [[N_SSO, binding, loc, None]],
                       "keys": [["signing", "idp"]], "acs": []}]}


def _single(e, sig="unsigned", tamper=0):
    return doc_fetch({"group": False, "vu": None, "ents": [e]}, sig, tamper)


def fam_witness(t0=T0):
    """The histories of C11/Facts.v (witness1..6: one per finding class; good_history: the non-vacuity example),
    run on the real store."""
    rng = None
    a = _idp_ent("urn:e1", "https://a.example.org/sso", R)
    b = _idp_ent("urn:e1", "https://b.example.org/sso", P)
    inl = lambda: g_src(rng, "inline", "s1")
    mdq = lambda cert: load(g_src(rng, "mdq", "q1", cert=cert, period=3600), {"st": "missing"}, False, "load")
    uni = ["urn:e1", "urn:e2", "urn:e3", "urn:e4"]
    two = [load(inl(), _single(a)), load(inl(), _single(b))]
    out = [
        mk("witness", two, t0, uni),                                                             # 1, 2
        mk("witness", [load(g_src(rng, "remote", "s1", cert=True), _single(a))], t0, uni),       # 3
        mk("witness", [{"op": "server", "tbl": [["urn:e1", _single(a, "tampered")]]}, mdq(True)], t0, uni),   # 4
        mk("witness", [{"op": "server", "tbl": [["urn:e1", {"st": "garbage"}]]}, mdq(False), load(inl(), _single(a))], t0, uni),  # 5
        mk("witness", [load(g_src(rng, "inline", "s1", cert=True), _single(a, "tampered"), True, "imp")], t0, uni),   # 6
    ]
    inel = {"id": "urn:e1", "vu": None, "affil": False, "attrs": [], "regs": [],
            "roles": [{"kind": K_IDP, "protos": [SAML11P], "svcs": [[N_SSO, R, "https://old.example.org/sso", None]],
                       "keys": [], "acs": []}]}
    out.append(mk("witness", [                                                                     # 4b
        {"op": "server", "tbl": [["urn:e1", _single(inel, "valid")]]}, mdq(True),
        {"op": "server", "tbl": [["urn:e2", _single(_idp_ent("urn:e1", "https://evil.example.org/sso", R), "tampered")]]},
        {"op": "tick", "dt": 10}], t0, ["urn:e1", "urn:e2"]))
    out.append(mk("witness", [                                                                     # 7
        {"op": "server", "tbl": [["urn:e1", doc_fetch({"group": True, "vu": t0 - 5, "ents": [a]})]]}, mdq(False),
        load(inl(), _single(a))], t0, uni))
    sp = {"id": "urn:e2", "vu": t0 + 100000, "affil": False,
          "attrs": [[ENTITY_CATEGORY, ["http://cat.example.org/1"]]],
          "regs": [{"auth": "http://ra1.example.org", "inst": None, "pols": [["en", "http://ra.example.org/pol1"]]}],
          "roles": [{"kind": K_SP, "protos": [SAML11P, SAML2P], "svcs": [[N_ACS, P, "https://sp.example.org/acs", "0"]],
                     "keys": [[None, "sp"]], "acs": [["1", [["mail", "true"], ["cn", None]]]]},
                    {"kind": K_SP, "protos": [SAML11P], "svcs": [[N_ACS, P, "https://sp.example.org/acs11", "0"]],
                     "keys": [], "acs": []}]}
    grp = doc_fetch({"group": True, "vu": None, "ents": [sp, _idp_ent("urn:e3", "https://c.example.org/sso", R)]})
    e4 = _idp_ent("urn:e4", "https://d.example.org/sso", R)
    out.append(mk("witness", [
        load(inl(), _single(a)), load(g_src(rng, "file", "s2"), grp),
        reload_([(g_src(rng, "remote", "s1", cert=True), _single(a, "tampered"))]),
        {"op": "server", "tbl": [["urn:e4", _single(e4, "valid")]]}, mdq(True),
        {"op": "tick", "dt": 3601}, {"op": "server", "tbl": []}], t0, uni))
    for c in out:
        c["order"] = []          # the witnesses are stated for the listed order
    return out


def fam_cold(rng, n, t0=T0):
    """Cold MDQ entities met FIRST by a service / certs / keys / with_descriptor lookup: MDQ only, MDQ before a
    static source that has the same ids with other endpoints, MDQ after one; clean single-EntityDescriptor answers
    for every id, then a tick past the freshness period (cold again).  Orders: "service first" and permutations."""
    out = []
    for i in range(n):
        cert = rng.random() < 0.4
        period = 3600
        tbl = [[e, _single(g_ent(rng, e, t0, invalid_ok=False, vu_choices=[None]), "valid" if cert else "unsigned")] for e in IDS]
        steps = [{"op": "server", "tbl": tbl}]
        mdq = load(g_src(rng, "mdq", "q1", cert=cert, period=period), {"st": "missing"}, False, "load")
        pos = ["only", "first", "last"][i % 3]
        stat = lambda: load(g_src(rng, rng.choice(["inline", "file"]), "s1"),
                            doc_fetch({"group": True, "vu": None, "ents": [g_ent(rng, e, t0, False, [None]) for e in IDS]}))
        if pos == "last":
            steps.append(stat())
        steps.append(mdq)
        if pos == "first":
            steps.append(stat())
        steps.append({"op": "tick", "dt": period + 1})
        c = mk("cold", steps, t0)
        c["order"] = order_service_first(c["universe"]) if i % 2 == 0 else order_random(rng, c["universe"])
        out.append(c)
    return out


def fam_cv(t0=T0):
    """Validity checking, complete product: source kind x route (load() / imp() with a dictionary / list-style item) x
    the source's own check_validity {key ABSENT, True, False} (remote dictionaries only - no other specification
    has the key) x the store's check_validity {on (default), off} x document {an EntitiesDescriptor with an expired,
    a current and an undated entity; a single expired EntityDescriptor; an EntitiesDescriptor past its own
    validUntil, loaded through the same source key after a usable document}.  Every history ends with a reload() of the same specification (reload
    always goes through imp(), so the store-wide switch reaches a dictionary that load() had been given directly)."""
    rng = __import__("random").Random(1105)
    out = []
    routes = [("load", False), ("imp", False), ("imp", True)]
    for kind in ("remote", "inline", "file"):
        for api, ns in routes:
            cvs = (None, True, False) if kind == "remote" and not ns else (None,)
            for cv, scv, shape in itertools.product(cvs, (True, False), ("mixed", "single", "oldgroup")):
                def ents(vus):
                    es = [g_ent(rng, e, t0, invalid_ok=False, vu_choices=[vu]) for e, vu in zip(IDS, vus)]
                    for e in es:
                        e["roles"][0]["protos"] = [SAML2P]      # something to serve in every descriptor
                    return es
                steps = []
                if shape == "mixed":
                    vus = [t0 - rng.choice([1, 1000, 10 ** 6]), t0 + 1000, None]
                    order = [0, 1, 2]
                    rng.shuffle(order)
                    es = ents(vus)
                    d = {"group": True, "vu": rng.choice([None, t0 + 5000]), "ents": [es[i] for i in order]}
                elif shape == "single":
                    d = {"group": False, "vu": None, "ents": ents([t0 - rng.choice([1, 1000])])[:1]}
                else:
                    # the SAME source (key) is loaded first with a usable document: the failing refresh below must
                    # leave that data in effect
                    steps.append(load(g_src(None, kind, "s1", cv=cv), doc_fetch(
                        {"group": True, "vu": None, "ents": ents([None, t0 - 50])[:2]}), ns, api))
                    d = {"group": True, "vu": t0 - rng.choice([1, 5, 10 ** 5]), "ents": ents([None, None, t0 + 99])}
                src = g_src(None, kind, "s1", cv=cv)
                steps.append(load(src, doc_fetch(d), ns, api))
                steps.append(reload_([(src, doc_fetch(d))], ns))
                c = mk("cv", steps, t0)
                c["scv"] = scv
                out.append(c)
    # an MDQ source has no validity switch at all: expired answers are never served, whatever the store says
    for scv, api, form in itertools.product((True, False), ("load", "imp"), ("dict", "pos")):
        tbl = [[e, _single(g_ent(rng, e, t0, invalid_ok=False, vu_choices=[vu]))] for e, vu in zip(IDS, [t0 - 7, None, t0 + 500])]
        src = dict(g_src(None, "mdq", "q1", period=3600 if form == "dict" else 43200), form=form)
        c = mk("cv", [{"op": "server", "tbl": tbl}, load(src, {"st": "missing"}, False, api), {"op": "tick", "dt": 600}], t0)
        c["scv"] = scv
        out.append(c)
    return out


def fam_zone():
    """The process time zone.  (1) Zones with daylight saving (both hemispheres, a half-hour one), MDQ source with
    freshness period p in {10 min, 1 h, 12 h}, the first fetch at t0 with t0 + p just before / at the start of / in
    the middle of / at the last second of / just after the stretch of UTC readings that the local calendar skips;
    the server's answers change, the clock goes to p + 1 s (the entry has run out) and on by the length of the
    shift.  (2) Fixed-offset zones on both sides of UTC (incl. +14, -12, +5:45): MDQ and static histories with
    validUntil one second before / at / after now."""
    rng = __import__("random").Random(1108)
    out = []

    def table(t0):
        es = [g_ent(rng, e, t0, invalid_ok=False, vu_choices=[None]) for e in IDS]
        for e in es:
            e["roles"][0]["protos"] = [SAML2P]
        return [[e["id"], _single(e)] for e in es]

    def edge_doc(t0):
        es = [g_ent(rng, e, t0, invalid_ok=False, vu_choices=[vu]) for e, vu in zip(IDS, [t0 - 1, t0, t0 + 1])]
        for e in es:
            e["roles"][0]["protos"] = [SAML2P]
        return doc_fetch({"group": True, "vu": rng.choice([None, t0, t0 + 1]), "ents": es})

    for tz in ZONES_DST:
        a, ln, sh = year_gap(tz)
        for p in (600, 3600, 43200):
            for at in (a - 1, a, a + ln // 2, a + ln - 1, a + ln):
                t0 = at - p
                steps = []
                if rng.random() < 0.5:
                    steps.append(load(g_src(None, rng.choice(["inline", "file", "remote"]), "s1"), edge_doc(t0), False, "load"))
                steps += [{"op": "server", "tbl": table(t0)},
                          load(g_src(None, "mdq", "q1", period=p), {"st": "missing"}, False, rng.choice(["load", "imp"])),
                          {"op": "server", "tbl": table(t0)},
                          {"op": "tick", "dt": p + 1}, {"op": "tick", "dt": sh}]
                c = set_zone(mk("zone", steps, t0), tz)
                c["order"] = []
                out.append(c)
    for i, tz in enumerate(ZONES_FIXED):
        for j in range(3):
            t0 = T0 + rng.choice([0, 40000, 86400 * 200])
            steps = [load(g_src(None, ["inline", "file", "remote"][(i + j) % 3], "s1"), edge_doc(t0), False, "load"),
                     {"op": "server", "tbl": table(t0)},
                     load(g_src(None, "mdq", "q1", period=3600), {"st": "missing"}, False, "load"),
                     {"op": "server", "tbl": table(t0)},
                     {"op": "tick", "dt": rng.choice([3600, 3601])}, {"op": "tick", "dt": 1}]
            out.append(set_zone(mk("zone", steps, t0), tz))
    return out


def assign_zones(cases):
    """a seeded share of the histories of the other families runs in a zone other than UTC (a PRNG of its own:
    the histories themselves are not touched)"""
    rng = __import__("random").Random(1109)
    for c in cases:
        if "tz" not in c and rng.random() < 0.2:
            set_zone(c, rng.choice(ZONES_FIXED + ZONES_DST))
    return cases


# ---- protocolSupportEnumeration as WRITTEN (round 6) ------------------------------------------------------------
SHIB10P = "urn:mace:shibboleth:1.0"
# URIs that are NOT the SAML 2.0 protocol name although they contain it / differ from it by letter case / are a
# part of it: a role that lists only such names (and other protocols) does not support SAML 2.0
NEAR_MISSES = [
    SAML2P + ":ext:legacy-gateway", SAML2P + "-draft-07", SAML2P + "/", SAML2P + "#", SAML2P + ".",
    "http://profiles.example.org/gateway#" + SAML2P, "x" + SAML2P, "urn:x:" + SAML2P + ":y",
    SAML2P.upper(), SAML2P.lower(), "URN:" + SAML2P[4:], SAML2P[:-1], "urn:oasis:names:tc:SAML:2.0",
    "urn:oasis:names:tc:SAML:2.0:assertion", "urn:oasis:names:tc:SAML:2.0:metadata", SAML2P + SAML2P,
    SAML2P + "," + SAML11P, SAML11P + ";" + SAML2P]
OTHER_PROTOS = [SAML11P, SAML10P, SHIB10P, "urn:x:proto"]
# separators INSIDE the value: one blank, several blanks, and the white space that only a character reference
# can put there (tab, line feed, carriage return: the items are still separate items, finding C11-F9, fixed by 9be4974e)
VALUE_SEPS = [" "] * 9 + ["  "] * 3 + ["   ", "\t", "\n", "\r", " \n ", "\r\n"]
# how a blank of the value is WRITTEN in the document (the parser turns each into one blank)
BLANK_SPELLINGS = [[" "], ["\t"], ["\n"], ["\r\n"], ["\r"], ["\n", "\t", " "]]


def g_pse(rng):
    """A seeded enumeration value with its spelling: 1-4 names drawn from the SAML 2.0 name, the other protocols and
    the near misses (repeats allowed), joined by the separators above, now and then with a blank in front / behind."""
    n = rng.choice([1, 1, 2, 2, 2, 3, 4])
    names = []
    for _ in range(n):
        x = rng.random()
        names.append(SAML2P if x < 0.3 else rng.choice(OTHER_PROTOS) if x < 0.55 else rng.choice(NEAR_MISSES))
    v = names[0]
    for name in names[1:]:
        v += rng.choice(VALUE_SEPS) + name
    if rng.random() < 0.15:
        v = " " + v
    if rng.random() < 0.15:
        v += rng.choice([" ", "  ", "\n", "\t"])
    return v, list(rng.choice(BLANK_SPELLINGS))


def _roles_of_case(case):
    for s in case["steps"]:
        fs = [s["fetch"]] if s["op"] == "load" else [f for _x, f in s["items"]] if s["op"] == "reload" else \
            [f for _e, f in s["tbl"]] if s["op"] == "server" else []
        for f in fs:
            if f.get("st") == "doc":
                for e in f["doc"]["ents"]:
                    for r in e["roles"]:
                        yield r


def assign_enumerations(cases):
    """a seeded share of the role descriptors of the random families gets its enumeration spelled out as a value
    (a PRNG of its own: the histories are otherwise untouched)"""
    rng = __import__("random").Random(1111)
    seen = set()
    for c in cases:
        if c["tag"] not in ("doc", "multi", "fail", "mdq", "cold"):
            continue
        for r in _roles_of_case(c):
            if id(r) in seen:
                continue
            seen.add(id(r))
            if rng.random() < 0.2:
                r["pse"], r["sep"] = g_pse(rng)
    return cases


def fam_pse(t0=T0):
    """protocolSupportEnumeration, systematically.  Per value: an EntitiesDescriptor with
      urn:e1 = an IdP role with THE VALUE (endpoint, signing key) + an SP role that lists SAML 2.0,
      urn:e2 = nothing but an IdP role with the value (served at all only if the value lists SAML 2.0),
      urn:e3 = an IdP role with the value, a second IdP role "SAML 1.1, SAML 2.0" and an AA role with the value,
    loaded as inline text / local file / remote document (in turn), then the three entities as MDQ answers of a
    second store-less history.  Values: (a) every near miss alone, after SAML 1.1, before SAML 1.1; (b) lists that DO
    contain the name - alone, first, last, in the middle, twice - with every separator (one / several blanks, tab,
    line feed, carriage return by character reference), with blanks in front / behind, and with the blanks written
    as literal tabs / line breaks; (c) other protocols only."""
    rng = __import__("random").Random(1112)
    out = []

    def role(kind, pse, sep, loc, key):
        name = MANDATORY[kind]
        return {"kind": kind, "pse": pse, "sep": sep, "svcs": [[name, R if kind == K_IDP else S, loc, None]],
                "keys": [["signing", key]] if key else [], "acs": []}

    def ents(pse, sep, n):
        sp = {"kind": K_SP, "protos": [SAML2P], "svcs": [[N_ACS, P, "https://h1.example.org/%d" % (n % 40 + 1), "0"]],
              "keys": [["encryption", "sp"]], "acs": []}
        good = {"kind": K_IDP, "pse": SAML11P + " " + SAML2P, "sep": sep,
                "svcs": [[N_SSO, R, "https://h3.example.org/%d" % (n % 40 + 1), None]], "keys": [[None, "idp2"]], "acs": []}
        base = {"vu": None, "affil": False, "attrs": [], "regs": []}
        return [dict(base, id="urn:e1", roles=[role(K_IDP, pse, sep, "https://h2.example.org/1", "idp"), sp]),
                dict(base, id="urn:e2", roles=[role(K_IDP, pse, sep, "https://h2.example.org/2", "other")]),
                dict(base, id="urn:e3", roles=[role(K_IDP, pse, sep, "https://h2.example.org/3", "idpenc"), good,
                                               role(K_AA, pse, sep, "https://h2.example.org/4", None)])]

    values = []
    for m in NEAR_MISSES:
        values += [(m, [" "]), (SAML11P + " " + m, [" "]), (m + " " + SAML11P, [" "])]
    for sepv in [" ", "  ", "   ", "\t", "\n", "\r", "\r\n", " \t"]:
        values += [(SAML11P + sepv + SAML2P, [" "]), (SAML2P + sepv + SAML11P, [" "]),
                   (SAML10P + sepv + SAML2P + sepv + SHIB10P, [" "])]
    for sp_ in BLANK_SPELLINGS[1:]:
        values += [(SAML11P + " " + SAML2P, sp_), (SAML2P + " " + SAML10P + " " + SAML11P, sp_),
                   (SAML11P + " " + NEAR_MISSES[0], sp_)]
    values += [(" " + SAML2P, [" "]), (SAML2P + " ", [" "]), ("  " + SAML2P + "  ", ["\n"]), (SAML2P + "\n", [" "]),
               ("\t" + SAML2P, [" "]), (SAML2P + " " + SAML2P, [" "]), (SAML2P + " " + SAML11P + " " + SAML2P, [" "]),
               (SAML11P, [" "]), (SAML10P + " " + SAML11P + " " + SHIB10P, [" "]), (SHIB10P + "\n" + SAML11P, [" "])]
    kinds = ["inline", "file", "remote"]
    for n, (pse, sep) in enumerate(values):
        es = ents(pse, sep, n)
        if n % 4 == 3:          # the same through an MDQ source: one EntityDescriptor per answer
            steps = [{"op": "server", "tbl": [[e["id"], _single(e)] for e in es]},
                     load(g_src(None, "mdq", "q1", period=3600), {"st": "missing"}, False, "load")]
        else:
            group = n % 2 == 0
            if group:
                steps = [load(g_src(None, kinds[n % 3], "s1"), doc_fetch({"group": True, "vu": None, "ents": es}),
                              False, ["load", "imp"][(n // 2) % 2])]
            else:               # three single documents, three sources
                steps = [load(g_src(None, kinds[(n + i) % 3], "s%d" % (i + 1)), _single(e), False, "load")
                         for i, e in enumerate(es)]
        c = mk("pse", steps, t0)
        c["order"] = [] if n % 3 == 0 else order_service_first(c["universe"]) if n % 3 == 1 else order_random(rng, c["universe"])
        out.append(c)
    return out


def generate(ctx):
    rng = ctx.rng
    big = ctx.thorough
    cases = []
    cases += fam_witness()
    cases += fam_sig()
    cases += fam_cv()
    cases += fam_zone()
    cases += fam_pse()
    cases += fam_doc(rng, 1500 if big else 250)
    cases += fam_multi(rng, 1200 if big else 200)
    cases += fam_fail(rng, reps=4 if big else 1)
    cases += fam_mdq(rng, 1200 if big else 220)
    cases += fam_cold(rng, 240 if big else 60)
    assign_orders(rng, cases)
    assign_zones(cases)
    assign_enumerations(cases)
    rng.shuffle(cases)            # balances the Coq shards
    return cases


def _shape(a):
    t = a[0]
    if t in ("S", "C", "T", "Y", "W"):
        return t + str(min(len(a[1]), 3))
    if t == "D":
        return "D%d" % min(len(a[1]), 3)
    if t == "F":
        return "F%d" % a[1]
    return t


def nontrivial(case, obs):
    kinds = []
    for s in case["steps"]:
        if s["op"] == "load":
            kinds.append((s["src"]["kind"], s["ns"], s.get("api"), s["src"]["cert"], s["src"]["cv"], s["fetch"]["st"],
                          s["fetch"].get("sig")))
        elif s["op"] == "reload":
            kinds.append(tuple((x["kind"], x["cert"], x["cv"], f["st"], f.get("sig")) for x, f in s["items"]))
        else:
            kinds.append(s["op"])
    shapes = {}
    for st in obs["steps"]:
        for a in st:
            k = _shape(a)
            shapes[k] = shapes.get(k, 0) + 1
    if set(shapes) <= {"U", "K", "N", "T0", "G", "Y0", "W0", "F0", "F1"}:
        return None
    return [case["tag"], bool(case.get("scv", True)), case.get("tz"), kinds, sorted(shapes.items())]


def histogram(cases, observed):
    h = {"by_tag": {}, "ops": {}, "source_kinds": {}, "sig_states": {}, "fetch_states": {}, "flags": {"ok": 0, "raised": 0},
         "answer_shapes": {}, "steps": 0, "answers": 0, "docs": {"single": 0, "group": 0}, "entities_per_group": {},
         "check_validity_spelled": {}, "store_check_validity": {"on": 0, "off": 0}, "optional_key_spellings": {},
         "enumeration_values": {"as list of the usual names": 0, "spelled value": 0, "... with a near miss of the SAML 2.0 name": 0,
                                "... with tab / LF / CR between names": 0, "... with several blanks": 0,
                                "... blanks written as tab / line break": 0, "... the SAML 2.0 name more than once": 0}}
    seen_roles = set()
    for c, o in zip(cases, observed):
        for r in _roles_of_case(c):
            if id(r) in seen_roles:
                continue
            seen_roles.add(id(r))
            ev = h["enumeration_values"]
            if r.get("pse") is None:
                ev["as list of the usual names"] += 1
                continue
            ev["spelled value"] += 1
            v = r["pse"].strip()
            items = v.split()
            ev["... with a near miss of the SAML 2.0 name"] += any(x in NEAR_MISSES for x in items)
            ev["... with tab / LF / CR between names"] += any(ch in v for ch in "\t\n\r")
            ev["... with several blanks"] += "  " in v
            ev["... blanks written as tab / line break"] += (r.get("sep") or [" "]) != [" "] and " " in v
            ev["... the SAML 2.0 name more than once"] += items.count(SAML2P) > 1
        h["by_tag"][c["tag"]] = h["by_tag"].get(c["tag"], 0) + 1
        h["store_check_validity"]["on" if c.get("scv", True) else "off"] += 1
        z = h.setdefault("zones", {})
        z[c.get("tz") or "UTC0"] = z.get(c.get("tz") or "UTC0", 0) + 1
        if c.get("gaps"):
            h["histories_with_a_gap_in_reach"] = h.get("histories_with_a_gap_in_reach", 0) + 1
        for s in c["steps"]:
            h["ops"][s["op"]] = h["ops"].get(s["op"], 0) + 1
            items = [(s["src"], s["fetch"])] if s["op"] == "load" else (s["items"] if s["op"] == "reload" else [])
            if s["op"] == "server":
                items = [({"kind": "mdq-answer"}, f) for _e, f in s["tbl"]]
            for src, f in items:
                h["source_kinds"][src["kind"]] = h["source_kinds"].get(src["kind"], 0) + 1
                if src["kind"] == "remote" and not s.get("ns"):
                    k = "absent" if src["cv"] is None else str(bool(src["cv"]))
                    h["check_validity_spelled"][k] = h["check_validity_spelled"].get(k, 0) + 1
                for k in ("cert_sp", "form", "period_sp"):
                    if src.get(k):
                        kk = "%s=%s" % (k, src[k])
                        h["optional_key_spellings"][kk] = h["optional_key_spellings"].get(kk, 0) + 1
                h["fetch_states"][f["st"]] = h["fetch_states"].get(f["st"], 0) + 1
                if f["st"] == "doc":
                    key = "%s/cert=%s" % (f.get("sig"), src.get("cert"))
                    h["sig_states"][key] = h["sig_states"].get(key, 0) + 1
                    d = f["doc"]
                    h["docs"]["group" if d["group"] else "single"] += 1
                    if d["group"]:
                        n = str(len(d["ents"]))
                        h["entities_per_group"][n] = h["entities_per_group"].get(n, 0) + 1
        for st in o["steps"]:
            h["steps"] += 1
            for a in st:
                h["answers"] += 1
                k = a[0]
                if k == "F":
                    h["flags"]["ok" if a[1] else "raised"] += 1
                h["answer_shapes"][k] = h["answer_shapes"].get(k, 0) + 1
    return h
