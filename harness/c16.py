"""C16 — encrypted assertions stay confidential and recoverable only by the recipient.

Every case runs the REAL saml2.server.Server (create_authn_response, or Entity._response called the way
Server._authn_response calls it, with a hand-built Advice) against the xmlsec1 stand-in (real RSA-OAEP / 3DES-CBC),
then feeds the wire form to REAL Saml2Clients holding different decryption keys.  Observed per case:

  * the wire as an abstract term (independent reader: xml.etree + trial decryption with every fixture key),
  * which secret marker values occur in the wire bytes (raw byte search, no parsing),
  * for each recipient trial (key set, signature policy, optionally damaged ciphertext) the identity obtained.

Coq evaluates model = implementation (wire term and every recipient's result) and the property on the observed data.
"""
import ast
import base64
import copy
import itertools
import json
import os
import random
import re
import tempfile
import xml.etree.ElementTree as ET

from harness import env, fixtures, spaccept, world
from harness.common import Raw, cq, cq_opt

PID = "C16"
PARALLEL = 6
IMPORTS = "From Verif Require Import C16.Model C16.Spec C16.Corr."
CASE_TYPE = "C16.Corr.case"
RUNNER = "C16.Corr.run"
FINDING_CLASSES = {1: "C16-F1", 2: "C16-F2", 3: "C16-F3"}
RULE = ("complete product sign_response x sign_assertion x encrypt_assertion x encrypted_advice_attributes x "
        "encrypt_assertion_self_contained x pefim (64) x 15 certificate sources (metadata KeyDescriptors with use "
        "encryption / unspecified / signing, one or two certificates in both orders, an unusable certificate before a "
        "usable one / alone, none; explicit encrypt_cert_assertion / encrypt_cert_advice, equal, different, unusable, "
        "incl. advice for a per-request certificate with the assertion for the metadata certificate) through Server.create_authn_response = 960 cells; Entity._response (called as Server._authn_response calls it) "
        "with a hand-built Advice of 1 or 2 assertions x the same 64 flag combinations x 1-2 certificate sources, and 32 "
        "seeded flag combinations each for: no certificate, advice assertion without Issuer, empty Advice (thorough: "
        "5 advice shapes x 22 certificate sources x 64); seeded random widening of both entries (advice of 0-3); identities are random marker values (1-4 attributes, 1-2 "
        "values); OPTION SOURCES through the public API: each of sign_response / sign_assertion / encrypt_assertion / "
        "encrypted_advice_attributes / encrypt_assertion_self_contained passed as True / False / None or not passed x "
        "absent from / True / False / \"true\" / \"false\" in the IdP configuration (20 states per option): "
        "encrypt_assertion completely x pefim with the other options seeded random (thorough: every option completely x "
        "4 certificate sources), Server.create_authn_request_response (sign flags by argument, encryption only through "
        "the configuration) x 5 configuration states, seeded random widening of all five options x certificate source x "
        "pefim x API; the spec is evaluated on what the call REQUESTS (argument, else configuration, else documented "
        "default: Spec.requested), the model on what the code gathers (Model.gather).  Every wire form is given to 5 recipients: configured key {sp}; two key pairs, either both configured "
        "(rotation, either order) or one configured and one supplied per request through outstanding_certs (filed under "
        "the Response's InResponseTo or under another id); a wrong key or no key; the matching keys (configured / split "
        "configured + per-request) with a damaged ciphertext (bit flip in the encrypted key / first ciphertext byte / "
        "last ciphertext byte / truncation), and a random key set, under random want_response_signed / "
        "want_assertions_signed.  Finding classes: 1 (early return, fixed 316cbbe5) and 2 (double pre_encrypt_assertion, "
        "fixed a5d8e540) are recognised as regressions, 3 (Advice with >= 2 assertions) is open.  non-trivial = distinct "
        "(entry, flags, certificate source, advice shape) cells in which encryption was requested")
TRUSTED = ["xmlsec1 stand-in (harness/standin/xmlsec1.py: real RSA-OAEP + 3DES/AES-CBC, sign/verify)",
           "abstraction harness/c16.py:abstract_wire (xml.etree reader + trial decryption with every fixture key)",
           "marker search in the wire bytes (raw substring search)",
           "translator harness/py2coq2.py + coq/theories/Base/Py2.v (source text -> Gallina, fail-closed; not modelled: "
           "aliasing of mutable objects, set order, Unicode case mapping, generators' laziness), used by "
           "harness/c16.py:regenerate_tables for entity.py:Entity.has_encrypt_cert_in_metadata, "
           "server.py:Server._authn_response, sigver.py:SecurityContext.decrypt, "
           "response.py:AuthnResponse.find_encrypt_data_assertion, response.py:AuthnResponse.find_encrypt_data, "
           "response.py:AuthnResponse.decrypt_assertions, response.py:AuthnResponse._assertion, "
           "sigver.py:pre_encrypt_assertion, sigver.py:CryptoBackendXmlSec1.encrypt_assertion (coq/gen/C16Src2.v; "
           "theorems c16_source2_*); harness/c16.py:option_tables (AST of saml2/server.py -> coq/gen/C16Tables.v: signature "
           "defaults of create_authn_response, param_defaults / precedence chain / configuration context of "
           "gather_authn_response_args, options forwarded by create_authn_request_response; theorem "
           "c16_option_defaults_from_source); the reading of \"requested\" for options left to the configuration "
           "(Spec.requested, harness/c16.py:asked: argument, else IdP configuration, else documented default); the translation specs of harness/c16.py:source2_items: external calls as extra "
           "arguments, itertools.chain(a, b) read as list(a) + list(b), the effect of "
           "assertion.advice.assertion.append / encrypted_assertion.add_extension_element(s) on their receiver is "
           "external (two-level attribute path), exception class parents EXC_PARENTS"]
ASSUMPTIONS = ["encryption is ideal: a ciphertext opens only with the private key of the certificate it was made for and "
               "any damage makes it unopenable (CBC malleability of XML-Enc and side channels are out of scope; the "
               "damaged-ciphertext cases use damage that deterministically breaks RSA-OAEP, the padding or the XML)",
               "everything else about the exchange is valid (status, times, audience, InResponseTo, IdP signing key known "
               "to the SP); want_assertions_or_response_signed is off",
               "attribute names inside one Response are distinct (AuthnResponse.get_identity merges with dict.update)",
               "the SP is listed in the IdP's metadata (has_encrypt_cert_in_metadata raises KeyError otherwise)"]

NOW = spaccept.NOW
NS_A = "{urn:oasis:names:tc:SAML:2.0:assertion}"
NS_P = "{urn:oasis:names:tc:SAML:2.0:protocol}"
NS_DS = "{http://www.w3.org/2000/09/xmldsig#}"
NS_XENC = "{http://www.w3.org/2001/04/xmlenc#}"
A_ELEM = "urn:oasis:names:tc:SAML:2.0:assertion:Assertion"
R_ELEM = "urn:oasis:names:tc:SAML:2.0:protocol:Response"
AUTHN = {"class_ref": "urn:oasis:names:tc:SAML:2.0:ac:classes:Password", "authn_auth": "https://idp.example.org/"}
ATTR_POOL = ["mail", "givenName", "sn", "cn", "uid", "title", "displayName", "o", "ou", "telephoneNumber",
             "street", "l", "postalCode", "initials"]
BAD = "BAD"
# valid base64, not a certificate
BAD_B64 = base64.b64encode(b"this is not an X.509 certificate, only some bytes that happen to be base64 " * 3).decode()
KEYNAMES = ["sp", "spenc2", "other", "attacker", "idpenc", "idp", "idp2"]

FLAGS = ["sr", "sa", "ea", "eadv", "sc", "pefim"]

# (metadata KeyDescriptors [(cert, use)], encrypt_cert_assertion, encrypt_cert_advice)
CERT_SOURCES = [
    ([("sp", "encryption")], None, None),
    ([("sp", None)], None, None),
    ([("sp", "signing")], None, None),
    ([], None, None),
    ([("sp", "signing")], "sp", None),
    ([("sp", "signing")], None, "sp"),
    ([("sp", "signing")], "sp", "spenc2"),
    ([("sp", "encryption"), ("spenc2", "encryption")], None, None),
    ([("spenc2", "encryption"), ("sp", "encryption")], None, None),
    ([(BAD, "encryption"), ("sp", "encryption")], None, None),
    ([(BAD, "encryption")], None, None),
    ([("sp", "encryption")], "spenc2", None),
    ([("sp", "encryption")], BAD, None),
    ([("sp", "signing"), ("spenc2", "encryption")], None, None),
    ([("sp", "encryption")], None, "spenc2"),   # advice for a per-request certificate, assertion for the metadata one
]
EXTRA_SOURCES = [
    ([("sp", "encryption")], None, BAD),
    ([], "sp", "sp"),
    ([], None, "spenc2"),
    ([("other", "encryption")], None, None),
    ([(BAD, None), (BAD, "encryption"), ("spenc2", None)], None, None),
    ([("spenc2", "encryption")], "sp", "sp"),
    ([("sp", "signing"), ("spenc2", "signing")], None, None),
]


# ------------------------------------------------------------------------------------ source tie (translator v2)
# exception classes of saml2.sigver / saml2.response that the translated functions raise or catch (name -> ancestors)
EXC_PARENTS = {
    "SAMLError": ["Exception"],
    "SigverError": ["SAMLError", "Exception"],
    "XmlsecError": ["SigverError", "SAMLError", "Exception"],
    "DecryptError": ["XmlsecError", "SigverError", "SAMLError", "Exception"],
    "EncryptError": ["XmlsecError", "SigverError", "SAMLError", "Exception"],
    "SignatureError": ["XmlsecError", "SigverError", "SAMLError", "Exception"],
    "VerificationError": ["SAMLError", "Exception"],
}
# keyword arguments of Entity._response as Server._authn_response passes them, in the order of the argument list
# the translated call hands to the external function response_ext (after the 6 positional arguments)
RESPONSE_KW = ["sp_entity_id", "encrypt_assertion", "encrypt_cert_advice", "encrypt_cert_assertion",
               "encrypt_assertion_self_contained", "encrypted_advice_attributes", "sign_assertion", "pefim", "sign_alg",
               "digest_alg", "assertion"]
AUTHN_RESPONSE_PARAMS = [
    "self", "in_response_to", "consumer_url", "sp_entity_id", "identity", "name_id", "status", "authn", "issuer", "policy",
    "sign_assertion", "sign_response", "best_effort", "encrypt_assertion", "encrypt_cert_advice", "encrypt_cert_assertion",
    "authn_statement", "encrypt_assertion_self_contained", "encrypted_advice_attributes", "pefim", "sign_alg", "digest_alg",
    "farg", "session_not_on_or_after"]


def _fixed_kw(name, expected, kw):
    if sorted(kw) != sorted(expected):
        from harness import py2coq2
        raise py2coq2.Untranslatable("%s: keyword arguments %s, expected %s" % (name, sorted(kw), sorted(expected)))


def _call_response(a, kw):
    from harness import py2coq2
    _fixed_kw("self._response", RESPONSE_KW, kw)
    if len(a) != 6:
        raise py2coq2.Untranslatable("self._response: %d positional arguments, expected 6" % len(a))
    return "(response_ext (PList [%s]))" % "; ".join(list(a) + [kw[k] for k in RESPONSE_KW])


def _call_setup(a, kw):
    from harness import py2coq2
    if len(a) != 11 or not set(kw) <= {"farg", "session_not_on_or_after"}:
        raise py2coq2.Untranslatable("self.setup_assertion: unexpected argument shape")
    return "(setup_ext (PList [%s]))" % "; ".join(list(a) + [kw.get("farg", "PNone"), kw.get("session_not_on_or_after", "PNone")])


def _call_presig(a, kw):
    _fixed_kw("pre_signature_part", ["sign_alg", "digest_alg"], kw)
    return "(presig_ext (PList [%s]))" % "; ".join(list(a) + [kw["sign_alg"], kw["digest_alg"]])


def _call_check_sig_kw(a, kw):
    from harness import py2coq2
    _fixed_kw("self.sec.check_signature", ["origdoc", "node_name", "issuer"], kw)
    if len(a) != 1:
        raise py2coq2.Untranslatable("self.sec.check_signature: %d positional arguments, expected 1" % len(a))
    return "(check_sig %s %s %s %s)" % (a[0], kw["origdoc"], kw["node_name"], kw["issuer"])


def source2_items():
    """(source file, qualified name, translation spec) of the functions that coq/theories/C16/Source2.v proves equal
    to the model.  External calls (metadata, xmlsec1, XML object construction, other methods) are extra parameters of
    the Gallina definitions; Source2.v states what it assumes about them as Section hypotheses."""
    sdir = os.path.join(env.SRC, "saml2")
    ent, sig, rsp, srv = (os.path.join(sdir, f) for f in ("entity.py", "sigver.py", "response.py", "server.py"))
    find_eda = lambda a: "(src2_find_encrypt_data_assertion v_self %s)" % a[0]  # noqa: E731  (the translated callee itself)
    return [
        (ent, "Entity.has_encrypt_cert_in_metadata", {
            "name": "src2_has_encrypt_cert_in_metadata", "params": ["self", "sp_entity_id"],
            "extra_params": [("certs_ext", "pyval -> pyval -> pyval -> pyval -> pyval")],
            "calls": {"self.metadata.certs": lambda a: "(certs_ext v_self %s %s %s)" % tuple(a)}}),
        (srv, "Server._authn_response", {
            "name": "src2_authn_response", "params": AUTHN_RESPONSE_PARAMS,
            "extra_params": [("issuer_ext", "pyval -> pyval"), ("setup_ext", "pyval -> pyval"), ("advice_ext", "pyval"),
                             ("adv_append", "pyval -> pyval -> pyval"), ("presig_ext", "pyval -> pyval"),
                             ("class_name_ext", "pyval -> pyval"), ("support_aidr", "pyval"), ("support_aq", "pyval"),
                             ("store_ext", "pyval -> pyval -> pyval"), ("response_ext", "pyval -> pyval")],
            "calls": {"self._issuer": lambda a: "(issuer_ext %s)" % a[0], "self.setup_assertion": _call_setup,
                      "saml.Advice": lambda a: "advice_ext",
                      # receiver is a two-level attribute path: the translator cannot rebind it, the effect is external
                      "assertion.advice.assertion.append": lambda a: "(adv_append v_assertion %s)" % a[0],
                      "pre_signature_part": _call_presig, "class_name": lambda a: "(class_name_ext %s)" % a[0],
                      "self.support_AssertionIDRequest": lambda a: "support_aidr",
                      "self.support_AuthnQuery": lambda a: "support_aq",
                      "self.session_db.store_assertion": lambda a: "(store_ext %s %s)" % tuple(a),
                      "self._response": _call_response}}),
        (sig, "SecurityContext.decrypt", {
            "name": "src2_decrypt", "params": ["self", "enctext", "key_file"],
            "extra_params": [("crypto_decrypt", "pyval -> pyval -> pyval")], "exc_parents": EXC_PARENTS,
            # itertools.chain(a, b) consumed by the comprehension: the elements of a followed by those of b
            "calls": {"itertools.chain": lambda a: "(p2_add (p2_list %s) (p2_list %s))" % tuple(a),
                      "self.crypto.decrypt": lambda a: "(crypto_decrypt %s %s)" % tuple(a),
                      "errmsg.format": lambda a, kw: '(PStr "")'}}),
        (rsp, "AuthnResponse.find_encrypt_data_assertion", {
            "name": "src2_find_encrypt_data_assertion", "params": ["self", "enc_assertions"]}),
        (rsp, "AuthnResponse.find_encrypt_data", {
            "name": "src2_find_encrypt_data", "params": ["self", "resp"],
            "calls": {"self.find_encrypt_data_assertion": find_eda}}),
        (rsp, "AuthnResponse.decrypt_assertions", {
            "name": "src2_decrypt_assertions",
            "params": ["self", "encrypted_assertions", "decr_txt", "issuer", "verified"],
            "extra_params": [("ee2e", "pyval -> pyval"), ("check_sig", "pyval -> pyval -> pyval -> pyval -> pyval"),
                             ("class_name_ext", "pyval -> pyval")],
            "exc_parents": EXC_PARENTS, "globals": {"saml": "PNone", "samlp": "PNone"},
            "calls": {"extension_elements_to_elements": lambda a: "(ee2e %s)" % a[0],
                      "self.sec.check_signature": _call_check_sig_kw,
                      "class_name": lambda a: "(class_name_ext %s)" % a[0]}}),
        (rsp, "AuthnResponse._assertion", {
            "name": "src2_assertion", "params": ["self", "assertion", "verified"],
            "extra_params": [("check_sig3", "pyval -> pyval -> pyval -> pyval"), ("class_name_ext", "pyval -> pyval"),
                             ("issuer_ext", "pyval -> pyval"), ("authn_statement_ok_ext", "pyval -> pyval"),
                             ("condition_ok_ext", "pyval -> pyval"), ("get_subject_ext", "pyval -> pyval")],
            "exc_parents": EXC_PARENTS,
            "calls": {"self.sec.check_signature": lambda a: "(check_sig3 %s %s %s)" % tuple(a),
                      "class_name": lambda a: "(class_name_ext %s)" % a[0],
                      "self.issuer": lambda a: "(issuer_ext v_self)",
                      "self.authn_statement_ok": lambda a: "(authn_statement_ok_ext v_self)",
                      "self.condition_ok": lambda a: "(condition_ok_ext v_self)",
                      "self.get_subject": lambda a: "(get_subject_ext v_self)"}}),
        (sig, "pre_encrypt_assertion", {
            "name": "src2_pre_encrypt_assertion", "params": ["response"],
            "extra_params": [("mk_ea", "pyval"), ("add_el", "pyval -> pyval -> pyval"), ("add_els", "pyval -> pyval -> pyval")],
            # the two add_extension_element(s) calls change the new EncryptedAssertion in place (receiver is a
            # two-level attribute path): external effect, the call itself is kept
            "calls": {"EncryptedAssertion": lambda a: "mk_ea",
                      "response.encrypted_assertion.add_extension_elements":
                          lambda a: '(add_els (p2_attr v_response "encrypted_assertion") %s)' % a[0],
                      "response.encrypted_assertion.add_extension_element":
                          lambda a: '(add_el (p2_attr v_response "encrypted_assertion") %s)' % a[0]}}),
        (sig, "CryptoBackendXmlSec1.encrypt_assertion", {
            "name": "src2_xmlsec_encrypt_assertion",
            "params": ["self", "statement", "enc_key", "template", "key_type", "node_xpath", "node_id"],
            "extra_params": [("pre_enc", "pyval -> pyval"), ("make_temp_ext", "pyval -> pyval"), ("to_str", "pyval -> pyval"),
                             ("run_xmlsec", "pyval -> pyval -> pyval"), ("decode_ext", "pyval -> pyval")],
            "exc_parents": EXC_PARENTS, "classes": {"SamlBase": ["SamlBase", "Response"]},
            "globals": {"ASSERT_XPATH": '(PStr "ASSERT_XPATH")'},
            "calls": {"pre_encrypt_assertion": lambda a: "(pre_enc %s)" % a[0],
                      "make_temp": _call_make_temp, "str": lambda a: "(to_str %s)" % a[0],
                      "self._run_xmlsec": lambda a: "(run_xmlsec %s %s)" % tuple(a),
                      "output.decode": lambda a: "(decode_ext v_output)"}}),
    ]


def _call_make_temp(a, kw):
    from harness import py2coq2
    _fixed_kw("make_temp", ["decode", "delete_tmpfiles"], kw)
    if len(a) != 1:
        raise py2coq2.Untranslatable("make_temp: %d positional arguments, expected 1" % len(a))
    return "(make_temp_ext %s)" % a[0]


SOURCE2_FUNCTIONS = ["entity.py:Entity.has_encrypt_cert_in_metadata", "server.py:Server._authn_response",
                     "sigver.py:SecurityContext.decrypt", "response.py:AuthnResponse.find_encrypt_data_assertion",
                     "response.py:AuthnResponse.find_encrypt_data", "response.py:AuthnResponse.decrypt_assertions",
                     "response.py:AuthnResponse._assertion", "sigver.py:pre_encrypt_assertion",
                     "sigver.py:CryptoBackendXmlSec1.encrypt_assertion"]


# the five boolean options of create_authn_response that have a configuration fallback (order of Model.srcs)
OPTIONS = ["sign_response", "sign_assertion", "encrypt_assertion", "encrypted_advice_attributes",
           "encrypt_assertion_self_contained"]
OPT_SHORT = dict(zip(OPTIONS, ["sr", "sa", "ea", "eadv", "sc"]))
DOC_DEFAULT = {"sr": False, "sa": False, "ea": False, "eadv": False, "sc": True}   # docs/howto/config.rst


def _method(tree, cls, name):
    for node in tree.body:
        if isinstance(node, ast.ClassDef) and node.name == cls:
            for st in node.body:
                if isinstance(st, ast.FunctionDef) and st.name == name:
                    return st
    raise RuntimeError("%s.%s not found" % (cls, name))


def _sig_defaults(fn):
    """parameter name -> default expression (positional-or-keyword and keyword-only parameters)"""
    a = fn.args
    pos = a.posonlyargs + a.args
    out = dict(zip([p.arg for p in pos[len(pos) - len(a.defaults):]], a.defaults))
    out.update({p.arg: d for p, d in zip(a.kwonlyargs, a.kw_defaults) if d is not None})
    return out


def _precedence(expr, names):
    """`a if a is not None else b if b is not None else c` -> [a, b, c] (anything else: fail closed)"""
    out = []
    while isinstance(expr, ast.IfExp):
        t = expr.test
        ok = (isinstance(t, ast.Compare) and len(t.ops) == 1 and isinstance(t.ops[0], ast.IsNot)
              and isinstance(t.left, ast.Name) and isinstance(t.comparators[0], ast.Constant)
              and t.comparators[0].value is None and isinstance(expr.body, ast.Name) and expr.body.id == t.left.id)
        if not ok:
            raise RuntimeError("gather_authn_response_args: precedence expression has an unexpected shape")
        out.append(expr.body.id)
        expr = expr.orelse
    if not isinstance(expr, ast.Name):
        raise RuntimeError("gather_authn_response_args: precedence expression has an unexpected tail")
    out.append(expr.id)
    try:
        return [names[n] for n in out]
    except KeyError as e:
        raise RuntimeError("gather_authn_response_args: unknown name %s in the precedence expression" % e)


def option_tables():
    """From the LIVE text of saml2/server.py (AST, fail closed): the defaults of the five options in the signature of
    Server.create_authn_response, their entries in param_defaults of gather_authn_response_args, the precedence
    (keyword, configuration, default) with the context the configuration is read in, which of the options
    create_authn_request_response forwards, and how create_authn_response hands them to gather_authn_response_args."""
    with open(os.path.join(env.SRC, "saml2", "server.py")) as f:
        tree = ast.parse(f.read())
    car = _method(tree, "Server", "create_authn_response")
    sig = _sig_defaults(car)
    sig_defaults = {}
    for o in OPTIONS:
        d = sig.get(o)
        if not isinstance(d, ast.Constant) or not (d.value is None or isinstance(d.value, bool)):
            raise RuntimeError("create_authn_response: default of %s is not None/True/False" % o)
        sig_defaults[o] = d.value
    # create_authn_response -> gather_authn_response_args: every option handed on under its own name
    handed = None
    for node in ast.walk(car):
        if isinstance(node, ast.Call) and isinstance(node.func, ast.Attribute) and node.func.attr == "gather_authn_response_args":
            handed = {k.arg: k.value for k in node.keywords if k.arg}
    if handed is None:
        raise RuntimeError("create_authn_response: call of gather_authn_response_args not found")
    for o in OPTIONS:
        v = handed.get(o)
        if not (isinstance(v, ast.Name) and v.id == o):
            raise RuntimeError("create_authn_response: %s is not handed to gather_authn_response_args as it came" % o)
    gat = _method(tree, "Server", "gather_authn_response_args")
    param_defaults, prec, ctxs = None, None, []
    for node in ast.walk(gat):
        if isinstance(node, ast.Assign) and len(node.targets) == 1:
            tg = node.targets[0]
            if isinstance(tg, ast.Name) and tg.id == "param_defaults":
                param_defaults = ast.literal_eval(node.value)
            elif isinstance(tg, ast.Name) and tg.id == "val_config":
                c = node.value
                if (isinstance(c, ast.Call) and isinstance(c.func, ast.Attribute) and c.func.attr == "getattr"
                        and len(c.args) == 2 and isinstance(c.args[0], ast.Name) and c.args[0].id == "param"
                        and isinstance(c.args[1], ast.Constant)):
                    ctxs.append(c.args[1].value)
                else:
                    raise RuntimeError("gather_authn_response_args: val_config is not self.config.getattr(param, <context>)")
            elif isinstance(tg, ast.Subscript) and isinstance(tg.value, ast.Name) and tg.value.id == "args" \
                    and isinstance(tg.slice, ast.Name) and tg.slice.id == "param" and prec is None \
                    and not isinstance(node.value, ast.Subscript):      # (args[param] = kwargs[param]: status / farg)
                prec = _precedence(node.value, {"val_kw": "kw", "val_config": "config", "val_default": "default"})
    if not isinstance(param_defaults, dict) or prec is None or len(ctxs) != 1:
        raise RuntimeError("gather_authn_response_args: param_defaults / precedence / val_config not found")
    for o in OPTIONS:
        if not isinstance(param_defaults.get(o), bool):
            raise RuntimeError("gather_authn_response_args: param_defaults[%s] missing or not a bool" % o)
    # the wrapper: which of the options (and pefim / certificates) does it pass on
    wrp = _method(tree, "Server", "create_authn_request_response")
    call = None
    for node in ast.walk(wrp):
        if isinstance(node, ast.Call) and isinstance(node.func, ast.Attribute) and node.func.attr == "create_authn_response":
            call = node
    if call is None:
        raise RuntimeError("create_authn_request_response: call of create_authn_response not found")
    names = [p.arg for p in car.args.args][1:]
    passed = dict(zip(names, call.args))
    passed.update({k.arg: k.value for k in call.keywords if k.arg})
    if any(k.arg is None for k in call.keywords):
        raise RuntimeError("create_authn_request_response: **kwargs handed on (table out of date)")
    forwards = []
    for o in OPTIONS + ["pefim", "encrypt_cert_assertion", "encrypt_cert_advice"]:
        if o in passed:
            if not (isinstance(passed[o], ast.Name) and passed[o].id == o):
                raise RuntimeError("create_authn_request_response: %s is not forwarded as it came" % o)
            forwards.append(o)
    return {"sig_defaults": sig_defaults, "param_defaults": {o: param_defaults[o] for o in OPTIONS}, "precedence": prec,
            "config_context": ctxs[0], "wrapper_forwards": forwards}


def write_option_tables():
    from harness import common
    t = option_tables()
    ob = lambda v: "None" if v is None else "(Some %s)" % ("true" if v else "false")  # noqa: E731
    lines = [
        "(* GENERATED by harness/c16.py:option_tables from the live text of saml2/server.py (Server.create_authn_response "
        "signature, gather_authn_response_args, create_authn_request_response) — do not edit *)",
        "From Coq Require Import String List.", "Import ListNotations.", "Open Scope string_scope.",
        "Definition create_authn_response_sig_defaults : list (string * option bool) :=\n  [%s]." % "; ".join(
            "(%s, %s)" % (cq(o), ob(t["sig_defaults"][o])) for o in OPTIONS),
        "Definition gather_param_defaults : list (string * bool) :=\n  [%s]." % "; ".join(
            "(%s, %s)" % (cq(o), "true" if t["param_defaults"][o] else "false") for o in OPTIONS),
        "Definition gather_precedence : list string := [%s]." % "; ".join(cq(p) for p in t["precedence"]),
        "Definition gather_config_context : string := %s." % cq(t["config_context"]),
        "Definition wrapper_forwards : list string := [%s]." % "; ".join(cq(p) for p in t["wrapper_forwards"]),
    ]
    changed = common.write_if_changed(os.path.join(common.GEN, "C16Tables.v"), "\n".join(lines) + "\n")
    return t, changed


def regenerate_tables(ctx):
    """Translator v2: the functions of source2_items() as they read NOW -> coq/gen/C16Src2.v (fail-closed: a function
    outside the subset becomes a PErr-valued definition and the theorem about it in C16/Source2.v stops checking);
    option_tables() -> coq/gen/C16Tables.v (theorem c16_option_defaults_from_source)."""
    from harness import common, py2coq2
    tables, tchanged = write_option_tables()
    src2 = py2coq2.regenerate(os.path.join(common.GEN, "C16Src2.v"), source2_items())
    return {"file": "coq/gen/C16Src2.v", "files": ["coq/gen/C16Src2.v", "coq/gen/C16Tables.v"],
            "changed": bool(src2["changed"] or tchanged), "obligations": src2["obligations"] + 1,
            "discharged": src2["discharged"] + 1, "untranslatable": list(src2["untranslatable"]), "source2": src2,
            "option_tables": tables,
            "functions": SOURCE2_FUNCTIONS,
            "source_theorems": ["c16_source2_* (C16/Property.v, proofs in C16/Source2.v): each translated function applied to "
                                "the encoded model input equals the encoded output of the model function it mirrors"]}


# ------------------------------------------------------------------------------------ generation
def marker(rng, tag):
    core = "".join(rng.choice("ABCDEFGHJKLMNPQRSTUVWXYZabcdefghijkmnopqrstuvwxyz23456789") for _ in range(rng.randint(10, 18)))
    return "%s%s%s" % (tag, core, rng.choice(["", "", "@example.org", "-ü", " x", "/y"]))


def random_attrs(rng, names, tag, lo=1, hi=3):
    out = []
    for n in names[: rng.randint(lo, hi)]:
        out.append([n, [marker(rng, tag) for _ in range(rng.randint(1, 2))]])
    return out


def mk_trials(rng):
    """Recipients.  keys = configured encryption_keypairs (in order); req = private keys handed in per request through
    outstanding_certs; hit = they are filed under the InResponseTo of the Response (else under another id)."""
    pol = lambda: (rng.random() < 0.3, rng.random() < 0.3)  # noqa: E731
    wrong = rng.choice([["other"], [], ["attacker", "other"], ["idp"]])
    ck = rng.choice(["ek", "iv0", "last", "trunc"])
    rk = rng.choice([["sp"], ["spenc2"], ["other", "sp"], ["spenc2", "other"], ["sp", "spenc2"], ["spenc2"]])
    # two key pairs: both configured (rotation), or one configured and one per-request
    split = rng.choice([(["sp", "spenc2"], [], True), (["spenc2", "sp"], [], True),
                        (["sp"], ["spenc2"], True), (["spenc2"], ["sp"], True),
                        (["sp"], ["other", "spenc2"], True), (["sp"], ["spenc2"], False)])
    rreq = rng.choice([([], True), ([], True), (["spenc2"], True), (["sp"], True), (["other"], True), (["sp"], False)])

    def t(keys, wr, wa, corrupt, req=(), hit=True):
        return {"keys": list(keys), "wr": wr, "wa": wa, "corrupt": corrupt, "req": list(req), "hit": hit}

    return [
        t(["sp"], False, False, None),
        t(split[0], pol()[0], pol()[1], None, split[1], split[2]),
        t(wrong, False, False, None, rng.choice([[], [], ["other"]])),
        t(["sp"], False, False, ck, ["spenc2"]) if rng.random() < 0.5 else t(["sp", "spenc2"], False, False, ck),
        t(rk, pol()[0], pol()[1], rng.choice([None, None, None, ck]), rreq[0], rreq[1]),
    ]


ARG_STATES = ["np", "none", True, False]          # not passed / passed as None / passed True / passed False
CFG_STATES = [(None, False), (True, False), (False, False), (True, True), (False, True)]   # (value, given as "true"/"false")


def opt_state(arg, cfg):
    return {"arg": arg, "cfg": cfg[0], "cfg_str": bool(cfg[1])}


def asked(short, st):
    """What the call requests for one option, from the documentation: the argument, else the IdP configuration, else
    the documented default (the Coq side computes its own reading: Spec.requested)."""
    if st["arg"] in (True, False):
        return st["arg"]
    return st["cfg"] if st["cfg"] is not None else DOC_DEFAULT[short]


def random_opt_state(rng):
    return opt_state(rng.choice(ARG_STATES + ["np", True]), rng.choice(CFG_STATES + [(None, False), (None, False)]))


def mk_opt_case(rng, src, pefim, states, api, tag):
    """A Server-entry call whose five options come from argument / None / nothing and the IdP configuration.
    api "request_response" = Server.create_authn_request_response: it takes sign_response / sign_assertion only, the
    other options can be requested through the configuration alone, no PEFIM, no explicit certificates."""
    states = {k: dict(v) for k, v in states.items()}
    if api == "request_response":
        for k in ("ea", "eadv", "sc"):
            states[k]["arg"] = "np"
        pefim, src = False, (src[0], None, None)
    fl = tuple(asked(k, states[k]) for k in ("sr", "sa", "ea", "eadv", "sc")) + (bool(pefim),)
    c = mk_case(rng, "server", fl, src, None, tag)
    c["src"] = states
    c["api"] = api
    return c


def mk_case(rng, entry, flags, src, leaves_spec, tag):
    """leaves_spec: None for the server entry, else list of wf flags (one per advice assertion)."""
    names = ATTR_POOL[:]
    rng.shuffle(names)
    md, ca, cadv = src
    c = {"entry": entry, "md": [list(x) for x in md], "cert_asrt": ca, "cert_adv": cadv, "tag": tag,
         "subj": marker(rng, "S"), "trials": mk_trials(rng)}
    c.update(dict(zip(FLAGS, flags)))
    ident = random_attrs(rng, names[:4], "M", 1, 4)
    if entry == "server":
        c["identity"] = ident
        c["leaves"] = None
    else:
        c["identity"] = ident if rng.random() < 0.8 else []
        pos = 4
        c["leaves"] = []
        for wf in leaves_spec:
            c["leaves"].append({"wf": wf, "attrs": random_attrs(rng, names[pos:pos + 2], "L", 1, 2)})
            pos += 2
    return c


def generate(ctx):
    rng = ctx.rng
    cases = []
    allflags = list(itertools.product((False, True), repeat=6))
    for src in CERT_SOURCES:
        for fl in allflags:
            cases.append(mk_case(rng, "server", fl, src, None, "server"))
    ent = [([True], CERT_SOURCES[0]), ([True], CERT_SOURCES[6]), ([True, True], CERT_SOURCES[0])]
    if ctx.thorough:
        ent += [(ls, s) for ls in ([True], [True, True], [False], [], [True, False, True]) for s in CERT_SOURCES + EXTRA_SOURCES]
    for ls, src in ent:
        for fl in allflags:
            cases.append(mk_case(rng, "entity", fl, src, ls, "entity%d" % len(ls)))
    if not ctx.thorough:
        # the remaining advice shapes / certificate sources: a seeded half of the flag combinations each
        for ls, src in (([True], CERT_SOURCES[3]), ([False], CERT_SOURCES[0]), ([], CERT_SOURCES[0])):
            for fl in rng.sample(allflags, 32):
                cases.append(mk_case(rng, "entity", fl, src, ls, "entity%d" % len(ls)))
    if ctx.thorough:
        for src in EXTRA_SOURCES:
            for fl in allflags:
                cases.append(mk_case(rng, "server", fl, src, None, "server-x"))
    # where the options come from: per-call argument (True / False / None), nothing, IdP configuration (True / False /
    # "true" / "false"), through create_authn_response and through create_authn_request_response
    shorts = ["sr", "sa", "ea", "eadv", "sc"]
    full = [opt_state(a, c) for a in ARG_STATES for c in CFG_STATES]           # 20 states of one option
    focus = shorts if ctx.thorough else ["ea"]
    srcs_a = (CERT_SOURCES[0], CERT_SOURCES[7], CERT_SOURCES[1], CERT_SOURCES[9])
    for opt in focus:
        for i, st in enumerate(full):
            for pefim in (False, True):
                for src in (srcs_a if ctx.thorough else (srcs_a[(i + pefim) % len(srcs_a)],)):
                    states = {k: random_opt_state(rng) for k in shorts}
                    states[opt] = st
                    cases.append(mk_opt_case(rng, src, pefim, states, "response", "opt-" + opt))
    for cfg in CFG_STATES:                                                      # the wrapper: configuration is the only way
        for k in range(4 if ctx.thorough else 2):
            states = {k2: random_opt_state(rng) for k2 in shorts}
            states["ea"] = opt_state("np", cfg)
            cases.append(mk_opt_case(rng, srcs_a[k % len(srcs_a)], False, states, "request_response", "opt-wrapper"))
    for _ in range(1200 if ctx.thorough else 90):
        states = {k: random_opt_state(rng) for k in shorts}
        api = "request_response" if rng.random() < 0.25 else "response"
        cases.append(mk_opt_case(rng, rng.choice(CERT_SOURCES), rng.random() < 0.3, states, api, "opt-rnd"))
    # seeded random widening
    for _ in range(1500 if ctx.thorough else 140):
        src = rng.choice(CERT_SOURCES + EXTRA_SOURCES)
        fl = tuple(rng.random() < 0.5 for _ in range(6))
        if rng.random() < 0.5:
            cases.append(mk_case(rng, "server", fl, src, None, "rnd-server"))
        else:
            n = rng.choice([0, 1, 1, 1, 2, 3])
            cases.append(mk_case(rng, "entity", fl, src, [rng.random() < 0.8 for _ in range(n)], "rnd-entity"))
    return cases


# ------------------------------------------------------------------------------------ real code: IdP side
_idp_cache = {}


def key_descriptors(md):
    out = []
    for name, use in md:
        u = ' use="%s"' % use if use else ""
        body = BAD_B64 if name == BAD else fixtures.cert_b64(name)
        out.append("<md:KeyDescriptor%s><ds:KeyInfo><ds:X509Data><ds:X509Certificate>%s</ds:X509Certificate>"
                   "</ds:X509Data></ds:KeyInfo></md:KeyDescriptor>" % (u, body))
    return "".join(out)


def get_idp(md, cfg=None):
    """cfg: options of the service/idp section of the IdP configuration (loaded by the real IdPConfig.load)."""
    env.install_standin()
    spaccept.CLOCK.install()
    k = json.dumps([md, sorted((cfg or {}).items())])
    idp = _idp_cache.get(k)
    if idp is None:
        over = {"idp_" + o: v for o, v in (cfg or {}).items()}
        idp = world.make_idp(metadata_xml=[world.sp_descriptor(world.SP_ID, [], extra=key_descriptors(md))], **over)
        if len(_idp_cache) > 400:
            _idp_cache.clear()
        _idp_cache[k] = idp
    return idp


def option_args(case):
    """(keyword arguments, IdP configuration entries) for the five options of a case with option sources"""
    kw, cfg = {}, {}
    for o in OPTIONS:
        st = case["src"][OPT_SHORT[o]]
        if st["arg"] == "none":
            kw[o] = None
        elif st["arg"] != "np":
            kw[o] = bool(st["arg"])
        if st["cfg"] is not None:
            cfg[o] = ("true" if st["cfg"] else "false") if st["cfg_str"] else bool(st["cfg"])
    return kw, cfg


def cert_arg(name):
    if name is None:
        return None
    return BAD_B64 if name == BAD else fixtures.cert_b64(name)


def issue(case):
    """Run the real IdP code; returns (xml string | None, exception class name | None)."""
    from saml2 import class_name, saml
    from saml2.saml import NAMEID_FORMAT_TRANSIENT, NameID
    from saml2.sigver import pre_signature_part

    kw, cfg = option_args(case) if case.get("src") else ({}, {})
    idp = get_idp(case["md"], cfg)
    nid = NameID(format=NAMEID_FORMAT_TRANSIENT, text=case["subj"])
    ident = {k: list(v) for k, v in case["identity"]}
    ca, cadv = cert_arg(case["cert_asrt"]), cert_arg(case["cert_adv"])
    try:
        if case["entry"] == "server" and case.get("src") and case.get("api") == "request_response":
            if case["pefim"] or ca or cadv or any(o in kw for o in OPTIONS[2:]):
                raise RuntimeError("case outside what create_authn_request_response takes")
            resp = idp.create_authn_request_response(
                ident, "req-1", world.SP_ACS_POST, world.SP_ID, name_id=nid, authn=dict(AUTHN), **kw)
        elif case["entry"] == "server" and case.get("src"):
            resp = idp.create_authn_response(
                ident, "req-1", world.SP_ACS_POST, world.SP_ID, name_id=nid, authn=dict(AUTHN),
                pefim=case["pefim"], encrypt_cert_assertion=ca, encrypt_cert_advice=cadv, **kw)
        elif case["entry"] == "server":
            resp = idp.create_authn_response(
                ident, "req-1", world.SP_ACS_POST, world.SP_ID, name_id=nid, authn=dict(AUTHN),
                sign_response=case["sr"], sign_assertion=case["sa"], encrypt_assertion=case["ea"],
                encrypted_advice_attributes=case["eadv"], encrypt_assertion_self_contained=case["sc"],
                pefim=case["pefim"], encrypt_cert_assertion=ca, encrypt_cert_advice=cadv)
        else:
            # what Server._authn_response does (non-PEFIM arm) with an Advice added, then Entity._response
            _issuer = idp._issuer(None)
            main = idp.setup_assertion(dict(AUTHN), world.SP_ID, "req-1", world.SP_ACS_POST, nid, None, _issuer, None,
                                       ident, True, case["sr"])
            if case["leaves"]:
                main.advice = saml.Advice()
                for lf in case["leaves"]:
                    leaf = idp.setup_assertion(None, world.SP_ID, None, None, None, None,
                                               idp._issuer(None) if lf["wf"] else None, None,
                                               {k: list(v) for k, v in lf["attrs"]}, True, case["sr"])
                    main.advice.assertion.append(leaf)
            to_sign = []
            if not case["ea"] and case["sa"]:
                main.signature = pre_signature_part(main.id, idp.sec.my_cert, 2, sign_alg=idp.signing_algorithm,
                                                    digest_alg=idp.digest_algorithm)
                to_sign.append((class_name(main), main.id))
            resp = idp._response(
                "req-1", world.SP_ACS_POST, None, None, case["sr"], to_sign, sp_entity_id=world.SP_ID,
                encrypt_assertion=case["ea"], encrypt_cert_advice=cadv, encrypt_cert_assertion=ca,
                encrypt_assertion_self_contained=case["sc"], encrypted_advice_attributes=case["eadv"],
                sign_assertion=case["sa"], pefim=case["pefim"], assertion=main)
    except Exception as e:  # noqa
        return None, type(e).__name__
    return str(resp), None


# ------------------------------------------------------------------------------------ independent reader of the wire
def _standin_call(argv, data):
    m = env.standin()
    with tempfile.NamedTemporaryFile(suffix=".xml", delete=False) as f:
        f.write(data)
        path = f.name
    try:
        return m.main(list(argv) + [path])
    finally:
        os.unlink(path)


def sig_state(doc_bytes, elem, elem_name):
    """Unsigned / Signed (verifies with an IdP certificate) / Broken."""
    if elem.find(NS_DS + "Signature") is None:
        return "Unsigned"
    for cert in ("idp", "idp2"):
        rc, _out, err = _standin_call(
            ["--verify", "--enabled-reference-uris", "empty,same-doc", "--enabled-key-data", "raw-x509-cert",
             "--pubkey-cert-pem", fixtures.cert_path(cert), "--id-attr:ID", elem_name, "--node-id", elem.get("ID")],
            doc_bytes)
        if rc == 0 and err.startswith(b"OK"):
            return "Signed"
    return "Broken"


def try_decrypt(enc_data_elem):
    """(name of the fixture key that opens it, decrypted root element, plaintext bytes) or None."""
    data = ET.tostring(enc_data_elem, encoding="utf-8")
    for name in KEYNAMES:
        rc, out, _err = _standin_call(["--decrypt", "--privkey-pem", fixtures.key_path(name)], data)
        if rc == 0 and out:
            try:
                return name, ET.fromstring(out), out
            except ET.ParseError:
                continue
    return None


def attr_values(a_elem):
    vals = []
    for st in a_elem.findall(NS_A + "AttributeStatement"):
        for at in st.findall(NS_A + "Attribute"):
            for v in at.findall(NS_A + "AttributeValue"):
                vals.append(v.text or "")
    return sorted(vals)


def abs_leaf(doc_bytes, el):
    return {"sig": sig_state(doc_bytes, el, A_ELEM), "wf": el.find(NS_A + "Issuer") is not None, "attrs": attr_values(el)}


def abs_assertion(doc_bytes, el):
    nid = el.find(NS_A + "Subject/" + NS_A + "NameID")
    a = {"sig": sig_state(doc_bytes, el, A_ELEM), "subj": nid.text if nid is not None else "", "attrs": attr_values(el)}
    adv = el.find(NS_A + "Advice")
    if adv is None:
        a["adv"] = {"kind": "plain", "leaves": []}
        return a
    plain = adv.findall(NS_A + "Assertion")
    encs = adv.findall(NS_A + "EncryptedAssertion")
    if encs and plain:
        raise RuntimeError("advice mixes plain and encrypted assertions: outside the wire abstraction")
    if not encs:
        a["adv"] = {"kind": "plain", "leaves": [abs_leaf(doc_bytes, p) for p in plain]}
        return a
    if len(encs) != 1 or len(encs[0].findall(NS_XENC + "EncryptedData")) != 1 or encs[0].find(NS_A + "Assertion") is not None:
        raise RuntimeError("unexpected EncryptedAssertion shape in Advice")
    r = try_decrypt(encs[0].find(NS_XENC + "EncryptedData"))
    if r is None:
        a["adv"] = {"kind": "bad"}
    else:
        name, root, plainbytes = r
        if root.tag != NS_A + "Assertion":
            raise RuntimeError("advice ciphertext is not an Assertion")
        a["adv"] = {"kind": "enc", "cert": name, "leaf": abs_leaf(plainbytes, root)}
    return a


def abstract_wire(xml):
    data = xml.encode("utf-8")
    root = ET.fromstring(data)
    if root.tag != NS_P + "Response":
        raise RuntimeError("not a Response")
    w = {"sig": sig_state(data, root, R_ELEM)}
    plain = root.findall(NS_A + "Assertion")
    encs = root.findall(NS_A + "EncryptedAssertion")
    if len(plain) + len(encs) != 1:
        raise RuntimeError("expected exactly one (Encrypted)Assertion")
    if plain:
        w["top"] = {"kind": "plain", "a": abs_assertion(data, plain[0])}
    else:
        ed = encs[0].findall(NS_XENC + "EncryptedData")
        if len(ed) != 1 or encs[0].find(NS_A + "Assertion") is not None:
            raise RuntimeError("unexpected EncryptedAssertion shape")
        r = try_decrypt(ed[0])
        if r is None:
            w["top"] = {"kind": "bad"}
        else:
            name, el, plainbytes = r
            if el.tag != NS_A + "Assertion":
                raise RuntimeError("ciphertext is not an Assertion")
            w["top"] = {"kind": "enc", "cert": name, "a": abs_assertion(plainbytes, el)}
    return w


def all_secrets(case):
    s = [case["subj"]]
    for _n, vs in case["identity"]:
        s.extend(vs)
    for lf in case["leaves"] or []:
        for _n, vs in lf["attrs"]:
            s.extend(vs)
    return s


# ------------------------------------------------------------------------------------ damage
_CV = re.compile(r"(<(?:\w+:)?CipherValue[^>]*>)([^<]*)(</)")


def damage(xml, kind):
    """Damage the first EncryptedData in document order (its EncryptedKey or its ciphertext)."""
    ms = list(_CV.finditer(xml))
    if len(ms) < 2:
        return xml
    m = ms[0] if kind == "ek" else ms[1]
    raw = bytearray(base64.b64decode("".join(m.group(2).split())))
    if kind == "ek":
        raw[len(raw) // 2] ^= 0x10
    elif kind == "iv0":
        raw[0] ^= 0x01
    elif kind == "last":
        raw[-1] ^= 0x80
    elif kind == "trunc":
        raw = raw[:-5]
    else:
        raise ValueError(kind)
    return xml[: m.start(2)] + base64.b64encode(bytes(raw)).decode() + xml[m.end(2):]


# ------------------------------------------------------------------------------------ real code: SP side
def sp_over(trial):
    kps = [{"key_file": fixtures.key_path(k), "cert_file": fixtures.cert_path(k)} for k in trial["keys"]]
    return {"encryption_keypairs": kps or None, "sp_want_response_signed": bool(trial["wr"]),
            "sp_want_assertions_signed": bool(trial["wa"]), "sp_want_assertions_or_response_signed": False}


_pem = {}


def pem_text(path):
    if path not in _pem:
        with open(path) as f:
            _pem[path] = f.read()
    return _pem[path]


def receive(xml, trial):
    """The real Saml2Client.parse_authn_request_response, with per-request keys through outstanding_certs."""
    sp = spaccept.get_sp(sp_over(trial))
    if trial["corrupt"]:
        xml = damage(xml, trial["corrupt"])
    oc = None
    if trial.get("req"):
        entry = [{"key": pem_text(fixtures.key_path(k)), "cert": pem_text(fixtures.cert_path(k))} for k in trial["req"]]
        if len(entry) == 1 and len(trial["req"][0]) % 2:
            entry = entry[0]          # a single dict instead of a list: both forms are accepted by _parse_response
        oc = {("req-1" if trial.get("hit", True) else "req-other"): entry}
    res = {"id": None, "exc": None}
    r = None
    try:
        r = sp.parse_authn_request_response(c16_b64(xml), world.BINDING_HTTP_POST, {"req-1": "/"}, outstanding_certs=oc)
    except Exception as e:  # noqa
        res["exc"] = type(e).__name__
    if r is None:
        return res
    nid = getattr(r, "name_id", None)
    name_id = getattr(nid, "text", None) if nid is not None else None
    ava = getattr(r, "ava", None)
    si = None
    try:
        si = r.session_info()
    except Exception:
        si = None
    try:
        cached = bool(list(sp.users.subjects()))
    except Exception:
        cached = False
    if not (name_id is not None or ava or getattr(r, "assertion", None) is not None or si is not None or cached):
        return res
    vals = []
    for _k, vs in sorted((ava or {}).items()):
        vals.extend(vs if isinstance(vs, list) else [vs])
    res["id"] = [name_id or "", sorted(vals)]
    return res


def c16_b64(xml):
    return base64.b64encode(xml.encode("utf-8")).decode("ascii")


def observe(case):
    xml, exc = issue(case)
    if xml is None:
        return {"wire": None, "exc": exc, "exposed": [], "trials": []}
    data = xml.encode("utf-8")
    exposed = [s for s in all_secrets(case) if s.encode("utf-8") in data]
    try:
        w = abstract_wire(xml)
    except Exception as e:  # noqa: a Response outside the term language (e.g. clear and encrypted copy side by side)
        # is reported as an unreadable top: the model never predicts it, and the byte search still speaks
        w = {"sig": "Broken", "top": {"kind": "bad"}, "odd": "%s: %s" % (type(e).__name__, e)}
    trials = case["trials"]
    if w["top"]["kind"] == "plain" and w["top"]["a"]["adv"]["kind"] == "plain":
        # nothing is encrypted: key sets and damage make no difference, two recipients are enough
        # (coq_case pairs trials with results by position, so only the first two are reported)
        trials = trials[:2]
    return {"wire": w, "exc": None, "exposed": exposed, "trials": [receive(xml, t) for t in trials]}


# ------------------------------------------------------------------------------------ Coq terms
def cq_cert(n):
    return Raw("BadCert") if n == BAD else Raw("(Good %s)" % cq(n))


def cq_use(u):
    return Raw({"encryption": "UEnc", "signing": "USig", None: "UNone"}[u])


def flat(attrs):
    out = []
    for _n, vs in attrs:
        out.extend(vs)
    return sorted(out)


def cq_leaf(l):
    return Raw("(mkleaf %s %s %s)" % (l["sig"], cq(bool(l["wf"])), cq(sorted(l["attrs"]))))


def cq_asrt(a):
    adv = a["adv"]
    if adv["kind"] == "plain":
        ad = "(AdvPlain %s)" % cq([cq_leaf(l) for l in adv["leaves"]])
    elif adv["kind"] == "enc":
        ad = "(AdvEnc %s %s)" % (cq_cert(adv["cert"]), cq_leaf(adv["leaf"]))
    else:
        ad = "AdvBad"
    return "(mkasrt %s %s %s %s)" % (a["sig"], cq(a["subj"]), cq(sorted(a["attrs"])), ad)


def cq_wire(w):
    if w is None:
        return "Error"
    t = w["top"]
    if t["kind"] == "plain":
        top = "(TopPlain %s)" % cq_asrt(t["a"])
    elif t["kind"] == "enc":
        top = "(TopEnc %s %s)" % (cq_cert(t["cert"]), cq_asrt(t["a"]))
    else:
        top = "TopBad"
    return "(Wire (mkwire %s %s))" % (w["sig"], top)


def coq_case(case, obs):
    md = [Raw("(%s, %s)" % (cq_use(u), cq_cert(n))) for n, u in case["md"]]
    if case["entry"] == "server":
        # raw call: the model itself moves the identity into the PEFIM advice assertion (Model.effective)
        attrs, leaves = flat(case["identity"]), []
    else:
        attrs = flat(case["identity"])
        leaves = [Raw("(%s, %s)" % (cq(bool(l["wf"])), cq(flat(l["attrs"])))) for l in case["leaves"]]
    trials = []
    for t, r in zip(case["trials"], obs["trials"]):
        rid = "None" if r["id"] is None else "(Some (%s, %s))" % (cq(r["id"][0]), cq(r["id"][1]))
        trials.append(Raw("(mktrial %s %s %s %s %s %s, %s)" % (
            cq(list(t["keys"])), cq(bool(t["wr"])), cq(bool(t["wa"])), cq(bool(t["corrupt"])),
            cq(list(t.get("req") or [])), cq(bool(t.get("hit", True))), rid)))
    copt = lambda n: "None" if n is None else "(Some %s)" % cq_cert(n)  # noqa: E731
    ss = "None"
    if case.get("src"):
        def osrc(st):
            a = {"np": "NotPassed", "none": "PassedNone", True: "(Passed true)", False: "(Passed false)"}[st["arg"]]
            return "(osrc %s %s)" % (a, "None" if st["cfg"] is None else "(Some %s)" % cq(bool(st["cfg"])))
        ss = "(Some (mksrcs %s))" % " ".join(osrc(case["src"][k]) for k in ("sr", "sa", "ea", "eadv", "sc"))
    return "C16.Corr.mk %s %s %s %s %s %s %s %s %s %s %s %s %s %s %s %s %s" % (
        "Server" if case["entry"] == "server" else "Entity",
        cq(case["sr"]), cq(case["sa"]), cq(case["ea"]), cq(case["eadv"]), cq(case["sc"]), cq(case["pefim"]),
        cq(md), copt(case["cert_asrt"]), copt(case["cert_adv"]), cq(case["subj"]), cq(attrs), cq(leaves), ss,
        cq_wire(obs["wire"]), cq(sorted(obs["exposed"])), cq(trials))


# ------------------------------------------------------------------------------------ evidence helpers
def nontrivial(case, obs):
    if not (case["ea"] or case["eadv"] or (case["entry"] == "server" and case["pefim"])):
        return None
    shape = None if case["leaves"] is None else tuple(l["wf"] for l in case["leaves"])
    how = None
    if case.get("src"):
        how = (case.get("api"),) + tuple((str(case["src"][k]["arg"]), case["src"][k]["cfg"], case["src"][k]["cfg_str"])
                                         for k in ("sr", "sa", "ea", "eadv", "sc"))
    return (case["entry"], tuple(case[f] for f in FLAGS), json.dumps(case["md"]), case["cert_asrt"], case["cert_adv"], shape, how)


def histogram(cases, observed):
    h = {"by_tag": {}, "idp_outcome": {}, "wire_shape": {}, "exposure": {"none": 0, "some": 0},
         "trial_outcome": {"identity": 0, "none": 0}, "trial_exceptions": {}, "trial_kinds": {}, "advice_sizes": {},
         "cert_used": {}, "option_sources": {}, "api": {}}
    for c, o in zip(cases, observed):
        h["by_tag"][c["tag"]] = h["by_tag"].get(c["tag"], 0) + 1
        if c.get("src"):
            h["api"][c["api"]] = h["api"].get(c["api"], 0) + 1
            for kk, st in c["src"].items():
                cfgs = "-" if st["cfg"] is None else ('"%s"' % str(st["cfg"]).lower() if st["cfg_str"] else str(st["cfg"]))
                key = "%s: arg=%s cfg=%s" % (kk, {"np": "not passed", "none": "None"}.get(st["arg"], st["arg"]), cfgs)
                h["option_sources"][key] = h["option_sources"].get(key, 0) + 1
        n = "server" if c["leaves"] is None else str(len(c["leaves"]))
        h["advice_sizes"][n] = h["advice_sizes"].get(n, 0) + 1
        if o["wire"] is None:
            k = "error:" + str(o["exc"])
            h["idp_outcome"][k] = h["idp_outcome"].get(k, 0) + 1
            continue
        h["idp_outcome"]["response"] = h["idp_outcome"].get("response", 0) + 1
        t = o["wire"]["top"]
        adv = t.get("a", {}).get("adv", {}).get("kind", "-")
        k = "%s/%s/advice-%s" % (o["wire"]["sig"], t["kind"], adv)
        h["wire_shape"][k] = h["wire_shape"].get(k, 0) + 1
        for cn in [t.get("cert"), t.get("a", {}).get("adv", {}).get("cert")]:
            if cn:
                h["cert_used"][cn] = h["cert_used"].get(cn, 0) + 1
        h["exposure"]["some" if o["exposed"] else "none"] += 1
        for tr, r in zip(c["trials"], o["trials"]):  # zip: only the recipients actually run
            h["trial_outcome"]["identity" if r["id"] is not None else "none"] += 1
            if r["exc"]:
                h["trial_exceptions"][r["exc"]] = h["trial_exceptions"].get(r["exc"], 0) + 1
            kk = "keys=%s%s%s" % ("+".join(tr["keys"]) or "-",
                                  (" req=%s%s" % ("+".join(tr["req"]), "" if tr.get("hit", True) else "(other id)")) if tr.get("req") else "",
                                  " damaged:" + tr["corrupt"] if tr["corrupt"] else "")
            h["trial_kinds"][kk] = h["trial_kinds"].get(kk, 0) + 1
    return h


def explain_term(t):
    return "C16.Corr.explain (%s)" % t
