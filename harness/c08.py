"""C08 — messages and browsers are only sent to endpoints registered in metadata."""
import html
import random
import re
from xml.sax.saxutils import quoteattr

from harness import env, world
from harness.common import Raw, cq, cq_opt

PID = "C08"
PARALLEL = 8
BASE_IMPORTS = "From Verif Require Import C08.Model C08.Spec C08.Corr."
# generate() appends the Definitions of the run's metadata worlds and preference tables to this preamble, so
# that a case names its world instead of repeating it (a replayed case carries its world inline)
IMPORTS = BASE_IMPORTS
_WORLD_NAMES = {}
CASE_TYPE = "C08.Corr.case"
RUNNER = "C08.Corr.run"
FINDING_CLASSES = {1: "C08-F1"}
RULE = ("seeded random metadata worlds (1-3 sources, 1-3 SPs, 0-2 IdPs, 1-3 endpoints per service and binding, "
        "entities repeated across sources with other endpoints / bindings / role (at least one in every second "
        "world; histogram repeated_entity counts the lookups where a later source has what the first lacks), "
        "ResponseLocation, duplicate / missing / non-numeric indexes, endpoints "
        "shared between bindings and between SPs, DiscoveryResponse extensions) rendered by templates and loaded by "
        "the real MetadataStore; on the focus SP of 6 worlds the COMPLETE product AssertionConsumerServiceURL(7: "
        "absent, empty, registered for the binding, for another binding, for another SP, unregistered, look-alike) "
        "x AssertionConsumerServiceIndex(4: absent, valid, unknown, non-numeric) x ProtocolBinding(6: POST, "
        "Redirect, Artifact, PAOS, bogus, absent) through the real Server.response_args; seeded samples of message "
        "class x caller bindings x descriptor type x entity type x issuer x preferred_binding; pick_binding for an "
        "entity; SP _sso_location / prepare_for_negotiated_authenticate / prepare_for_authenticate over entity x "
        "binding; do_logout over entity lists x expected binding x preference (stub transport); "
        "DiscoveryServer.verify_return over 8 return-URL classes. Round 2 (own generator, seeded from ctx.rng after the "
        "above): 6 (thorough 24) SHAPE worlds whose discovery-response and consumer-service locations take every shape of "
        "DISCO_SHAPES / ACS_TAILS in turn (site root with and without '/', directory style, '//', empty / complete / "
        "open-ended query, port, mixed case, percent-escape, dot segment, dangling '#' '?' '&', http); for every requester "
        "and EVERY location registered for it the COMPLETE neighbourhood url_neighbours(location) as return URL (about 90 "
        "per location: exact; 13 extensions; every trimmed form of the location - last char, each trailing "
        "punctuation run, dirname, query / fragment removed, origin - alone and continued by 14 look-alike tails; case, "
        "scheme, authority (userinfo, port, dot, sub-domain, typo, host as userinfo), path spelling (dot segments, "
        "'//', backslash, percent-encoding both ways, query order), leading white space, embedded in another URL), the "
        "locations of other SPs / other bindings and their trimmed-and-continued forms, look-alike requester ids; the "
        "compact neighbourhood of 2 consumer-service locations per SP as AssertionConsumerServiceURL; samples of both in "
        "the ordinary worlds. Round 3 (own generator again): SEQUENCES on long-lived entities - every world gets a later "
        "version (kinds in turn: hosts moved, endpoints retired, other binding / index / ResponseLocation, entity removed or "
        "role lost, sources reordered / dropped, another world with the same ids, emptied, identical; thorough: 3 kinds) and "
        "three sequences (IdP side, SP side, discovery service) on TWO fresh entities of one process (one starts with each "
        "version): all operations that make sense on either version (stratified by shape) on both entities interleaved, the "
        "entities swap their metadata through Entity.reload_metadata, everything again, a refresh that fails (6 kinds of bad "
        "configuration), a sample, back to the first version, a sample; each step is judged against the metadata in force "
        "for the entity that handled it. Round 7 (own generator): 6 (thorough 18) worlds with an IdP are copied with STRAY "
        "ResponseLocation attributes on their SingleSignOnService elements (kinds in turn: other URL on the host, foreign "
        "host, the Location itself, the Location of another registered endpoint, padded with XML white space, absent) and "
        "more ResponseLocations on the other IdP-role services; for every IdP pick_binding(single_sign_on_service) over 10 "
        "caller binding lists (none, SOAP = the ECP flow, POST, Redirect, PAOS, Artifact, pairs, bogus first) x entity type, "
        "SLO / MNI picks, _sso_location over 5 bindings, negotiate / authenticate / logout; 2 (6) SP-side sequences in which "
        "the plain and the stray version swap. Every outcome of an operation aimed at a named entity is also judged against "
        "the SERVED metadata (the first source that has the entityID). non-trivial = distinct (operation kind, input classes, outcome kind); for a "
        "sequence (role, refresh kind, set of outcome changes across a refresh)")
def source2_items():
    """What translator v2 (harness/py2coq2.py) re-translates from the source text on every run -> coq/gen/C08Src2.v;
    C08/Source2.v proves each definition equal to the model function it mirrors.  External calls (the per-source
    lookups, the per-service wrapper of the store, generator helpers, next()) are extra parameters = hypotheses."""
    import os
    from harness import env
    src = os.path.join(env.SRC, "saml2")
    ent, mds, cb = (os.path.join(src, f) for f in ("entity.py", "mdstore.py", "client_base.py"))
    soap = '(PStr "urn:oasis:names:tc:SAML:2.0:bindings:SOAP")'
    return [
        (ent, "Entity.pick_binding", {
            "name": "src2_pick_binding", "params": ["self", "service", "bindings", "descr_type", "request", "entity_id"],
            "extra_params": [("sfunc", "pyval -> pyval -> pyval -> pyval"), ("all_locations_", "pyval -> pyval"),
                             ("next_", "pyval -> pyval -> pyval")],
            "attr_errors": True,
            "calls": {"sfunc": lambda a: "(sfunc %s %s %s)" % tuple(a),
                      "all_locations": lambda a: "(all_locations_ %s)" % a[0],
                      "next": lambda a: "(next_ %s %s)" % tuple(a)}}),
        (ent, "Entity.response_args", {
            "name": "src2_response_args", "params": ["self", "message", "bindings", "descr_type"],
            "extra_params": [("pick_binding_", "pyval -> pyval -> pyval -> pyval -> pyval")],
            "globals": {"BINDING_SOAP": soap},
            "classes": {c: [c] for c in ["AuthnRequest", "LogoutRequest", "AttributeQuery", "ManageNameIDRequest",
                                         "AssertionIDRequest", "ArtifactResolve", "NameIDMappingRequest"]},
            "calls": {"self.pick_binding": lambda a, kw: "(pick_binding_ %s %s %s %s)" % (a[0], a[1], kw["descr_type"],
                                                                                        kw["request"])}}),
        (cb, "Base._sso_location", {
            "name": "src2_sso_location", "params": ["self", "entityid", "binding"],
            "extra_params": [("sso_service", "pyval -> pyval -> pyval"), ("with_descriptor_", "pyval -> pyval"),
                             ("locations_", "pyval -> pyval"), ("next_", "pyval -> pyval -> pyval")],
            "exc_parents": {"IdpUnspecified": ["SAMLError", "Exception"]},
            "calls": {"self.metadata.single_sign_on_service": lambda a: "(sso_service %s %s)" % tuple(a),
                      "self.metadata.with_descriptor": lambda a: "(with_descriptor_ %s)" % a[0],
                      "locations": lambda a: "(locations_ %s)" % a[0],
                      "next": lambda a: "(next_ %s %s)" % tuple(a)}}),
        (mds, "MetadataStore.service", {
            "name": "src2_store_service", "params": ["self", "entity_id", "typ", "service", "binding"],
            "probe_subscripts": True,
            "extra_params": [("md_service", "pyval -> pyval -> pyval -> pyval -> pyval -> pyval")],
            "exc_parents": {"UnsupportedBinding": ["SAMLError", "Exception"], "UnknownSystemEntity": ["SAMLError", "Exception"]},
            "calls": {"_md.service": lambda a: "(md_service v__md %s %s %s %s)" % tuple(a)}}),
        (mds, "MetadataStore.ext_service", {
            "name": "src2_store_ext_service", "params": ["self", "entity_id", "typ", "service", "binding"],
            "extra_params": [("md_ext_service", "pyval -> pyval -> pyval -> pyval -> pyval -> pyval")],
            "exc_parents": {"UnsupportedBinding": ["SAMLError", "Exception"], "UnknownSystemEntity": ["SAMLError", "Exception"]},
            "calls": {"_md.ext_service": lambda a: "(md_ext_service v__md %s %s %s %s)" % tuple(a)}}),
    ]


def regenerate_source2(gen_path):
    """py2coq2.regenerate with one LOCAL pre-pass (translator v2 has no bare-subscript expression statement): in the
    items marked probe_subscripts, `X[K]` used as a statement - evaluated for its KeyError only, as `_md[entity_id]`
    in MetadataStore.service - becomes `_probe = X[K]`: the same evaluation, the same exceptions, one unused local.
    Fail-closed like py2coq2.regenerate: what cannot be translated becomes a poisoned definition."""
    import ast
    from harness import common, py2coq2

    class Probe(ast.NodeTransformer):
        def visit_Expr(self, node):
            if isinstance(node.value, ast.Subscript):
                return ast.copy_location(ast.Assign(targets=[ast.Name(id="_probe", ctx=ast.Store())], value=node.value,
                                                    lineno=node.lineno), node)
            return node

    items = source2_items()
    out, failed = [py2coq2.HEADER], []
    for path, qual, spec in items:
        try:
            with open(path) as f:
                fn = py2coq2.find_function(ast.parse(f.read()), qual)
            if spec.get("probe_subscripts"):
                fn = ast.fix_missing_locations(Probe().visit(fn))
            out.append(py2coq2.translate_def(fn, spec, "%s:%s" % (path.split("/src/")[-1], qual)))
        except (py2coq2.Untranslatable, OSError, SyntaxError) as e:
            failed.append("%s: %s" % (qual, e))
            out.append(py2coq2.poison(qual, spec, str(e)))
    changed = common.write_if_changed(gen_path, "\n".join(out))
    return {"translated": [q for _, q, _ in items], "untranslatable": failed, "changed": changed,
            "obligations": len(items), "discharged": len(items) - len(failed)}


def regenerate_tables(ctx):
    """Translator v1: DiscoveryServer.verify_return as it reads NOW -> coq/gen/C08Src.v; C08/Source.v proves it equal to the
    model (the metadata lookup discovery_response is a parameter).  Translator v2: source2_items() -> coq/gen/C08Src2.v;
    C08/Source2.v proves each function equal to the model."""
    import os
    from harness import common, env, py2coq
    src = py2coq.regenerate(os.path.join(common.GEN, "C08Src.v"), [
        (os.path.join(env.SRC, "saml2", "discovery.py"), "DiscoveryServer.verify_return",
         {"name": "src_verify_return", "params": ["self", "entity_id", "return_url"],
          "extra_params": [("discovery_response", "pyval -> pyval")],
          "calls": {"self.metadata.discovery_response": lambda a: "(discovery_response %s)" % a[0]}})])
    src2 = regenerate_source2(os.path.join(common.GEN, "C08Src2.v"))
    out = dict(src)
    out.update({"obligations": src["obligations"] + src2["obligations"], "discharged": src["discharged"] + src2["discharged"],
                "untranslatable": list(src.get("untranslatable", [])) + list(src2["untranslatable"]),
                "changed": bool(src.get("changed")) or bool(src2["changed"]),
                "translated": list(src.get("translated", [])) + list(src2["translated"]), "source": src, "source2": src2})
    return out


TRUSTED = ["source-to-Gallina translator harness/py2coq.py + coq/theories/Base/Py.v (DiscoveryServer.verify_return is re-translated "
           "from the source text on every run; c08_source_verify_return proves it equal to the model)",
           "source-to-Gallina translator v2 harness/py2coq2.py + coq/theories/Base/Py2.v, with the local pre-pass of "
           "harness/c08.py regenerate_source2 (`X[K]` as a statement -> `_probe = X[K]`): Entity.pick_binding, "
           "Entity.response_args, Base._sso_location, MetadataStore.service, MetadataStore.ext_service are re-translated "
           "from the source text on every run (coq/gen/C08Src2.v); c08_source2_pick_binding / _response_args / "
           "_sso_location / _store_service / _store_ext_service prove them equal to the model for all inputs (external "
           "calls - per-source lookups, the per-service wrapper, all_locations / locations / next - are hypotheses; "
           "_sso_location: not the 'too many IdPs' raise)",
           "metadata templates and abstraction in harness/c08.py (abstract metadata = what the templates render)",
           "observation wrappers around Entity.apply_binding / create_logout_request / send in harness/c08.py"]
ASSUMPTIONS = ["every endpoint element carries non-empty Binding and Location attributes; no AttributeConsumingService "
               "elements (they have no Binding; AttributeQuery answering then raises KeyError)",
               "role descriptors support SAML 2.0 and entity ids are unique within a source (C11 covers the store)",
               "bindings passed by the caller are non-empty strings",
               "do_logout: not expired (expire=None); the final LogoutError raised because the stub transport answers "
               "nothing is not part of the observation"]

R, P, S, A, O, U = (world.BINDING_HTTP_REDIRECT, world.BINDING_HTTP_POST, world.BINDING_SOAP,
                    world.BINDING_HTTP_ARTIFACT, world.BINDING_PAOS, world.BINDING_URI)
D = world.BINDING_DISCO
BOGUS = "urn:example:bogus-binding"
BSHORT = {R: "bR", P: "bP", S: "bS", A: "bA", O: "bO", U: "bU", D: "bD"}
SSHORT = {"assertion_consumer_service": "sACS", "single_logout_service": "sSLO", "manage_name_id_service": "sMNI",
          "single_sign_on_service": "sSSO"}
RSHORT = {"spsso_descriptor": "rSP", "idpsso_descriptor": "rIDP"}
TAG = {"assertion_consumer_service": "AssertionConsumerService", "single_logout_service": "SingleLogoutService",
       "manage_name_id_service": "ManageNameIDService", "single_sign_on_service": "SingleSignOnService",
       "artifact_resolution_service": "ArtifactResolutionService", "name_id_mapping_service": "NameIDMappingService"}
# round 7: the two other services that must not have a ResponseLocation; rendered only by the stray-ResponseLocation
# worlds (kept out of SSHORT: section C draws from list(SSHORT))
SSHORT7 = {"artifact_resolution_service": "S_ARS", "name_id_mapping_service": "S_NIM"}


def sshort(svc):
    return SSHORT.get(svc) or SSHORT7[svc]


# schema order of the endpoint elements inside a role descriptor
SP_ORDER = ["single_logout_service", "manage_name_id_service", "assertion_consumer_service"]
IDP_ORDER = ["artifact_resolution_service", "single_logout_service", "manage_name_id_service", "single_sign_on_service",
             "name_id_mapping_service"]

_SRPA = [S, R, P, A]
PREFS = {
    "default": {"single_logout_service": _SRPA, "manage_name_id_service": _SRPA,
                "assertion_consumer_service": [P, R, A], "single_sign_on_service": [R, P, A]},
    "alt": {"single_logout_service": [P, R], "manage_name_id_service": [R],
            "assertion_consumer_service": [A, R, O, P], "single_sign_on_service": [P]},
    "noacs": {"single_logout_service": [R, S], "single_sign_on_service": [R]},
}
SLO_PREFS = {"default": _SRPA, "alt": [P, R], "noacs": [R, S]}
UNKNOWN = "https://nobody.example.org/x.xml"


# ------------------------------------------------------------------------------------------- worlds
def gen_endpoints(rng, host, svc, bindings, indexed, weird, pool):
    """list of endpoint dicts for one service of one descriptor."""
    eps = []
    short = {"assertion_consumer_service": "acs", "single_logout_service": "slo", "manage_name_id_service": "mni",
             "single_sign_on_service": "sso"}[svc]
    n = 0
    for b in bindings:
        for _ in range(rng.choice([1, 1, 2, 2, 3, 4] if svc == "assertion_consumer_service" else [1, 1, 2])):
            tagb = {R: "r", P: "p", S: "s", A: "a", O: "o", BOGUS: "x"}.get(b, "z")
            loc = "https://%s/%s/%s%d" % (host, short, tagb, n)
            k = rng.random()
            if k < 0.10 and pool:
                loc = rng.choice(pool)                      # a location also registered elsewhere
            elif k < 0.16:
                loc += "?a=b&c=d"                           # query part: glue character, escaping
            # pad: XML-level whitespace around the attribute values; the store strips it on load (mdie._eval)
            ep = {"b": b, "l": loc, "i": None, "r": None, "pad": rng.random() < 0.06}
            if indexed:
                ep["i"] = str(n)
                if weird:
                    w = rng.random()
                    if w < 0.15:
                        ep["i"] = None
                    elif w < 0.30:
                        ep["i"] = rng.choice(["x", "01", "-1", "1x"])
                    elif w < 0.45:
                        ep["i"] = str(max(0, n - 1))       # duplicate index
            if svc != "single_sign_on_service" and rng.random() < (0.30 if svc != "assertion_consumer_service" else 0.08):
                ep["r"] = "https://%s/%s/resp%d" % (host, short, n)
            eps.append(ep)
            pool.append(loc)
            n += 1
    rng.shuffle(eps)
    return eps


# ---- location SHAPES (strengthening round 2).  The ordinary worlds register only plain ".../acs/p0", ".../disco"
# locations; the shape worlds also register what metadata in the field has: the bare site root with and without its
# slash, directory-style locations, doubled slashes, a query part (empty, complete, open-ended), an explicit port,
# mixed case, percent-escapes, dot segments, a dangling '#', '?', '&', another scheme.  {h} = host, {p} = base path.
DISCO_SHAPES = [
    "https://{h}{p}/disco", "https://{h}{p}/disco/", "https://{h}{p}/", "https://{h}{p}", "https://{h}{p}/Shibboleth.sso/",
    "https://{h}{p}/Shibboleth.sso/DS", "https://{h}{p}/disco//", "https://{h}{p}/disco?return=", "https://{h}{p}/disco?a=b&c=d",
    "https://{h}:8443{p}/disco", "https://{h}:8443{p}/", "https://{h}{p}/Disco/Login", "https://{h}{p}/disco%2Fds",
    "https://{h}{p}/disco/.", "https://{h}{p}/disco#", "https://{h}{p}/disco?", "https://{h}{p}/disco?a=b&",
    "http://{h}{p}/disco/", "https://{h}{p}/a/b/c/", "https://{h}{p}/disco.php", "https://{h}{p}/~user/disco/",
    "https://{h}{p}/disco/./", "https://{h}{p}/d",
]
ACS_TAILS = ["/", "//", "?", "?a=b", "#", ".", "/.", "%2F", "/Index.PHP", "/post/"]
ACS_QTAILS = ["&", "&x=", "#", "/"]


class Shapes:
    """hands out the location shapes in turn, so that a run with n shape worlds meets every shape"""

    def __init__(self, rng):
        self.rng = rng
        self.k = 0
        self.t = 0

    def disco(self, host):
        h, _, base = host.partition("/")
        out = []
        for _ in range(self.rng.choice([1, 2, 2, 3])):
            out.append(DISCO_SHAPES[self.k % len(DISCO_SHAPES)].format(h=h, p="/" + base if base else ""))
            self.k += 1
        self.rng.shuffle(out)
        return out

    def acs(self, loc):
        tails = ACS_QTAILS if "?" in loc else ACS_TAILS
        self.t += 1
        if self.t % 7 == 0:
            i = loc.rfind("/")
            return loc[:i] + loc[i:].upper()
        return loc + tails[self.t % len(tails)]


def gen_sp_descriptor(rng, host, weird, pool, shapes=None):
    acs_b = rng.choice([[P], [P, R], [R, P], [P, R, A], [P, O], [R], [P, A, BOGUS], [A], [P, R, A, O]])
    slo_b = rng.choice([[], [R], [R, P, S], [S], [P]])
    mni_b = rng.choice([[], [], [S], [R, P]])
    eps = []
    for svc, bs, idx in (("single_logout_service", slo_b, False), ("manage_name_id_service", mni_b, False),
                         ("assertion_consumer_service", acs_b, True)):
        for e in gen_endpoints(rng, host, svc, bs, idx, weird, pool):
            eps.append((svc, e))
    disco = []
    if rng.random() < 0.7:
        for j in range(rng.choice([1, 1, 2, 3])):
            b = D if rng.random() < 0.7 else rng.choice([P, "urn:example:other-disco"])
            loc = "https://%s/disco%s" % (host, ["", "/d1", "2", "/d1/sub"][j % 4])
            if rng.random() < 0.08 and pool:
                loc = rng.choice(pool)
            disco.append((b, loc))
    if shapes is not None:
        disco = []
        if rng.random() < 0.9:
            for loc in shapes.disco(host):
                b = D if rng.random() < 0.8 else rng.choice([P, "urn:example:other-disco"])
                disco.append((b, loc))
        for svc, e in eps:
            if svc == "assertion_consumer_service" and rng.random() < 0.5:
                e["l"] = shapes.acs(e["l"])
    return {"role": "spsso_descriptor", "eps": eps, "disco": disco}


def gen_idp_descriptor(rng, host, pool):
    sso_b = rng.choice([[R], [R, P], [R, P], [P], [P, R, S], [R, A], [R, P, A], [S, R], [S], [R, BOGUS], [BOGUS], [R, P, O]])
    slo_b = rng.choice([[], [S], [S, R, P], [R], [P, R], [A, R], [BOGUS, R], [R, S], [O]])
    mni_b = rng.choice([[], [], [S]])
    eps = []
    for svc, bs in (("single_logout_service", slo_b), ("manage_name_id_service", mni_b), ("single_sign_on_service", sso_b)):
        for e in gen_endpoints(rng, host, svc, bs, False, False, pool):
            eps.append((svc, e))
    return {"role": "idpsso_descriptor", "eps": eps, "disco": []}


def validates(ent):
    """can this entity live inside an EntitiesDescriptor (whole-document validation)?"""
    for d in ent["descs"]:
        for svc, e in d["eps"]:
            if svc == "assertion_consumer_service" and (e["i"] is None or not e["i"].isdigit()):
                return False
    return True


def gen_world(rng, wid, n_idp=None, shapes=None):
    n_sp = rng.randint(1, 3)
    n_idp = rng.choice([0, 1, 2, 2, 3, 3]) if n_idp is None else n_idp
    pool = []
    ents = []
    for k in range(n_sp):
        host = "sp%d.example.org" % (k + 1)
        eid = "https://%s/sp.xml" % host
        descs = [gen_sp_descriptor(rng, host, rng.random() < 0.35, pool, shapes)]
        r = rng.random()
        if r < 0.12:
            descs.append(gen_sp_descriptor(rng, host + "/second", False, pool, shapes))    # two SPSSODescriptors
        elif r < 0.22:
            descs.append(gen_idp_descriptor(rng, host, pool))                      # SP that is also an IdP
        ents.append({"id": eid, "descs": descs})
    for k in range(n_idp):
        host = "idp%d.example.org" % (k + 1)
        eid = "https://%s/idp.xml" % host
        descs = [gen_idp_descriptor(rng, host, pool)]
        if rng.random() < 0.12:
            descs.insert(0, gen_sp_descriptor(rng, host, False, pool, shapes))
        ents.append({"id": eid, "descs": descs})
    # variants of some entities for another source: the same entityID with other endpoints / bindings / role.
    # MetadataStore.service (since d8b1d2a4) and with_descriptor (since 18964551) answer from the first source that
    # has the entity, ext_service still falls through; every second world has at least one repeated entity
    variants = []
    forced = rng.randrange(len(ents)) if wid % 2 == 0 else -1
    for k, e in enumerate(ents):
        if rng.random() < 0.35 or k == forced:
            host = e["id"].split("/")[2] + "/v2"
            if e["descs"][0]["role"] == "spsso_descriptor" and rng.random() < 0.8:
                variants.append({"id": e["id"], "descs": [gen_sp_descriptor(rng, host, False, pool, shapes)]})
            else:
                variants.append({"id": e["id"], "descs": [gen_idp_descriptor(rng, host, pool)]})
    allents = ents + variants
    rng.shuffle(allents)
    sources = []
    for e in allents:
        placed = False
        if validates(e):
            cands = [s for s in sources if s["multi"] and all(x["id"] != e["id"] for x in s["ents"])]
            if cands and rng.random() < 0.6:
                rng.choice(cands)["ents"].append(e)
                placed = True
        if not placed:
            sources.append({"multi": validates(e) and rng.random() < 0.6, "ents": [e]})
    for s in sources:
        if len(s["ents"]) > 1:
            s["multi"] = True
    if shapes is not None:
        pool = pool + [e["l"] for x in ents + variants for d in x["descs"] for _, e in d["eps"]]
    return {"wid": wid, "sources": sources, "pool": sorted(set(pool))}


def render_endpoint(svc, e):
    pad = (lambda v: " " + v + "\n") if e.get("pad") else (lambda v: v)
    extra = "" if e["r"] is None else " ResponseLocation=%s" % quoteattr(pad(e["r"]))
    idx = "" if e["i"] is None else " index=%s" % quoteattr(pad(e["i"]))
    return "<md:%s Binding=%s Location=%s%s%s/>" % (TAG[svc], quoteattr(pad(e["b"])), quoteattr(pad(e["l"])), idx, extra)


def render_desc(d):
    order = SP_ORDER if d["role"] == "spsso_descriptor" else IDP_ORDER
    body = ""
    if d["disco"]:
        body += "<md:Extensions>%s</md:Extensions>" % "".join(
            '<idpdisc:DiscoveryResponse xmlns:idpdisc="urn:oasis:names:tc:SAML:profiles:SSO:idp-discovery-protocol" '
            "Binding=%s Location=%s index=\"%d\"/>" % (quoteattr(b), quoteattr(l), j) for j, (b, l) in enumerate(d["disco"]))
    for svc in order:
        body += "".join(render_endpoint(s, e) for s, e in d["eps"] if s == svc)
    tag = "SPSSODescriptor" if d["role"] == "spsso_descriptor" else "IDPSSODescriptor"
    return "<md:%s protocolSupportEnumeration=%s>%s</md:%s>" % (tag, quoteattr(world.PROTO), body, tag)


def render_entity(e):
    return "<md:EntityDescriptor %s entityID=%s>%s</md:EntityDescriptor>" % (
        world.MD_NS, quoteattr(e["id"]), "".join(render_desc(d) for d in e["descs"]))


def render_world(w):
    out = []
    for s in w["sources"]:
        if s["multi"]:
            out.append(world.entities(*[render_entity(e) for e in s["ents"]]))
        else:
            out.append(render_entity(s["ents"][0]))
    return out


# ------------------------------------------------------------------------------------------- world queries (generator side)
def all_entities(w):
    return [e for s in w["sources"] for e in s["ents"]]


def ids_with(w, role):
    out = []
    for e in all_entities(w):
        if any(d["role"] == role for d in e["descs"]) and e["id"] not in out:
            out.append(e["id"])
    return out


def eps_of(w, eid, role, svc):
    return [e for x in all_entities(w) if x["id"] == eid for d in x["descs"] if d["role"] == role
            for s, e in d["eps"] if s == svc]


def lookalike(rng, s):
    k = rng.randint(0, 6)
    if k == 0:
        i = rng.randrange(8, len(s))
        return s[:i] + s[i].swapcase() + s[i + 1:] if s[i].swapcase() != s[i] else s + "X"
    if k == 1:
        return s[:-1]
    if k == 2:
        return s + rng.choice(["/", "x", "?a=b", "#f", ".evil.com", "%20"])
    if k == 3:
        return rng.choice(["x", "https://evil.example.com/?u="]) + s
    if k == 4:
        return s.replace("https://", "http://")
    if k == 5:
        return s.replace("example.org", "example.org.evil.com")
    return s + " "


# ---- the NEIGHBOURHOOD of a registered location (strengthening round 2): every URL a comparison that is sloppier
# than the one the property asks for (== for consumer-service URLs, literal "starts with" for discovery return URLs)
# could take for the registered one.  Deterministic and complete per location: no sampling.
CONT = [".evil.example/", "@evil.example/", ":8443/x", "x", "-evil/", "?x=1", "#f", "/", "//", "/../x", "%2F", " ",
        "\\evil.example/", "\u00e9"]
CONT_FAR = [".evil.example/", "/x", "?u=1"]


def url_cuts(L):
    """(class, proper prefix of L): what normalising / trimming the REGISTERED location would compare with"""
    out = [("cut-1", L[:-1])]
    for ch in "/?#&=.":
        out.append(("rstrip" + ch, L.rstrip(ch)))
    out.append(("rstrip-all", L.rstrip("/?#&=. ")))
    i = L.rfind("/")
    if i > 8:
        out += [("dirname/", L[:i + 1]), ("dirname", L[:i])]
    for ch in "?#":
        if ch in L:
            out += [("before" + ch, L.split(ch)[0]), ("upto" + ch, L.split(ch)[0] + ch)]
    m = re.match(r"[a-z]+://[^/?#]*", L)
    far = [("cut-2", L[:-2])]
    if m:
        far += [("origin", m.group(0)), ("origin/", m.group(0) + "/"), ("host-only", m.group(0).rsplit(":", 1)[0] if
                 m.group(0).count(":") > 1 else m.group(0))]
    far.append(("half", L[:len(L) // 2]))
    near = [(c, u) for c, u in out if u != L]
    far = [(c, u) for c, u in far if u != L]
    return near, far


def url_neighbours(L, compact=False):
    """[(class, url)], urls distinct, first class wins.  Classes starting with "ext" start with L."""
    out = [("exact", L)]
    for t in ["?x=1", "/more", "#f", "&x=1", "x", ".evil.com/", "@evil.example/", ":8443/", "%2e", "/", "?entityID=x", " ", "\n"]:
        out.append(("ext" + t[:1], L + t))
    near, far = url_cuts(L)
    conts = CONT[:3] if compact else CONT
    for c, u in near:
        out.append((c, u))
        for t in conts:
            out.append((c + "+" + t.strip("/")[:6], u + t))
    for c, u in far:
        out.append((c, u))
        for t in (CONT_FAR[:1] if compact else CONT_FAR):
            out.append((c + "+" + t.strip("/")[:6], u + t))
    # case
    m = re.match(r"([a-z]+)://([^/?#]*)(.*)", L)
    sch, auth, rest = m.groups() if m else ("", "", L)
    out += [("upper", L.upper()), ("lower", L.lower()), ("swapcase", L.swapcase())]
    if m:
        out += [("host-upper", "%s://%s%s" % (sch, auth.upper(), rest)), ("scheme-upper", "%s://%s%s" % (sch.upper(), auth, rest)),
                ("path-upper", "%s://%s%s" % (sch, auth, rest.upper())), ("path-lower", "%s://%s%s" % (sch, auth, rest.lower())),
                # scheme
                ("scheme-swap", "%s://%s%s" % ("http" if sch == "https" else "https", auth, rest)),
                ("scheme-relative", "//%s%s" % (auth, rest)), ("no-scheme", auth + rest), ("scheme-1slash", "%s:/%s%s" % (sch, auth, rest)),
                # authority
                ("userinfo", "%s://user@%s%s" % (sch, auth, rest)), ("port-default", "%s://%s:443%s" % (sch, auth, rest)),
                ("port-other", "%s://%s:8443%s" % (sch, auth.split(":")[0], rest)), ("host-dot", "%s://%s.%s" % (sch, auth, rest)),
                ("subdomain", "%s://evil.%s%s" % (sch, auth, rest)), ("www", "%s://www.%s%s" % (sch, auth, rest)),
                ("host-typo", "%s://%s%s" % (sch, auth.replace("example", "examp1e", 1), rest)),
                ("host-suffix", "%s://%s.evil.example%s" % (sch, auth, rest)),
                ("host-as-userinfo", "%s://%s@evil.example%s" % (sch, auth, rest)),
                # same host, other path
                ("same-host-other-path", "%s://%s/other" % (sch, auth)), ("same-host-root", "%s://%s/" % (sch, auth)),
                # path spelling
                ("dot-segment", "%s://%s/.%s" % (sch, auth, rest)), ("dotdot-segment", "%s://%s/x/..%s" % (sch, auth, rest)),
                ("double-slash", "%s://%s/%s" % (sch, auth, rest)), ("backslash", "%s://%s%s" % (sch, auth, rest.replace("/", "\\"))),
                ("pct-encoded", "%s://%s%s" % (sch, auth, re.sub(r"[a-zA-Z]", lambda c: "%%%02X" % ord(c.group(0)), rest, count=1))),
                ("pct-decoded", "%s://%s%s" % (sch, auth, rest.replace("%2F", "/").replace("%2f", "/"))),
                ("slash-pct", "%s://%s%s" % (sch, auth, rest.replace("/", "%2F"))),
                ("query-reordered", "%s://%s%s" % (sch, auth, re.sub(r"\?([^&#]*)&([^&#]*)", r"?\2&\1", rest)))]
    # white space / embedding
    out += [("lead-space", " " + L), ("lead-tab", "\t" + L), ("lead-newline", "\n" + L), ("lead-x", "x" + L), ("tail-1", L[1:]),
            ("embedded-query", "https://evil.example/?u=" + L), ("embedded-path", "https://evil.example/" + L),
            ("embedded-fragment", "https://evil.example/#" + L), ("embedded-userinfo", "https://evil.example/@" + L),
            ("reversed", L[::-1]), ("doubled", L + L)]
    seen = set()
    res = []
    for c, u in out:
        if u not in seen:
            seen.add(u)
            res.append((c, u))
    return res


# ------------------------------------------------------------------------------------------- cases
def mk(w, op, tag):
    return {"world": w, "op": op, "tag": tag}


def url_classes(rng, w, sp, pb):
    """the 7 AssertionConsumerServiceURL classes for SP sp when the binding in play is pb."""
    acs = eps_of(w, sp, "spsso_descriptor", "assertion_consumer_service")
    b0 = pb if pb in [e["b"] for e in acs] else (acs[0]["b"] if acs else P)
    for_b = [e["l"] for e in acs if e["b"] == b0]
    other_b = [e["l"] for e in acs if e["b"] != b0 and e["l"] not in for_b]
    mine = {e["l"] for e in acs}
    other_sp = [e["l"] for x in ids_with(w, "spsso_descriptor") if x != sp
                for e in eps_of(w, x, "spsso_descriptor", "assertion_consumer_service") if e["l"] not in mine]
    reg = rng.choice(for_b) if for_b else "https://unregistered.example.org/acs0"
    return [
        ("absent", None),
        ("empty", ""),
        ("for-binding", reg),
        ("other-binding", rng.choice(other_b) if other_b else "https://unregistered.example.org/acs1"),
        ("other-sp", rng.choice(other_sp) if other_sp else "https://sp9.example.org/acs/p0"),
        ("unregistered", "https://evil.example.com/acs"),
        ("lookalike", lookalike(rng, reg)),
    ]


def index_classes(rng, w, sp):
    acs = eps_of(w, sp, "spsso_descriptor", "assertion_consumer_service")
    valid = [e["i"] for e in acs if e["i"] is not None]
    return [("absent", None), ("valid", rng.choice(valid) if valid else "0"), ("unknown", "99"), ("nonnum", rng.choice(["x", "1x", " 1", ""]))]


PB_CLASSES = [("POST", P), ("Redirect", R), ("Artifact", A), ("PAOS", O), ("bogus", BOGUS), ("absent", None)]
CALLER_BINDINGS = [[], [], [], [S], [P], [R], [O], [P, R], [S, P], [A, P], [BOGUS], [R, S], [BOGUS, R, P]]
MSG_CLASSES = ["AuthnRequest", "LogoutRequest", "ManageNameIDRequest", "AttributeQuery", "ArtifactResolve",
               "AssertionIDRequest", "NameIDMappingRequest", "AuthnQuery"]


def answer_op(cls, issuer, url, idx, pb, bindings, descr="", etype="idp", prefs="default", none_arg=True):
    return {"k": "answer", "cls": cls, "issuer": issuer, "url": url, "idx": idx, "pb": pb, "bindings": bindings,
            "descr": descr, "etype": etype, "prefs": prefs, "none_arg": none_arg}


def generate(ctx):
    rng = ctx.rng
    thorough = ctx.thorough
    n_worlds = 60 if thorough else 20
    worlds = [gen_world(rng, i, n_idp=(1 if i % 3 == 1 else None)) for i in range(n_worlds)]
    cases = []
    for w in worlds:
        sps = ids_with(w, "spsso_descriptor")
        idps = ids_with(w, "idpsso_descriptor")
        everyone = sps + [x for x in idps if x not in sps]
        full = thorough or w["wid"] < 6
        idpish = (idps * 4 or [UNKNOWN]) + sps + [UNKNOWN]          # mostly IdPs
        spish = (sps * 4) + idps + [UNKNOWN]                        # mostly SPs
        # A. the quantifier's request alphabet on the focus SP
        focus = sps[w["wid"] % len(sps)]
        combos = []
        for pbn, pb in PB_CLASSES:
            ucs = url_classes(rng, w, focus, pb)
            ics = index_classes(rng, w, focus)
            for un, u in ucs:
                for inn, i in ics:
                    combos.append((un, u, inn, i, pbn, pb))
        if not full:
            combos = rng.sample(combos, 24)
        for un, u, inn, i, pbn, pb in combos:
            op = answer_op("AuthnRequest", focus, u, i, pb, [], none_arg=rng.random() < 0.5)
            cases.append(mk(w, op, "authn:%s/%s/%s" % (un, inn, pbn)))
        # B. message classes x caller bindings x descriptor type x entity type x issuer x preferences
        for _ in range(60 if thorough else 26):
            cls = rng.choice(MSG_CLASSES[:3] * 3 + MSG_CLASSES)
            issuer = rng.choice(spish if rng.random() < 0.7 else idpish)
            if rng.random() < 0.15:
                issuer = rng.choice([" ", "\n", "\t "]) + issuer + rng.choice([" ", "\n"])
            u = i = pb = None
            if cls == "AuthnRequest":
                pb = rng.choice(PB_CLASSES)[1]
                if issuer.strip() in sps:
                    u = rng.choice(url_classes(rng, w, issuer.strip(), pb))[1]
                    i = rng.choice(index_classes(rng, w, issuer.strip()))[1]
            op = answer_op(cls, issuer, u, i, pb, rng.choice(CALLER_BINDINGS), rng.choice(["", "", "spsso", "idpsso"]),
                           rng.choice(["idp", "idp", "sp"]), rng.choice(["default", "default", "alt", "noacs"]),
                           rng.random() < 0.5)
            cases.append(mk(w, op, "answer:" + cls))
        # C. pick_binding for an entity, no request
        for _ in range(30 if thorough else 10):
            op = {"k": "pick", "svc": rng.choice(list(SSHORT)), "bindings": rng.choice(CALLER_BINDINGS),
                  "descr": rng.choice(["", "spsso", "idpsso"]), "eid": rng.choice(everyone * 3 + [UNKNOWN]),
                  "etype": rng.choice(["idp", "sp"]), "prefs": rng.choice(["default", "alt", "noacs"])}
            cases.append(mk(w, op, "pick"))
        # D/E. SP side: sign-on endpoint
        eids = idps + sps[:1] + [None, "", UNKNOWN]
        sso_b = [R, P, S, A, O, BOGUS]
        pairs = [(e, b) for e in eids for b in sso_b]
        for e, b in (pairs if full else rng.sample(pairs, min(len(pairs), 16))):
            cases.append(mk(w, {"k": "sso", "eid": e, "binding": b}, "sso"))
        eids = idps * 3 + sps[:1] + [None, None, "", UNKNOWN]
        for _ in range(40 if thorough else 14):
            e, b = rng.choice(eids), rng.choice([None, None, "", R, R, P, P, S, A, O, U, BOGUS])
            cases.append(mk(w, {"k": "negotiate", "eid": e, "binding": b}, "negotiate"))
        for _ in range(30 if thorough else 10):
            e, b = rng.choice(eids), rng.choice(["", R, R, R, P, P, S, A, BOGUS])
            cases.append(mk(w, {"k": "authenticate", "eid": e, "binding": b}, "authenticate"))
        # F. SP side: logout
        for _ in range(50 if thorough else 16):
            n = rng.choice([1, 1, 2, 3])
            lst = [rng.choice((idps * 8 or [UNKNOWN]) + sps[:1] + [UNKNOWN]) for _ in range(n)]
            op = {"k": "logout", "eids": lst, "expected": rng.choice([None, None, None, "", R, P, S, A, O, BOGUS]),
                  "prefs": rng.choice(["default", "default", "alt", "noacs"])}
            cases.append(mk(w, op, "logout"))
        # G. discovery service
        for e in sps + idps[:1] + [UNKNOWN]:
            mine = [l for x in all_entities(w) if x["id"] == e for d in x["descs"] if d["role"] == "spsso_descriptor"
                    for b, l in d["disco"] if b == D]
            otherb = [l for x in all_entities(w) if x["id"] == e for d in x["descs"] for b, l in d["disco"] if b != D]
            others = [l for x in all_entities(w) if x["id"] != e for d in x["descs"] for b, l in d["disco"]
                      if b == D and not any(l.startswith(m) for m in mine)]
            reg = rng.choice(mine) if mine else "https://sp1.example.org/disco"
            urls = [("exact", reg), ("extends", reg + rng.choice(["?x=1", "/more", "#f"])),
                    ("lookalike", reg + rng.choice([".evil.com/", "x", "%2e"])), ("shorter", reg[:-1]),
                    ("other-sp", rng.choice(others) if others else "https://sp8.example.org/disco"),
                    ("other-binding", rng.choice(otherb) if otherb else "https://sp8.example.org/odisco"),
                    ("unregistered", "https://evil.example.com/disco"), ("empty", "")]
            for un, u in (urls if full else rng.sample(urls, 4)):
                cases.append(mk(w, {"k": "disco", "eid": e, "url": u}, "disco:" + un))
    # ---- strengthening round 2: the sections above are unchanged (same draws from ctx.rng); what follows draws from a
    # generator of its own, seeded from ctx.rng afterwards
    sub = random.Random(rng.getrandbits(64))
    shapes = Shapes(sub)
    xworlds = [gen_world(sub, n_worlds + i, n_idp=(1 if i % 3 == 1 else None), shapes=shapes)
               for i in range(24 if thorough else 6)]
    for w in xworlds:
        cases.extend(neighbourhood_cases(sub, w, True, thorough))
    for w in worlds:
        cases.extend(neighbourhood_cases(sub, w, False, thorough))
    # ---- strengthening round 3: sequences on long-lived entities (again a generator of its own, so that everything
    # above draws what it drew before).  Every world gets one later version (the kinds in turn; thorough: 3 kinds);
    # the sequence cases are spread over the case list (they take longer than a single operation)
    sub3 = random.Random(rng.getrandbits(64))
    seqs, versions = [], []
    for j, w in enumerate(worlds + xworlds):
        for t in range(3 if thorough else 1):
            kind = REFRESH_KINDS[(j + 3 * t) % len(REFRESH_KINDS)]
            w2 = refresh(sub3, w, kind, 1000 + len(versions))
            versions.append(w2)
            seqs.extend(sequence_cases(sub3, w, w2, kind, thorough))
    # ---- strengthening round 7: attributes the schema allows but the metadata specification forbids.  A
    # SingleSignOnService MUST NOT carry a ResponseLocation (saml-metadata 2.4.3; mdstore.response_locations drops it):
    # the worlds above never render one, so the exclusion was dead code for the generator.  Own PRNG again.
    sub7 = random.Random(rng.getrandbits(64))
    strays = []
    withidp = [w for w in worlds + xworlds if ids_with(w, "idpsso_descriptor")]
    for j, w in enumerate(withidp[:: max(1, len(withidp) // (18 if thorough else 6))][: (18 if thorough else 6)]):
        w7 = stray_response_world(sub7, w, 3000 + j)
        strays.append(w7)
        cases.extend(stray_response_cases(sub7, w7))
        if j < (6 if thorough else 2):
            # long-lived entities: the plain version and the one with the stray attributes swap
            seqs.extend(c for c in sequence_cases(sub7, w, w7, "stray-response", thorough) if c["op"]["role"] == "sp")
    versions = versions + strays
    stride = max(1, len(cases) // max(1, len(seqs)))
    for i, c in enumerate(seqs):
        cases.insert(min(len(cases), i * (stride + 1)), c)
    publish_definitions(worlds + xworlds + versions)
    return cases


def disco_registered(w, e):
    return [l for x in all_entities(w) if x["id"] == e for d in x["descs"] if d["role"] == "spsso_descriptor"
            for b, l in d["disco"] if b == D]


def eid_lookalikes(e):
    return [("eid-cut", e[:-1]), ("eid-slash", e + "/"), ("eid-upper", e.upper()), ("eid-space", " " + e), ("eid-x", e + "x"),
            ("eid-host", "/".join(e.split("/")[:3])), ("eid-empty", "")]


def neighbourhood_cases(rng, w, shaped, thorough):
    """H. discovery: for every requester and EVERY discovery-response location registered for it, the complete
    neighbourhood of that location as return URL; look-alike requester ids.  I. the same neighbourhood of the
    registered consumer-service URLs as AssertionConsumerServiceURL.  Ordinary worlds: a sample of each."""
    out = []
    sps = ids_with(w, "spsso_descriptor")
    idps = ids_with(w, "idpsso_descriptor")
    for e in sps + idps[:1]:
        mine = sorted(set(disco_registered(w, e)))
        otherb = sorted({l for x in all_entities(w) if x["id"] == e for d in x["descs"] for b, l in d["disco"] if b != D})
        others = sorted({l for x in all_entities(w) if x["id"] != e for d in x["descs"] for b, l in d["disco"] if b == D})
        for L in mine:
            nb = url_neighbours(L)
            if not (shaped or thorough):
                nb = rng.sample(nb, 8)
            for un, u in nb:
                out.append(mk(w, {"k": "disco", "eid": e, "url": u}, "disco-nb:" + un))
        # locations registered for somebody else / under another binding, and THEIR slash-less, cut, continued forms
        for cls, pool in (("other-sp", others), ("other-binding", otherb)):
            for L in (pool if thorough else pool[:2] if shaped else pool[:1]):
                for un, u in [("exact", L), ("ext", L + "?x=1"), ("cut-1", L[:-1]), ("rstrip/", L.rstrip("/") + ".evil.example/")]:
                    out.append(mk(w, {"k": "disco", "eid": e, "url": u}, "disco-%s:%s" % (cls, un)))
        if mine and (shaped or thorough):
            for un, x in eid_lookalikes(e):
                out.append(mk(w, {"k": "disco", "eid": x, "url": mine[0]}, "disco-" + un))
    # I. consumer-service URL
    for sp in (sps if shaped or thorough else sps[:1]):
        acs = eps_of(w, sp, "spsso_descriptor", "assertion_consumer_service")
        if not acs:
            continue
        # the endpoints with an unusual location first
        acs = sorted(acs, key=lambda e: (not re.search(r"[^a-z0-9]$|[A-Z]", e["l"]), e["l"], e["b"]))
        for ep in acs[:(3 if thorough else 2 if shaped else 1)]:
            nb = url_neighbours(ep["l"], compact=True)
            if not (shaped or thorough):
                nb = rng.sample(nb, 6)
            for un, u in nb:
                idx = None if rng.random() < 0.8 else rng.choice(index_classes(rng, w, sp))[1]
                pb = ep["b"] if rng.random() < 0.7 else rng.choice(PB_CLASSES)[1]
                bindings = [] if rng.random() < 0.7 else rng.choice(CALLER_BINDINGS)
                op = answer_op("AuthnRequest", sp, u, idx, pb, bindings, none_arg=rng.random() < 0.5)
                out.append(mk(w, op, "authn-nb:" + un))
    return out


# ---- stray ResponseLocation attributes (strengthening round 7)
STRAY_KINDS = ["differs", "evil", "same", "other-endpoint", "padded", "absent"]
PICK_BINDINGS = [[], [S], [P], [R], [O], [A], [R, P], [S, P], [P, S], [BOGUS, R, P]]


def stray_response_world(rng, w, wid):
    """a copy of w in which the SingleSignOnService elements carry a ResponseLocation (the kinds in turn, starting at a
    random one: another URL on the host, a URL on a foreign host, the Location itself, the Location of another
    registered endpoint, XML white space around it, none), and the other services of the IdP roles mostly one too"""
    import copy

    w7 = copy.deepcopy(w)
    w7["wid"] = wid
    n = rng.randrange(len(STRAY_KINDS))
    for x in all_entities(w7):
        for d in x["descs"]:
            if d["role"] != "idpsso_descriptor":
                continue
            host0 = x["id"].split("/")[2]
            for j, b in enumerate(rng.choice([[S], [S, S], [S, P], []])):
                d["eps"].append(("artifact_resolution_service",
                                 {"b": b, "l": "https://%s/ars/%d" % (host0, j), "i": str(j), "pad": False,
                                  "r": rng.choice([None, "https://%s/ars/stray%d" % (host0, j), "https://evil.example.com/ars"])}))
            for j, b in enumerate(rng.choice([[S], [S, R], [P], []])):
                d["eps"].append(("name_id_mapping_service",
                                 {"b": b, "l": "https://%s/nim/%d" % (host0, j), "i": None, "pad": False,
                                  "r": rng.choice([None, "https://%s/nim/stray%d" % (host0, j), "https://evil.example.com/nim"])}))
            for svc, e in d["eps"]:
                host = e["l"].split("/")[2]
                if svc in SSHORT7:
                    continue
                if svc != "single_sign_on_service":
                    if e["r"] is None and rng.random() < 0.5:
                        e["r"] = "https://%s/%s/resp-x%d" % (host, svc[:3], n)
                    continue
                kind = STRAY_KINDS[n % len(STRAY_KINDS)]
                n += 1
                if kind == "differs":
                    e["r"] = "https://%s/sso/stray%d" % (host, n)
                elif kind == "evil":
                    e["r"] = "https://evil.example.com/sso/%d" % n
                elif kind == "same":
                    e["r"] = e["l"]
                elif kind == "other-endpoint":
                    e["r"] = rng.choice(w7["pool"]) if w7["pool"] else e["l"] + "x"
                elif kind == "padded":
                    e["r"] = "https://%s/sso/stray%d" % (host, n)
                    e["pad"] = True
                else:
                    e["r"] = None
    return w7


def stray_response_cases(rng, w):
    """every way the SP side (and pick_binding of either entity type) chooses a sign-on endpoint of every IdP"""
    out = []
    idps = ids_with(w, "idpsso_descriptor")
    for e in idps:
        for bs in PICK_BINDINGS:
            for etype in ("sp", "idp"):
                op = {"k": "pick", "svc": "single_sign_on_service", "bindings": bs, "descr": rng.choice(["", "", "idpsso", "spsso"]),
                      "eid": e, "etype": etype, "prefs": rng.choice(["default", "alt", "noacs"])}
                out.append(mk(w, op, "pick:stray-response"))
        for svc in ("single_logout_service", "manage_name_id_service"):
            op = {"k": "pick", "svc": svc, "bindings": rng.choice(PICK_BINDINGS), "descr": "idpsso", "eid": e,
                  "etype": "sp", "prefs": "default"}
            out.append(mk(w, op, "pick:stray-response"))
        # the other two services without ResponseLocation (no configured preference: the caller names the bindings;
        # MetadataStore.name_id_mapping_service reads the IdP role whatever typ says, so the role is given as idpsso)
        for svc in SSHORT7:
            for bs in ([S], [P], [R, S], [S, P]):
                op = {"k": "pick", "svc": svc, "bindings": bs, "descr": "idpsso", "eid": e, "etype": "sp",
                      "prefs": "default"}
                out.append(mk(w, op, "pick:stray-response"))
        for b in (R, P, S, A, O):
            out.append(mk(w, {"k": "sso", "eid": e, "binding": b}, "sso"))
        out.append(mk(w, {"k": "negotiate", "eid": e, "binding": rng.choice([None, "", P, S])}, "negotiate"))
        out.append(mk(w, {"k": "authenticate", "eid": e, "binding": rng.choice([R, P])}, "authenticate"))
        out.append(mk(w, {"k": "logout", "eids": [e], "expected": rng.choice([None, R, P, S]), "prefs": "default"}, "logout"))
    out.append(mk(w, {"k": "negotiate", "eid": None, "binding": None}, "negotiate"))
    return out


# ---- SEQUENCES on long-lived entities (strengthening round 3).  Sections A-I create one operation per case and run it
# on a store that was loaded once.  A running IdP / SP / discovery service handles many operations, its metadata is
# refreshed in between (Entity.reload_metadata), and several entities live in one process.  The neighbourhood: what
# an entity answers must depend on the metadata it holds NOW and on nothing else - not on what was looked up before
# (memo / cache per store, per entity, per class, per module; positive or negative), not on the order or the number of
# the look-ups, not on the other entities of the process, not on a refresh that failed.
REFRESH_KINDS = ["moved", "retired", "rebound", "entity-removed", "reordered", "other", "emptied", "same"]


def _move(loc):
    return loc.replace("://", "://new.", 1)


def refresh(rng, w, kind, wid):
    """a later VERSION of world w (same entity ids, as a metadata refresh would deliver it)"""
    import copy
    if kind == "other":
        return gen_world(rng, wid, n_idp=rng.choice([1, 2, 2]))
    v = copy.deepcopy(w)
    v["wid"] = wid
    if kind == "emptied":
        v["sources"] = []
        return v
    ents = [e for s in v["sources"] for e in s["ents"]]
    if kind == "moved":
        # some entities moved all their endpoints to another host
        hit = [e for e in ents if rng.random() < 0.7] or ents[:1]
        for e in hit:
            for d in e["descs"]:
                for _, x in d["eps"]:
                    x["l"] = _move(x["l"])
                    if x["r"] is not None:
                        x["r"] = _move(x["r"])
                d["disco"] = [(b, _move(l)) for b, l in d["disco"]]
    elif kind == "retired":
        # endpoints were withdrawn (possibly all of a binding / of a service)
        n = 0
        for e in ents:
            for d in e["descs"]:
                drop = [rng.random() < 0.4 for _ in d["eps"]]
                keep = [x for x, dr in zip(d["eps"], drop) if not dr]
                # a role descriptor without its mandatory service is invalid (the whole entity would not load): the
                # LAST endpoint of that service survives
                must = "assertion_consumer_service" if d["role"] == "spsso_descriptor" else "single_sign_on_service"
                if not any(x[0] == must for x in keep):
                    last = [i for i, x in enumerate(d["eps"]) if x[0] == must][-1:]
                    keep = [x for i, x in enumerate(d["eps"]) if not drop[i] or i in last]
                n += len(d["eps"]) - len(keep)
                d["eps"] = keep
                keepd = [x for x in d["disco"] if rng.random() >= 0.4]
                n += len(d["disco"]) - len(keepd)
                d["disco"] = keepd
        if not n:
            for e in ents:
                for d in e["descs"]:
                    must = "assertion_consumer_service" if d["role"] == "spsso_descriptor" else "single_sign_on_service"
                    if len([x for x in d["eps"] if x[0] == must]) > 1 or (d["eps"] and d["eps"][0][0] != must):
                        d["eps"] = d["eps"][1:]
                    d["disco"] = d["disco"][1:]
    elif kind == "rebound":
        # the same locations under another binding / another index, ResponseLocation added or dropped
        swap = {P: R, R: P, S: P, A: R}
        for e in ents:
            for d in e["descs"]:
                for svc, x in d["eps"]:
                    if rng.random() < 0.6:
                        x["b"] = swap.get(x["b"], P)
                    if x["i"] is not None and x["i"].isdigit():
                        x["i"] = str(int(x["i"]) + 1)
                    if svc != "single_sign_on_service" and rng.random() < 0.3:
                        x["r"] = None if x["r"] is not None else x["l"] + "/resp"
                d["disco"] = [(D if b != D else rng.choice([D, P]), l) for b, l in d["disco"]]
    elif kind == "entity-removed":
        # an entity left the federation, another one lost a role
        ids = sorted({e["id"] for e in ents})
        gone = rng.choice(ids)
        for s_ in v["sources"]:
            s_["ents"] = [e for e in s_["ents"] if e["id"] != gone]
        v["sources"] = [s_ for s_ in v["sources"] if s_["ents"]]
        for e in [e for s_ in v["sources"] for e in s_["ents"]]:
            if len(e["descs"]) > 1 and rng.random() < 0.7:
                e["descs"] = e["descs"][:1] if rng.random() < 0.5 else e["descs"][1:]
    elif kind == "reordered":
        # the sources come in another order / one source is gone: another "first source that has the entity"
        v["sources"].reverse()
        if len(v["sources"]) > 1 and rng.random() < 0.5:
            v["sources"].pop(0)
    return v


def _dedupe(ops):
    import json
    seen, out = set(), []
    for o in ops:
        k = json.dumps(o, sort_keys=True)
        if k not in seen:
            seen.add(k)
            out.append(o)
    return out


def _stratified(rng, ops, cap):
    """at most cap operations, every SHAPE (operation kind, request class, entity given / None / unknown) kept as long as
    there is room: the few operations that go through another part of the store (with_descriptor for the sole IdP,
    an unknown entity) must not be sampled away"""
    groups = {}
    for o in ops:
        e = o.get("eid", o.get("issuer")) if "eids" not in o else (o["eids"] or [None])[0]
        key = (o["k"], o.get("cls"), "none" if e is None else "unknown" if e == UNKNOWN else "given")
        groups.setdefault(key, []).append(o)
    for g in groups.values():
        rng.shuffle(g)
    out = []
    while len(out) < cap and any(groups.values()):
        for key in list(groups):
            if groups[key] and len(out) < cap:
                out.append(groups[key].pop())
    return out


def idp_side_ops(rng, w, prefs):
    """operations an IdP with metadata w is asked to handle, most of them successful on w"""
    out = []
    sps = ids_with(w, "spsso_descriptor")
    idps = ids_with(w, "idpsso_descriptor")
    for sp in sps:
        acs = eps_of(w, sp, "spsso_descriptor", "assertion_consumer_service")
        for ep in rng.sample(acs, min(len(acs), 2)):
            out.append(answer_op("AuthnRequest", sp, ep["l"], None, ep["b"], []))                 # by URL
            out.append(answer_op("AuthnRequest", sp, ep["l"], None, None, rng.choice([[], [ep["b"]], [P, R]])))
            if ep["i"] is not None:
                out.append(answer_op("AuthnRequest", sp, None, ep["i"], ep["b"], []))             # by index
        for b in sorted({e["b"] for e in acs})[:2]:
            out.append(answer_op("AuthnRequest", sp, None, None, b, []))                          # default endpoint
        out.append(answer_op("AuthnRequest", sp, None, None, None, [], prefs=prefs))
        out.append(answer_op("AuthnRequest", sp, "https://evil.example.com/acs", None, P, []))
        for cls in ("LogoutRequest", "ManageNameIDRequest"):
            out.append(answer_op(cls, sp, None, None, None, rng.choice([[R], [P], [S, P], [R, P], [BOGUS, R, P]])))
        out.append({"k": "pick", "svc": rng.choice(["assertion_consumer_service", "single_logout_service"]), "bindings": [],
                    "descr": "", "eid": sp, "etype": "idp", "prefs": prefs})
    for e in idps[:1] + [UNKNOWN]:
        out.append(answer_op("LogoutRequest", e, None, None, None, [R, P], descr="idpsso"))
    for o in out:
        if o["k"] == "answer":
            o["prefs"] = prefs
            o["etype"] = "idp"
    return out


def sp_side_ops(rng, w, prefs):
    out = []
    idps = ids_with(w, "idpsso_descriptor")
    sps = ids_with(w, "spsso_descriptor")
    for e in idps + [None]:
        for b in (R, P):
            out.append({"k": "sso", "eid": e, "binding": b})
        out.append({"k": "negotiate", "eid": e, "binding": None})
        out.append({"k": "negotiate", "eid": e, "binding": rng.choice([P, S, A])})
        out.append({"k": "authenticate", "eid": e, "binding": rng.choice([R, R, P])})
    for e in idps:
        out.append({"k": "logout", "eids": [e], "expected": None, "prefs": prefs})
        out.append({"k": "logout", "eids": [e], "expected": rng.choice([R, P, S]), "prefs": prefs})
        # the SP answers a LogoutRequest of the IdP
        out.append(answer_op("LogoutRequest", e, None, None, None, rng.choice([[R], [P], [S, P], [R, P]]), etype="sp", prefs=prefs))
        out.append({"k": "pick", "svc": "single_sign_on_service", "bindings": [], "descr": "", "eid": e, "etype": "sp",
                    "prefs": prefs})
    if idps:
        out.append({"k": "logout", "eids": list(idps) + sps[:1], "expected": None, "prefs": prefs})
    out.append({"k": "sso", "eid": UNKNOWN, "binding": R})
    return out


def disco_side_ops(rng, w):
    out = []
    for e in ids_with(w, "spsso_descriptor"):
        for L in sorted(set(disco_registered(w, e)))[:3]:
            out += [{"k": "disco", "eid": e, "url": L}, {"k": "disco", "eid": e, "url": L + "?x=1"},
                    {"k": "disco", "eid": e, "url": L[:-1]}]
        out.append({"k": "disco", "eid": e, "url": "https://evil.example.com/disco"})
    out.append({"k": "disco", "eid": UNKNOWN, "url": "https://sp1.example.org/disco"})
    return out


def sequence_cases(rng, w, w2, kind, thorough):
    """three sequences (IdP side, SP side, discovery service) over the metadata versions w and w2.  Entity 0 starts
    with w, entity 1 (same kind, same process) with w2; the operations are those that make sense on w or on w2, so
    that every look-up is made against the version that registers it and against the one that does not, before and
    after each refresh: all operations on both entities; the two entities SWAP their metadata; all operations again;
    a refresh that fails; a sample again; entity 0 back to w; a sample again."""
    out = []
    prefs = rng.choice(["default", "default", "alt", "noacs"])
    for role, ekind, ops in (("idp", "idp", idp_side_ops(rng, w, prefs) + idp_side_ops(rng, w2, prefs)),
                             ("sp", "sp", sp_side_ops(rng, w, prefs) + sp_side_ops(rng, w2, prefs)),
                             ("disco", "disco", disco_side_ops(rng, w) + disco_side_ops(rng, w2))):
        ops = _stratified(rng, _dedupe(ops), 40 if thorough else 12)
        steps = []

        def phase(n0, n1):
            part = [(0, o) for o in (ops if n0 is None else rng.sample(ops, min(len(ops), n0)))]
            part += [(1, o) for o in rng.sample(ops, min(len(ops), n1))]
            rng.shuffle(part)
            for k, o in part:
                steps.append({"s": "op", "e": k, "op": o})

        phase(None, len(ops) // 2)
        first, second = ({"s": "reload", "e": 0, "world": w2}, {"s": "reload", "e": 1, "world": w})
        steps.extend([first, second] if rng.random() < 0.5 else [second, first])
        phase(None, len(ops) // 2)
        how = BAD_CONFS[rng.randrange(len(BAD_CONFS))]
        steps.append({"s": "badreload", "e": 0, "how": how, "world": w})
        if rng.random() < 0.5:
            steps.append({"s": "badreload", "e": 1, "how": BAD_CONFS[rng.randrange(len(BAD_CONFS))], "world": w2})
        phase(5, 2)
        steps.append({"s": "reload", "e": 0, "world": w})
        phase(5, 2)
        p = prefs if role != "disco" else "default"
        op = {"k": "seq", "role": role, "refresh": kind,
              "slots": [{"kind": ekind, "prefs": p, "world": w}, {"kind": ekind, "prefs": p, "world": w2}], "steps": steps}
        out.append(mk(w, op, "seq-%s:%s" % (role, kind)))
    return out


# ------------------------------------------------------------------------------------------- running the real code
_CACHE = {}
ERR = {"UnknownSystemEntity": "EUnknownEntity", "UnsupportedBinding": "EUnsupported", "SAMLError": "ESaml",
       "KeyError": "EKey", "AttributeError": "EAttr", "IdpUnspecified": "EIdpUnspecified", "SignOnError": "ESignOn",
       "ValueError": "EValue"}


def err_of(e):
    return ERR.get(type(e).__name__, "EOther")


def check_loaded(ent, w):
    """the abstraction is what the templates say: the loaded store must have exactly these entities per source"""
    got = [sorted(m.entity.keys()) for m in ent.metadata.metadata.values()]
    want = [sorted(e["id"] for e in s["ents"]) for s in w["sources"]]
    if got != want:
        raise RuntimeError("metadata world %s not loaded as rendered: %r vs %r" % (w["wid"], got, want))


def make_entity(kind, w, prefs="default"):
    """a NEW entity object of the given kind whose metadata store is loaded with world w"""
    xml = render_world(w)
    if kind == "idp":
        ent = world.make_idp(metadata_xml=xml, preferred_binding=dict(PREFS[prefs]))
    elif kind == "sp":
        ent = world.make_sp(metadata_xml=xml, preferred_binding=dict(PREFS[prefs]))
    else:
        env.install_standin()
        from saml2.config import Config
        from saml2.discovery import DiscoveryServer

        c = Config()
        c.load({"entityid": "https://ds.example.org/ds.xml", "xmlsec_binary": env.STANDIN_PATH,
                "metadata": {"inline": xml}})
        ent = DiscoveryServer(config=c)
    check_loaded(ent, w)
    return ent


def get_entity(kind, w, prefs="default"):
    key = (kind, w["wid"], prefs, repr(w["sources"]))
    if key in _CACHE:
        return _CACHE[key]
    ent = make_entity(kind, w, prefs)
    if len(_CACHE) > 40:
        _CACHE.clear()
    _CACHE[key] = ent
    return ent


def build_message(op):
    from saml2 import saml, samlp

    common = dict(id="id-c08", version="2.0", issue_instant="2023-11-14T22:13:20Z", issuer=saml.Issuer(text=op["issuer"]))
    cls = getattr(samlp, op["cls"])
    if op["cls"] == "AuthnRequest":
        msg = cls(assertion_consumer_service_url=op["url"], assertion_consumer_service_index=op["idx"],
                  protocol_binding=op["pb"], **common)
        # what the receiver works on is the parsed message
        msg = samlp.authn_request_from_string(str(msg))
        if msg.issuer.text != op["issuer"]:
            raise RuntimeError("issuer changed in XML round trip")
        return msg
    return cls(**common)


def wire_target(binding, info, destination):
    """does the prepared HTTP message go to `destination`?"""
    try:
        if binding == P:
            m = re.search(r'<form[^>]*\saction="([^"]*)"', info["data"])
            return bool(m) and html.unescape(m.group(1)) == destination and info.get("url") == destination
        if binding == R:
            loc = [v for k, v in info["headers"] if k == "Location"][0]
            glue = "&" if "?" in destination else "?"
            return loc.startswith(destination + glue + "SAML") and info.get("url") == destination
        if binding in (S, O):
            return info.get("url") == destination
        if binding in (A, U):
            # pack.add_query (fix fc5e66e9): joined to an existing query by '&' (pool destinations never end in '?', '&', '#')
            glue = "&" if "?" in destination else "?"
            return info.get("url", "").startswith(destination + glue)
    except Exception:
        return False
    return False


def request_destination_ok(msg_str, destination):
    m = re.search(r'\sDestination="([^"]*)"', msg_str)
    return bool(m) and html.unescape(m.group(1)) == destination


class Tap:
    """records what is handed to apply_binding / send of one entity instance"""

    def __init__(self, ent):
        self.ent = ent
        self.calls = []
        self.cur = None
        self.wire = True
        self.sent = []
        self._ab = ent.apply_binding
        self._clr = ent.create_logout_request
        self._send = ent.send

    def __enter__(self):
        tap = self

        def apply_binding(binding, msg_str, destination="", relay_state="", **kw):
            info = tap._ab(binding, msg_str, destination, relay_state, **kw)
            tap.calls.append((tap.cur, binding, destination))
            if not wire_target(binding, info, destination):
                tap.wire = False
            if not request_destination_ok(msg_str, destination):
                tap.wire = False
            tap.last_dest = destination
            return info

        def create_logout_request(destination, issuer_entity_id, *a, **kw):
            tap.cur = issuer_entity_id
            return tap._clr(destination, issuer_entity_id, *a, **kw)

        def send(url, method="GET", **kw):
            tap.sent.append(url)
            if url != tap.last_dest:
                tap.wire = False
            return None

        self.mode = None
        self.last_dest = None
        self.ent.apply_binding = apply_binding
        self.ent.create_logout_request = create_logout_request
        self.ent.send = send
        return self

    def __exit__(self, *a):
        del self.ent.apply_binding
        del self.ent.create_logout_request
        del self.ent.send


def run_one(op, getent):
    """one operation of the property on the real code; getent(kind, prefs) gives the entity that handles it
    (prefs None: the operation does not read the configured preferences)"""
    k = op["k"]
    obs = {"wire": True, "exc": None}
    try:
        if k == "answer":
            ent = getent(op["etype"], op["prefs"])
            msg = build_message(op)
            b = op["bindings"] or (None if op["none_arg"] else [])
            info = ent.response_args(msg, b, descr_type=op["descr"])
            if "binding" in info or "destination" in info:
                obs["out"] = ["Dest", info["binding"], info["destination"]]
            else:
                obs["out"] = ["NoDest"]
        elif k == "pick":
            ent = getent(op["etype"], op["prefs"])
            b, d = ent.pick_binding(op["svc"], op["bindings"] or None, op["descr"], entity_id=op["eid"])
            obs["out"] = ["Dest", b, d]
        elif k == "sso":
            ent = getent("sp", None)
            obs["out"] = ["Loc", ent._sso_location(op["eid"], op["binding"])]
        elif k in ("negotiate", "authenticate"):
            ent = getent("sp", None)
            with Tap(ent) as tap:
                if k == "negotiate":
                    _, nb, info = ent.prepare_for_negotiated_authenticate(entityid=op["eid"], binding=op["binding"],
                                                                          relay_state="rs")
                else:
                    _, info = ent.prepare_for_authenticate(entityid=op["eid"], binding=op["binding"], relay_state="rs")
                    nb = tap.calls[-1][1]
                _, b, d = tap.calls[-1]
                obs["wire"] = tap.wire and b == nb and len(tap.calls) == 1
                obs["out"] = ["Dest", nb, d]
        elif k == "logout":
            from saml2 import saml
            from saml2.client_base import LogoutError

            ent = getent("sp", op["prefs"])
            nid = saml.NameID(text="user1", format=saml.NAMEID_FORMAT_TRANSIENT)
            with Tap(ent) as tap:
                tap.mode = "logout"
                err = None
                try:
                    ent.do_logout(nid, list(op["eids"]), "", None, expected_binding=op["expected"])
                except LogoutError:
                    pass
                except Exception as e:  # noqa: BLE001
                    err = err_of(e)
                    obs["exc"] = type(e).__name__
                soap = [c for c in tap.calls if c[1] == S]
                obs["wire"] = tap.wire and [c[2] for c in soap] == tap.sent
                obs["out"] = ["Trace", [list(c) for c in tap.calls], err]
        elif k == "disco":
            ent = getent("disco", None)
            obs["out"] = ["Approved", bool(ent.verify_return(op["eid"], op["url"]))]
        else:
            raise RuntimeError("unknown op " + k)
    except RuntimeError:
        raise
    except Exception as e:  # noqa: BLE001
        obs["out"] = ["Fail", err_of(e)]
        obs["exc"] = type(e).__name__
    return obs



def observe(case):
    w, op = case["world"], case["op"]
    if op["k"] == "seq":
        return observe_seq(op)
    return run_one(op, lambda kind, prefs: get_entity(kind, w, prefs or "default"))


BAD_CONFS = ["prefix+malformed", "not-xml", "unknown-type", "missing-file", "none", "empty-document"]


def bad_conf(how, good_xml):
    """a metadata configuration that does not load (MetadataStore.reload puts the old metadata back)"""
    if how == "prefix+malformed":
        return {"inline": list(good_xml) + ["<md:EntityDescriptor"]}        # the first sources load, the last one raises
    if how == "not-xml":
        return {"inline": ["this is not XML"]}
    if how == "unknown-type":
        return {"no-such-type": ["x"]}
    if how == "missing-file":
        return {"local": ["/nonexistent/c08/metadata.xml"]}
    if how == "none":
        return None
    return {"inline": [""]}


def observe_seq(op):
    """a sequence on long-lived entities: the entities are created HERE (never shared with another case), each with
    the metadata of its slot; every step is carried out on the entity it names, in order"""
    ents = [make_entity(s["kind"], s["world"], s["prefs"]) for s in op["slots"]]
    seen = []
    wire = True
    for st in op["steps"]:
        k = st["e"]
        slot = op["slots"][k]
        if st["s"] == "op":
            def getent(kind, prefs, k=k, slot=slot):
                if kind != slot["kind"] or (prefs is not None and prefs != slot["prefs"]):
                    raise RuntimeError("operation %r does not fit entity %r" % (st["op"], (slot["kind"], slot["prefs"])))
                return ents[k]
            o = run_one(st["op"], getent)
            wire = wire and bool(o["wire"])
            seen.append(["Out", o["out"], bool(o["wire"]), o["exc"]])
        elif st["s"] == "reload":
            ok = ents[k].reload_metadata({"inline": render_world(st["world"])})
            seen.append(["Reload", bool(ok)])
        elif st["s"] == "badreload":
            ok = ents[k].reload_metadata(bad_conf(st["how"], render_world(st["world"])))
            seen.append(["Reload", bool(ok)])
        else:
            raise RuntimeError("unknown step " + st["s"])
    return {"out": ["Seq", seen], "wire": wire, "exc": None}


def shrink(case, ctx):
    """a failing SEQUENCE is cut down before it is reported: first to the shortest failing prefix (the recorded
    observation of a prefix is the prefix of the recorded observation), then to [the operation, the refreshes of its
    entity, the operation again] or to the steps of that entity alone when those still fail on the real code"""
    op = case["op"]
    if op["k"] != "seq":
        return case
    try:
        from harness import common

        def cut(steps):
            return mk(case["world"], dict(op, steps=steps), case["tag"])

        def failing(terms):
            res, _err = common.eval_cases(PID, IMPORTS, CASE_TYPE, RUNNER, terms, shard=400, tag="shrink")
            return sorted(j for j, code in res if code == 2 or code >= 10)

        seen = observe(case)["out"][1]
        idx = [i for i, st in enumerate(op["steps"]) if st["s"] == "op"]
        bad = failing([coq_case(cut(op["steps"][:i + 1]), {"out": ["Seq", seen[:i + 1]], "wire": True}) for i in idx])
        if not bad:
            return case
        f = idx[bad[0]]
        last = op["steps"][f]
        mine = [st for st in op["steps"][:f] if st["e"] == last["e"]]
        for steps in ([last] + [st for st in mine if st["s"] != "op"] + [last], mine + [last], op["steps"][:f + 1]):
            c = cut(steps)
            if failing([coq_case(c, observe(c))]):
                return c
    except Exception:  # noqa: BLE001
        pass
    return case


# ------------------------------------------------------------------------------------------- Coq terms
def cb(b):
    return Raw(BSHORT[b]) if b in BSHORT else b


def coq_ep(e):
    return Raw("(ep %s %s %s %s)" % (cq(cb(e["b"])), cq(e["l"]), cq_opt(e["i"]), cq_opt(e["r"])))


def coq_world(w):
    srcs = []
    for s in w["sources"]:
        ents = []
        for e in s["ents"]:
            descs = []
            for d in e["descs"]:
                eps = [(Raw(sshort(svc)), coq_ep(x)) for svc, x in d["eps"]]
                disco = [(cb(b), l) for b, l in d["disco"]]
                descs.append((Raw(RSHORT[d["role"]]), Raw("(Desc %s %s)" % (cq(eps), cq(disco)))))
            ents.append((e["id"], descs))
        srcs.append(ents)
    return cq(srcs)


def coq_prefs_term(name):
    return cq([(Raw(SSHORT[s]), [cb(b) for b in bs]) for s, bs in PREFS[name].items()])


def coq_prefs(name):
    return "pf_" + name if _WORLD_NAMES else coq_prefs_term(name)


def world_key(w):
    return repr((w["wid"], w["sources"]))


WORLDS_MODULE = "C08Worlds"


def publish_definitions(worlds):
    """The metadata worlds and preference tables of this run as Coq definitions, so that a case names its world.
    They are compiled ONCE into work/C08/C08Worlds.vo (the directory the case files are compiled in, hence on their
    load path) and the case files import that; parsing the definitions again in every case file was 2/3 of the Coq
    time.  If the compilation fails the definitions go into the preamble of every case file as before."""
    global IMPORTS
    import os
    from harness import common
    lines = ["Import ListNotations.", "Open Scope string_scope."]
    for name in PREFS:
        lines.append("Definition pf_%s : list (string * list string) := %s." % (name, coq_prefs_term(name)))
    _WORLD_NAMES.clear()
    for w in worlds:
        nm = "world_%d" % w["wid"]
        lines.append("Definition %s : md := %s." % (nm, coq_world(w)))
        _WORLD_NAMES[world_key(w)] = nm
    IMPORTS = "\n".join([BASE_IMPORTS] + lines)
    try:
        wd = os.path.join(common.WORK, PID)
        os.makedirs(wd, exist_ok=True)
        path = os.path.join(wd, WORLDS_MODULE + ".v")
        text = "\n".join(["From Coq Require Import String List ZArith Bool NArith.",
                          "From Verif Require Import Base.Str Base.Run.", BASE_IMPORTS] + lines) + "\n"
        for ext in (".vo", ".vok", ".vos", ".glob"):
            if os.path.exists(path[:-2] + ext):
                os.unlink(path[:-2] + ext)
        with open(path, "w") as f:
            f.write(text)
        rc, out = common.coqc(path, cwd=wd)
        if rc == 0 and os.path.exists(path[:-2] + ".vo"):
            IMPORTS = BASE_IMPORTS + "\nRequire Import %s." % WORLDS_MODULE
    except Exception:  # noqa: BLE001
        pass


CLS = {"AuthnRequest": "MAuthn", "LogoutRequest": "MLogout", "ManageNameIDRequest": "MManageNameID",
       "AttributeQuery": "MAttrQuery", "ArtifactResolve": "MSoapOnly", "AssertionIDRequest": "MSoapOnly",
       "NameIDMappingRequest": "MSoapOnly", "AuthnQuery": "MOther"}


def coq_op(op):
    k = op["k"]
    if k == "answer":
        req = "(Req %s %s %s %s %s)" % (CLS[op["cls"]], cq(op["issuer"]), cq_opt(op["url"]), cq_opt(op["idx"]),
                                        cq_opt(None if op["pb"] is None else cb(op["pb"])))
        return "(OpAnswer %s %s %s %s %s)" % (cq(op["etype"]), coq_prefs(op["prefs"]), req,
                                              cq([cb(b) for b in op["bindings"]]), cq(op["descr"]))
    if k == "pick":
        svc = Raw(sshort(op["svc"]))
        return "(OpPick %s %s %s %s %s %s)" % (cq(op["etype"]), coq_prefs(op["prefs"]), cq(svc),
                                               cq([cb(b) for b in op["bindings"]]), cq(op["descr"]), cq(op["eid"]))
    if k == "sso":
        return "(OpSso %s %s)" % (cq_opt(op["eid"]), cq(cb(op["binding"])))
    if k == "negotiate":
        return "(OpNegotiate %s %s)" % (cq_opt(op["eid"]), cq_opt(None if op["binding"] is None else cb(op["binding"])))
    if k == "authenticate":
        return "(OpAuthenticate %s %s)" % (cq_opt(op["eid"]), cq(cb(op["binding"])))
    if k == "logout":
        return "(OpLogout %s %s %s)" % (cq([cb(b) for b in SLO_PREFS[op["prefs"]]]),
                                        cq_opt(None if op["expected"] is None else cb(op["expected"])), cq(op["eids"]))
    if k == "disco":
        return "(OpDisco %s %s)" % (cq(op["eid"]), cq(op["url"]))
    raise ValueError(k)


def coq_out(out):
    t = out[0]
    if t == "Dest":
        return "(Dest %s %s)" % (cq(cb(out[1])), cq_opt(out[2]))
    if t == "NoDest":
        return "NoDest"
    if t == "Loc":
        return "(Loc %s)" % cq_opt(out[1])
    if t == "Trace":
        sent = [(e if e is not None else "", cb(b), d) for e, b, d in out[1]]
        return "(Trace %s %s)" % (cq(sent), "None" if out[2] is None else "(Some %s)" % out[2])
    if t == "Approved":
        return "(Approved %s)" % cq(bool(out[1]))
    if t == "Fail":
        return "(Fail %s)" % out[1]
    raise ValueError(t)


def world_term(w):
    return _WORLD_NAMES.get(world_key(w)) or coq_world(w)


def coq_case(case, obs):
    op = case["op"]
    if op["k"] == "seq":
        # an operation / an outcome occurs several times in a sequence: each distinct term is bound once (let), the
        # steps name it (elaborating the string literals is what costs time in the case files)
        names, lets, items = {}, [], []

        def bind(term, prefix):
            if len(term) < 24:
                return term
            if term not in names:
                names[term] = "%s%d" % (prefix, len(names))
                lets.append("let %s := %s in" % (names[term], term))
            return names[term]

        for st, sn in zip(op["steps"], obs["out"][1]):
            if st["s"] == "op":
                items.append("(SOp %d %s, SawOut %s %s)" % (st["e"], bind(coq_op(st["op"]), "o_"), bind(coq_out(sn[1]), "r_"),
                                                          cq(bool(sn[2]))))
            elif st["s"] == "reload":
                items.append("(SReload %d %s, SawReload %s)" % (st["e"], bind(world_term(st["world"]), "w_"), cq(bool(sn[1]))))
            else:
                items.append("(SReloadFail %d, SawReload %s)" % (st["e"], cq(bool(sn[1]))))
        slots = "; ".join(bind(world_term(s_["world"]), "w_") for s_ in op["slots"])
        return "(%s\n C08.Corr.mkseq [%s] [%s])" % ("\n ".join(lets), slots, ";\n  ".join(items))
    return "C08.Corr.mk %s %s %s %s" % (world_term(case["world"]), coq_op(op), coq_out(obs["out"]), cq(bool(obs["wire"])))


# ------------------------------------------------------------------------------------------- evidence
def out_kind(obs):
    o = obs["out"]
    if o[0] == "Fail":
        return "Fail:" + o[1]
    if o[0] == "Trace":
        return "Trace:%d:%s" % (len(o[1]), o[2])
    if o[0] == "Approved":
        return "Approved:%s" % o[1]
    if o[0] == "Seq":
        return "Seq"
    return o[0]


def seq_transitions(case, obs):
    """per sequence: for every (entity, operation) the outcomes in the order seen, cut at the refreshes of that entity;
    -> counts of how an operation's outcome kind changed across a successful refresh"""
    import json
    op = case["op"]
    last = {}
    tr = {}
    epoch = [0] * len(op["slots"])
    for st, sn in zip(op["steps"], obs["out"][1]):
        k = st["e"]
        if st["s"] == "op":
            key = (k, json.dumps(st["op"], sort_keys=True))
            kind = "Fail" if sn[1][0] == "Fail" else "Trace:%d" % len(sn[1][1]) if sn[1][0] == "Trace" else \
                "Approved:%s" % sn[1][1] if sn[1][0] == "Approved" else sn[1][0]
            if key in last and last[key][0] != epoch[k]:
                same = last[key][2] == sn[1]
                t = "%s->%s%s" % (last[key][1], kind, "" if not same else " (same answer)")
                tr[t] = tr.get(t, 0) + 1
            last[key] = (epoch[k], kind, sn[1])
        elif sn[1]:
            epoch[k] += 1
    return tr


def nontrivial(case, obs):
    op = case["op"]
    k = op["k"]
    if k == "answer":
        key = (k, case["tag"], tuple(op["bindings"]), op["descr"], op["etype"], op["prefs"], out_kind(obs))
    elif k == "pick":
        key = (k, op["svc"], tuple(op["bindings"]), op["descr"], op["etype"], out_kind(obs))
    elif k in ("sso", "negotiate", "authenticate"):
        e = op["eid"]
        ec = "none" if e is None else "empty" if e == "" else "unknown" if e == UNKNOWN else "idp" if "/idp" in e else "sp"
        key = (k, ec, op["binding"], out_kind(obs))
    elif k == "logout":
        key = (k, len(op["eids"]), op["expected"], op["prefs"], out_kind(obs))
    elif k == "seq":
        key = (k, case["tag"], tuple(sorted(seq_transitions(case, obs))))
    else:
        key = (k, case["tag"], out_kind(obs))
    return key


def sources_with(w, eid):
    """the entity records of eid, one per source that has it, in load order"""
    return [x for s in w["sources"] for x in s["ents"] if x["id"] == eid]


def served(x, role, svc):
    """bindings entity record x lists for (role, service); None when it has no descriptor of that role"""
    ds = [d for d in x["descs"] if d["role"] == role]
    if not ds:
        return None
    return sorted({e["b"] for d in ds for s, e in d["eps"] if s == svc})


ROLE_SVC = {"sso": ("idpsso_descriptor", "single_sign_on_service"),
            "negotiate": ("idpsso_descriptor", "single_sign_on_service"),
            "authenticate": ("idpsso_descriptor", "single_sign_on_service"),
            "logout": ("idpsso_descriptor", "single_logout_service")}
ANSWER_SVC = {"AuthnRequest": "assertion_consumer_service", "LogoutRequest": "single_logout_service",
              "ManageNameIDRequest": "manage_name_id_service"}


def lookups(case):
    """(entity, role, service) triples the operation looks up in the store (generator-side bookkeeping only)"""
    op = case["op"]
    k = op["k"]
    if k == "answer":
        svc = ANSWER_SVC.get(op["cls"])
        if svc is None:
            return []
        descr = op["descr"] or ("idpsso" if op["etype"] == "sp" else "spsso")
        role = "spsso_descriptor" if svc == "assertion_consumer_service" else descr + "_descriptor"
        return [(op["issuer"].strip(), role, svc)]
    if k == "pick":
        descr = op["descr"] or ("idpsso" if op["etype"] == "sp" else "spsso")
        role = ("spsso_descriptor" if op["svc"] == "assertion_consumer_service" else
                "idpsso_descriptor" if op["svc"] == "single_sign_on_service" else descr + "_descriptor")
        return [(op["eid"], role, op["svc"])]
    if k == "logout":
        return [(e, ) + ROLE_SVC[k] for e in op["eids"]]
    if k in ROLE_SVC:
        return [(op["eid"], ) + ROLE_SVC[k]] if op["eid"] else []
    if k == "disco":
        return [(op["eid"], "spsso_descriptor", "disco")]
    return []


def repeat_class(case):
    """how the looked-up entity is spread over the sources: None (not repeated), 'same' (the later sources list
    nothing the first does not), 'later-has-more' (a later source has a binding / the role that the first source
    with the entity lacks: exactly where fall-through and first-source-wins differ)"""
    w = case["world"]
    cls = None
    for eid, role, svc in lookups(case):
        recs = sources_with(w, eid)
        if len(recs) < 2:
            continue
        cls = cls or "same"
        if svc == "disco":
            f = lambda x: (None if not any(d["role"] == role for d in x["descs"]) else
                           sorted({l for d in x["descs"] if d["role"] == role for b, l in d["disco"] if b == D}))
        else:
            f = lambda x: served(x, role, svc)
        first = f(recs[0])
        for x in recs[1:]:
            later = f(x)
            if later and (first is None or set(later) - set(first)):
                cls = "later-has-more"
    return cls


def histogram(cases, observed):
    h = {"by_tag": {}, "by_kind": {}, "outcomes": {}, "exceptions": {}, "worlds": len({c["world"]["wid"] for c in cases}),
         "dest_by_binding": {}, "repeated_entity": {}}
    seen_w = {}
    for c in cases:
        seen_w[c["world"]["wid"]] = c["world"]
    rep_w = 0
    rep_diff = 0
    for w in seen_w.values():
        ids = [x["id"] for s in w["sources"] for x in s["ents"]]
        reps = {i for i in ids if ids.count(i) > 1}
        if reps:
            rep_w += 1
        # same entityID in two sources with a different set of (role, service, binding, location)
        for i in reps:
            sig = [sorted((d["role"], s, e["b"], e["l"]) for d in x["descs"] for s, e in d["eps"]) for x in sources_with(w, i)]
            if any(g != sig[0] for g in sig[1:]):
                rep_diff += 1
    locs = {(w["wid"], l) for w in seen_w.values() for x in all_entities(w) for d in x["descs"] for b, l in d["disco"] if b == D}
    nbh = {"disco_locations": len(locs),
           "disco_locations_ending_in_punctuation": len([1 for _, l in locs if l[-1:] in "/?#&=."]),
           "disco_location_without_path": len([1 for _, l in locs if l.count("/") == 2])}
    for c, o in zip(cases, observed):
        t = c["tag"].split(":")[0]
        if t.endswith("-nb") or t.startswith("disco-other") or t.startswith("disco-eid"):
            key = "%s/%s" % (t, out_kind(o))
            nbh[key] = nbh.get(key, 0) + 1
    h["neighbourhood"] = nbh
    sq = {"sequences": 0, "steps": 0, "operations": 0, "refreshes_ok": 0, "refreshes_failed": 0, "by_refresh_kind": {},
          "outcome_across_refresh": {}}
    for c, o in zip(cases, observed):
        if c["op"]["k"] != "seq":
            continue
        sq["sequences"] += 1
        sq["steps"] += len(c["op"]["steps"])
        sq["operations"] += len([1 for st in c["op"]["steps"] if st["s"] == "op"])
        sq["refreshes_ok"] += len([1 for sn in o["out"][1] if sn[0] == "Reload" and sn[1]])
        sq["refreshes_failed"] += len([1 for sn in o["out"][1] if sn[0] == "Reload" and not sn[1]])
        sq["by_refresh_kind"][c["tag"]] = sq["by_refresh_kind"].get(c["tag"], 0) + 1
        for t, n in seq_transitions(c, o).items():
            sq["outcome_across_refresh"][t] = sq["outcome_across_refresh"].get(t, 0) + n
    h["sequences"] = sq
    h["repeated_entity"]["worlds_with_entity_in_two_sources"] = rep_w
    h["repeated_entity"]["entities_in_two_sources_with_different_endpoints"] = rep_diff
    for c, o in zip(cases, observed):
        rc = repeat_class(c)
        if rc:
            key = "%s/%s" % (c["op"]["k"], rc)
            h["repeated_entity"][key] = h["repeated_entity"].get(key, 0) + 1
        t = c["tag"] if not c["tag"].startswith("authn:") else "authn-alphabet"
        if "-nb:" in t:
            t = t.split("+")[0]
        h["by_tag"][t] = h["by_tag"].get(t, 0) + 1
        k = c["op"]["k"]
        h["by_kind"][k] = h["by_kind"].get(k, 0) + 1
        ok = k + "/" + out_kind(o)
        h["outcomes"][ok] = h["outcomes"].get(ok, 0) + 1
        if o["exc"]:
            h["exceptions"][o["exc"]] = h["exceptions"].get(o["exc"], 0) + 1
        if o["out"][0] == "Seq":
            for sn in o["out"][1]:
                if sn[0] == "Out" and sn[3]:
                    h["exceptions"][sn[3]] = h["exceptions"].get(sn[3], 0) + 1
        if o["out"][0] == "Dest":
            b = o["out"][1].split(":")[-1]
            h["dest_by_binding"][b] = h["dest_by_binding"].get(b, 0) + 1
    return h


def explain_term(coq_case_term):
    return "C08.Corr.explain (%s)" % coq_case_term
