"""C08 — messages and browsers are only sent to endpoints registered in metadata."""
import html
import re
from xml.sax.saxutils import quoteattr

from harness import env, world
from harness.common import Raw, cq, cq_opt

PID = "C08"
PARALLEL = 8
BASE_IMPORTS = "From Verif Require Import C08.Model C08.Spec C08.Corr."
# generate() appends the Definitions of the run's metadata worlds and preference tables to this preamble, so
# that a case names its world instead of repeating it (a replayed case carries its world inline)
IMPORTS = BASE_IMPORTS
_WORLD_NAMES = {}
CASE_TYPE = "C08.Corr.case"
RUNNER = "C08.Corr.run"
FINDING_CLASSES = {1: "C08-F1"}
RULE = ("seeded random metadata worlds (1-3 sources, 1-3 SPs, 0-2 IdPs, 1-3 endpoints per service and binding, "
        "entities repeated across sources with other endpoints / bindings / role (at least one in every second "
        "world; histogram repeated_entity counts the lookups where a later source has what the first lacks), "
        "ResponseLocation, duplicate / missing / non-numeric indexes, endpoints "
        "shared between bindings and between SPs, DiscoveryResponse extensions) rendered by templates and loaded by "
        "the real MetadataStore; on the focus SP of 6 worlds the COMPLETE product AssertionConsumerServiceURL(7: "
        "absent, empty, registered for the binding, for another binding, for another SP, unregistered, look-alike) "
        "x AssertionConsumerServiceIndex(4: absent, valid, unknown, non-numeric) x ProtocolBinding(6: POST, "
        "Redirect, Artifact, PAOS, bogus, absent) through the real Server.response_args; seeded samples of message "
        "class x caller bindings x descriptor type x entity type x issuer x preferred_binding; pick_binding for an "
        "entity; SP _sso_location / prepare_for_negotiated_authenticate / prepare_for_authenticate over entity x "
        "binding; do_logout over entity lists x expected binding x preference (stub transport); "
        "DiscoveryServer.verify_return over 8 return-URL classes. non-trivial = distinct (operation kind, input "
        "classes, outcome kind)")
def regenerate_tables(ctx):
    """Translator: DiscoveryServer.verify_return as it reads NOW -> coq/gen/C08Src.v; C08/Source.v proves it equal to the
    model (the metadata lookup discovery_response is a parameter)."""
    import os
    from harness import common, env, py2coq
    return py2coq.regenerate(os.path.join(common.GEN, "C08Src.v"), [
        (os.path.join(env.SRC, "saml2", "discovery.py"), "DiscoveryServer.verify_return",
         {"name": "src_verify_return", "params": ["self", "entity_id", "return_url"],
          "extra_params": [("discovery_response", "pyval -> pyval")],
          "calls": {"self.metadata.discovery_response": lambda a: "(discovery_response %s)" % a[0]}})])


TRUSTED = ["source-to-Gallina translator harness/py2coq.py + coq/theories/Base/Py.v (DiscoveryServer.verify_return is re-translated "
           "from the source text on every run; c08_source_verify_return proves it equal to the model)",
           "metadata templates and abstraction in harness/c08.py (abstract metadata = what the templates render)",
           "observation wrappers around Entity.apply_binding / create_logout_request / send in harness/c08.py"]
ASSUMPTIONS = ["every endpoint element carries non-empty Binding and Location attributes; no AttributeConsumingService "
               "elements (they have no Binding; AttributeQuery answering then raises KeyError)",
               "role descriptors support SAML 2.0 and entity ids are unique within a source (C11 covers the store)",
               "bindings passed by the caller are non-empty strings",
               "do_logout: not expired (expire=None); the final LogoutError raised because the stub transport answers "
               "nothing is not part of the observation"]

R, P, S, A, O, U = (world.BINDING_HTTP_REDIRECT, world.BINDING_HTTP_POST, world.BINDING_SOAP,
                    world.BINDING_HTTP_ARTIFACT, world.BINDING_PAOS, world.BINDING_URI)
D = world.BINDING_DISCO
BOGUS = "urn:example:bogus-binding"
BSHORT = {R: "bR", P: "bP", S: "bS", A: "bA", O: "bO", U: "bU", D: "bD"}
SSHORT = {"assertion_consumer_service": "sACS", "single_logout_service": "sSLO", "manage_name_id_service": "sMNI",
          "single_sign_on_service": "sSSO"}
RSHORT = {"spsso_descriptor": "rSP", "idpsso_descriptor": "rIDP"}
TAG = {"assertion_consumer_service": "AssertionConsumerService", "single_logout_service": "SingleLogoutService",
       "manage_name_id_service": "ManageNameIDService", "single_sign_on_service": "SingleSignOnService"}
# schema order of the endpoint elements inside a role descriptor
SP_ORDER = ["single_logout_service", "manage_name_id_service", "assertion_consumer_service"]
IDP_ORDER = ["single_logout_service", "manage_name_id_service", "single_sign_on_service"]

_SRPA = [S, R, P, A]
PREFS = {
    "default": {"single_logout_service": _SRPA, "manage_name_id_service": _SRPA,
                "assertion_consumer_service": [P, R, A], "single_sign_on_service": [R, P, A]},
    "alt": {"single_logout_service": [P, R], "manage_name_id_service": [R],
            "assertion_consumer_service": [A, R, O, P], "single_sign_on_service": [P]},
    "noacs": {"single_logout_service": [R, S], "single_sign_on_service": [R]},
}
SLO_PREFS = {"default": _SRPA, "alt": [P, R], "noacs": [R, S]}
UNKNOWN = "https://nobody.example.org/x.xml"


# ------------------------------------------------------------------------------------------- worlds
def gen_endpoints(rng, host, svc, bindings, indexed, weird, pool):
    """list of endpoint dicts for one service of one descriptor."""
    eps = []
    short = {"assertion_consumer_service": "acs", "single_logout_service": "slo", "manage_name_id_service": "mni",
             "single_sign_on_service": "sso"}[svc]
    n = 0
    for b in bindings:
        for _ in range(rng.choice([1, 1, 2, 2, 3, 4] if svc == "assertion_consumer_service" else [1, 1, 2])):
            tagb = {R: "r", P: "p", S: "s", A: "a", O: "o", BOGUS: "x"}.get(b, "z")
            loc = "https://%s/%s/%s%d" % (host, short, tagb, n)
            k = rng.random()
            if k < 0.10 and pool:
                loc = rng.choice(pool)                      # a location also registered elsewhere
            elif k < 0.16:
                loc += "?a=b&c=d"                           # query part: glue character, escaping
            # pad: XML-level whitespace around the attribute values; the store strips it on load (mdie._eval)
            ep = {"b": b, "l": loc, "i": None, "r": None, "pad": rng.random() < 0.06}
            if indexed:
                ep["i"] = str(n)
                if weird:
                    w = rng.random()
                    if w < 0.15:
                        ep["i"] = None
                    elif w < 0.30:
                        ep["i"] = rng.choice(["x", "01", "-1", "1x"])
                    elif w < 0.45:
                        ep["i"] = str(max(0, n - 1))       # duplicate index
            if svc != "single_sign_on_service" and rng.random() < (0.30 if svc != "assertion_consumer_service" else 0.08):
                ep["r"] = "https://%s/%s/resp%d" % (host, short, n)
            eps.append(ep)
            pool.append(loc)
            n += 1
    rng.shuffle(eps)
    return eps


def gen_sp_descriptor(rng, host, weird, pool):
    acs_b = rng.choice([[P], [P, R], [R, P], [P, R, A], [P, O], [R], [P, A, BOGUS], [A], [P, R, A, O]])
    slo_b = rng.choice([[], [R], [R, P, S], [S], [P]])
    mni_b = rng.choice([[], [], [S], [R, P]])
    eps = []
    for svc, bs, idx in (("single_logout_service", slo_b, False), ("manage_name_id_service", mni_b, False),
                         ("assertion_consumer_service", acs_b, True)):
        for e in gen_endpoints(rng, host, svc, bs, idx, weird, pool):
            eps.append((svc, e))
    disco = []
    if rng.random() < 0.7:
        for j in range(rng.choice([1, 1, 2, 3])):
            b = D if rng.random() < 0.7 else rng.choice([P, "urn:example:other-disco"])
            loc = "https://%s/disco%s" % (host, ["", "/d1", "2", "/d1/sub"][j % 4])
            if rng.random() < 0.08 and pool:
                loc = rng.choice(pool)
            disco.append((b, loc))
    return {"role": "spsso_descriptor", "eps": eps, "disco": disco}


def gen_idp_descriptor(rng, host, pool):
    sso_b = rng.choice([[R], [R, P], [R, P], [P], [P, R, S], [R, A], [R, P, A], [S, R], [S], [R, BOGUS], [BOGUS], [R, P, O]])
    slo_b = rng.choice([[], [S], [S, R, P], [R], [P, R], [A, R], [BOGUS, R], [R, S], [O]])
    mni_b = rng.choice([[], [], [S]])
    eps = []
    for svc, bs in (("single_logout_service", slo_b), ("manage_name_id_service", mni_b), ("single_sign_on_service", sso_b)):
        for e in gen_endpoints(rng, host, svc, bs, False, False, pool):
            eps.append((svc, e))
    return {"role": "idpsso_descriptor", "eps": eps, "disco": []}


def validates(ent):
    """can this entity live inside an EntitiesDescriptor (whole-document validation)?"""
    for d in ent["descs"]:
        for svc, e in d["eps"]:
            if svc == "assertion_consumer_service" and (e["i"] is None or not e["i"].isdigit()):
                return False
    return True


def gen_world(rng, wid, n_idp=None):
    n_sp = rng.randint(1, 3)
    n_idp = rng.choice([0, 1, 2, 2, 3, 3]) if n_idp is None else n_idp
    pool = []
    ents = []
    for k in range(n_sp):
        host = "sp%d.example.org" % (k + 1)
        eid = "https://%s/sp.xml" % host
        descs = [gen_sp_descriptor(rng, host, rng.random() < 0.35, pool)]
        r = rng.random()
        if r < 0.12:
            descs.append(gen_sp_descriptor(rng, host + "/second", False, pool))    # two SPSSODescriptors
        elif r < 0.22:
            descs.append(gen_idp_descriptor(rng, host, pool))                      # SP that is also an IdP
        ents.append({"id": eid, "descs": descs})
    for k in range(n_idp):
        host = "idp%d.example.org" % (k + 1)
        eid = "https://%s/idp.xml" % host
        descs = [gen_idp_descriptor(rng, host, pool)]
        if rng.random() < 0.12:
            descs.insert(0, gen_sp_descriptor(rng, host, False, pool))
        ents.append({"id": eid, "descs": descs})
    # variants of some entities for another source: the same entityID with other endpoints / bindings / role.
    # MetadataStore.service (since d8b1d2a4) and with_descriptor (since 18964551) answer from the first source that
    # has the entity, ext_service still falls through; every second world has at least one repeated entity
    variants = []
    forced = rng.randrange(len(ents)) if wid % 2 == 0 else -1
    for k, e in enumerate(ents):
        if rng.random() < 0.35 or k == forced:
            host = e["id"].split("/")[2] + "/v2"
            if e["descs"][0]["role"] == "spsso_descriptor" and rng.random() < 0.8:
                variants.append({"id": e["id"], "descs": [gen_sp_descriptor(rng, host, False, pool)]})
            else:
                variants.append({"id": e["id"], "descs": [gen_idp_descriptor(rng, host, pool)]})
    allents = ents + variants
    rng.shuffle(allents)
    sources = []
    for e in allents:
        placed = False
        if validates(e):
            cands = [s for s in sources if s["multi"] and all(x["id"] != e["id"] for x in s["ents"])]
            if cands and rng.random() < 0.6:
                rng.choice(cands)["ents"].append(e)
                placed = True
        if not placed:
            sources.append({"multi": validates(e) and rng.random() < 0.6, "ents": [e]})
    for s in sources:
        if len(s["ents"]) > 1:
            s["multi"] = True
    return {"wid": wid, "sources": sources, "pool": sorted(set(pool))}


def render_endpoint(svc, e):
    pad = (lambda v: " " + v + "\n") if e.get("pad") else (lambda v: v)
    extra = "" if e["r"] is None else " ResponseLocation=%s" % quoteattr(pad(e["r"]))
    idx = "" if e["i"] is None else " index=%s" % quoteattr(pad(e["i"]))
    return "<md:%s Binding=%s Location=%s%s%s/>" % (TAG[svc], quoteattr(pad(e["b"])), quoteattr(pad(e["l"])), idx, extra)


def render_desc(d):
    order = SP_ORDER if d["role"] == "spsso_descriptor" else IDP_ORDER
    body = ""
    if d["disco"]:
        body += "<md:Extensions>%s</md:Extensions>" % "".join(
            '<idpdisc:DiscoveryResponse xmlns:idpdisc="urn:oasis:names:tc:SAML:profiles:SSO:idp-discovery-protocol" '
            "Binding=%s Location=%s index=\"%d\"/>" % (quoteattr(b), quoteattr(l), j) for j, (b, l) in enumerate(d["disco"]))
    for svc in order:
        body += "".join(render_endpoint(s, e) for s, e in d["eps"] if s == svc)
    tag = "SPSSODescriptor" if d["role"] == "spsso_descriptor" else "IDPSSODescriptor"
    return "<md:%s protocolSupportEnumeration=%s>%s</md:%s>" % (tag, quoteattr(world.PROTO), body, tag)


def render_entity(e):
    return "<md:EntityDescriptor %s entityID=%s>%s</md:EntityDescriptor>" % (
        world.MD_NS, quoteattr(e["id"]), "".join(render_desc(d) for d in e["descs"]))


def render_world(w):
    out = []
    for s in w["sources"]:
        if s["multi"]:
            out.append(world.entities(*[render_entity(e) for e in s["ents"]]))
        else:
            out.append(render_entity(s["ents"][0]))
    return out


# ------------------------------------------------------------------------------------------- world queries (generator side)
def all_entities(w):
    return [e for s in w["sources"] for e in s["ents"]]


def ids_with(w, role):
    out = []
    for e in all_entities(w):
        if any(d["role"] == role for d in e["descs"]) and e["id"] not in out:
            out.append(e["id"])
    return out


def eps_of(w, eid, role, svc):
    return [e for x in all_entities(w) if x["id"] == eid for d in x["descs"] if d["role"] == role
            for s, e in d["eps"] if s == svc]


def lookalike(rng, s):
    k = rng.randint(0, 6)
    if k == 0:
        i = rng.randrange(8, len(s))
        return s[:i] + s[i].swapcase() + s[i + 1:] if s[i].swapcase() != s[i] else s + "X"
    if k == 1:
        return s[:-1]
    if k == 2:
        return s + rng.choice(["/", "x", "?a=b", "#f", ".evil.com", "%20"])
    if k == 3:
        return rng.choice(["x", "https://evil.example.com/?u="]) + s
    if k == 4:
        return s.replace("https://", "http://")
    if k == 5:
        return s.replace("example.org", "example.org.evil.com")
    return s + " "


# ------------------------------------------------------------------------------------------- cases
def mk(w, op, tag):
    return {"world": w, "op": op, "tag": tag}


def url_classes(rng, w, sp, pb):
    """the 7 AssertionConsumerServiceURL classes for SP sp when the binding in play is pb."""
    acs = eps_of(w, sp, "spsso_descriptor", "assertion_consumer_service")
    b0 = pb if pb in [e["b"] for e in acs] else (acs[0]["b"] if acs else P)
    for_b = [e["l"] for e in acs if e["b"] == b0]
    other_b = [e["l"] for e in acs if e["b"] != b0 and e["l"] not in for_b]
    mine = {e["l"] for e in acs}
    other_sp = [e["l"] for x in ids_with(w, "spsso_descriptor") if x != sp
                for e in eps_of(w, x, "spsso_descriptor", "assertion_consumer_service") if e["l"] not in mine]
    reg = rng.choice(for_b) if for_b else "https://unregistered.example.org/acs0"
    return [
        ("absent", None),
        ("empty", ""),
        ("for-binding", reg),
        ("other-binding", rng.choice(other_b) if other_b else "https://unregistered.example.org/acs1"),
        ("other-sp", rng.choice(other_sp) if other_sp else "https://sp9.example.org/acs/p0"),
        ("unregistered", "https://evil.example.com/acs"),
        ("lookalike", lookalike(rng, reg)),
    ]


def index_classes(rng, w, sp):
    acs = eps_of(w, sp, "spsso_descriptor", "assertion_consumer_service")
    valid = [e["i"] for e in acs if e["i"] is not None]
    return [("absent", None), ("valid", rng.choice(valid) if valid else "0"), ("unknown", "99"), ("nonnum", rng.choice(["x", "1x", " 1", ""]))]


PB_CLASSES = [("POST", P), ("Redirect", R), ("Artifact", A), ("PAOS", O), ("bogus", BOGUS), ("absent", None)]
CALLER_BINDINGS = [[], [], [], [S], [P], [R], [O], [P, R], [S, P], [A, P], [BOGUS], [R, S], [BOGUS, R, P]]
MSG_CLASSES = ["AuthnRequest", "LogoutRequest", "ManageNameIDRequest", "AttributeQuery", "ArtifactResolve",
               "AssertionIDRequest", "NameIDMappingRequest", "AuthnQuery"]


def answer_op(cls, issuer, url, idx, pb, bindings, descr="", etype="idp", prefs="default", none_arg=True):
    return {"k": "answer", "cls": cls, "issuer": issuer, "url": url, "idx": idx, "pb": pb, "bindings": bindings,
            "descr": descr, "etype": etype, "prefs": prefs, "none_arg": none_arg}


def generate(ctx):
    rng = ctx.rng
    thorough = ctx.thorough
    n_worlds = 60 if thorough else 20
    worlds = [gen_world(rng, i, n_idp=(1 if i % 3 == 1 else None)) for i in range(n_worlds)]
    publish_definitions(worlds)
    cases = []
    for w in worlds:
        sps = ids_with(w, "spsso_descriptor")
        idps = ids_with(w, "idpsso_descriptor")
        everyone = sps + [x for x in idps if x not in sps]
        full = thorough or w["wid"] < 6
        idpish = (idps * 4 or [UNKNOWN]) + sps + [UNKNOWN]          # mostly IdPs
        spish = (sps * 4) + idps + [UNKNOWN]                        # mostly SPs
        # A. the quantifier's request alphabet on the focus SP
        focus = sps[w["wid"] % len(sps)]
        combos = []
        for pbn, pb in PB_CLASSES:
            ucs = url_classes(rng, w, focus, pb)
            ics = index_classes(rng, w, focus)
            for un, u in ucs:
                for inn, i in ics:
                    combos.append((un, u, inn, i, pbn, pb))
        if not full:
            combos = rng.sample(combos, 24)
        for un, u, inn, i, pbn, pb in combos:
            op = answer_op("AuthnRequest", focus, u, i, pb, [], none_arg=rng.random() < 0.5)
            cases.append(mk(w, op, "authn:%s/%s/%s" % (un, inn, pbn)))
        # B. message classes x caller bindings x descriptor type x entity type x issuer x preferences
        for _ in range(60 if thorough else 26):
            cls = rng.choice(MSG_CLASSES[:3] * 3 + MSG_CLASSES)
            issuer = rng.choice(spish if rng.random() < 0.7 else idpish)
            if rng.random() < 0.15:
                issuer = rng.choice([" ", "\n", "\t "]) + issuer + rng.choice([" ", "\n"])
            u = i = pb = None
            if cls == "AuthnRequest":
                pb = rng.choice(PB_CLASSES)[1]
                if issuer.strip() in sps:
                    u = rng.choice(url_classes(rng, w, issuer.strip(), pb))[1]
                    i = rng.choice(index_classes(rng, w, issuer.strip()))[1]
            op = answer_op(cls, issuer, u, i, pb, rng.choice(CALLER_BINDINGS), rng.choice(["", "", "spsso", "idpsso"]),
                           rng.choice(["idp", "idp", "sp"]), rng.choice(["default", "default", "alt", "noacs"]),
                           rng.random() < 0.5)
            cases.append(mk(w, op, "answer:" + cls))
        # C. pick_binding for an entity, no request
        for _ in range(30 if thorough else 10):
            op = {"k": "pick", "svc": rng.choice(list(SSHORT)), "bindings": rng.choice(CALLER_BINDINGS),
                  "descr": rng.choice(["", "spsso", "idpsso"]), "eid": rng.choice(everyone * 3 + [UNKNOWN]),
                  "etype": rng.choice(["idp", "sp"]), "prefs": rng.choice(["default", "alt", "noacs"])}
            cases.append(mk(w, op, "pick"))
        # D/E. SP side: sign-on endpoint
        eids = idps + sps[:1] + [None, "", UNKNOWN]
        sso_b = [R, P, S, A, O, BOGUS]
        pairs = [(e, b) for e in eids for b in sso_b]
        for e, b in (pairs if full else rng.sample(pairs, min(len(pairs), 16))):
            cases.append(mk(w, {"k": "sso", "eid": e, "binding": b}, "sso"))
        eids = idps * 3 + sps[:1] + [None, None, "", UNKNOWN]
        for _ in range(40 if thorough else 14):
            e, b = rng.choice(eids), rng.choice([None, None, "", R, R, P, P, S, A, O, U, BOGUS])
            cases.append(mk(w, {"k": "negotiate", "eid": e, "binding": b}, "negotiate"))
        for _ in range(30 if thorough else 10):
            e, b = rng.choice(eids), rng.choice(["", R, R, R, P, P, S, A, BOGUS])
            cases.append(mk(w, {"k": "authenticate", "eid": e, "binding": b}, "authenticate"))
        # F. SP side: logout
        for _ in range(50 if thorough else 16):
            n = rng.choice([1, 1, 2, 3])
            lst = [rng.choice((idps * 8 or [UNKNOWN]) + sps[:1] + [UNKNOWN]) for _ in range(n)]
            op = {"k": "logout", "eids": lst, "expected": rng.choice([None, None, None, "", R, P, S, A, O, BOGUS]),
                  "prefs": rng.choice(["default", "default", "alt", "noacs"])}
            cases.append(mk(w, op, "logout"))
        # G. discovery service
        for e in sps + idps[:1] + [UNKNOWN]:
            mine = [l for x in all_entities(w) if x["id"] == e for d in x["descs"] if d["role"] == "spsso_descriptor"
                    for b, l in d["disco"] if b == D]
            otherb = [l for x in all_entities(w) if x["id"] == e for d in x["descs"] for b, l in d["disco"] if b != D]
            others = [l for x in all_entities(w) if x["id"] != e for d in x["descs"] for b, l in d["disco"]
                      if b == D and not any(l.startswith(m) for m in mine)]
            reg = rng.choice(mine) if mine else "https://sp1.example.org/disco"
            urls = [("exact", reg), ("extends", reg + rng.choice(["?x=1", "/more", "#f"])),
                    ("lookalike", reg + rng.choice([".evil.com/", "x", "%2e"])), ("shorter", reg[:-1]),
                    ("other-sp", rng.choice(others) if others else "https://sp8.example.org/disco"),
                    ("other-binding", rng.choice(otherb) if otherb else "https://sp8.example.org/odisco"),
                    ("unregistered", "https://evil.example.com/disco"), ("empty", "")]
            for un, u in (urls if full else rng.sample(urls, 4)):
                cases.append(mk(w, {"k": "disco", "eid": e, "url": u}, "disco:" + un))
    return cases


# ------------------------------------------------------------------------------------------- running the real code
_CACHE = {}
ERR = {"UnknownSystemEntity": "EUnknownEntity", "UnsupportedBinding": "EUnsupported", "SAMLError": "ESaml",
       "KeyError": "EKey", "AttributeError": "EAttr", "IdpUnspecified": "EIdpUnspecified", "SignOnError": "ESignOn",
       "ValueError": "EValue"}


def err_of(e):
    return ERR.get(type(e).__name__, "EOther")


def check_loaded(ent, w):
    """the abstraction is what the templates say: the loaded store must have exactly these entities per source"""
    got = [sorted(m.entity.keys()) for m in ent.metadata.metadata.values()]
    want = [sorted(e["id"] for e in s["ents"]) for s in w["sources"]]
    if got != want:
        raise RuntimeError("metadata world %s not loaded as rendered: %r vs %r" % (w["wid"], got, want))


def get_entity(kind, w, prefs="default"):
    key = (kind, w["wid"], prefs, repr(w["sources"]))
    if key in _CACHE:
        return _CACHE[key]
    xml = render_world(w)
    if kind == "idp":
        ent = world.make_idp(metadata_xml=xml, preferred_binding=dict(PREFS[prefs]))
    elif kind == "sp":
        ent = world.make_sp(metadata_xml=xml, preferred_binding=dict(PREFS[prefs]))
    else:
        env.install_standin()
        from saml2.config import Config
        from saml2.discovery import DiscoveryServer

        c = Config()
        c.load({"entityid": "https://ds.example.org/ds.xml", "xmlsec_binary": env.STANDIN_PATH,
                "metadata": {"inline": xml}})
        ent = DiscoveryServer(config=c)
    check_loaded(ent, w)
    if len(_CACHE) > 40:
        _CACHE.clear()
    _CACHE[key] = ent
    return ent


def build_message(op):
    from saml2 import saml, samlp

    common = dict(id="id-c08", version="2.0", issue_instant="2023-11-14T22:13:20Z", issuer=saml.Issuer(text=op["issuer"]))
    cls = getattr(samlp, op["cls"])
    if op["cls"] == "AuthnRequest":
        msg = cls(assertion_consumer_service_url=op["url"], assertion_consumer_service_index=op["idx"],
                  protocol_binding=op["pb"], **common)
        # what the receiver works on is the parsed message
        msg = samlp.authn_request_from_string(str(msg))
        if msg.issuer.text != op["issuer"]:
            raise RuntimeError("issuer changed in XML round trip")
        return msg
    return cls(**common)


def wire_target(binding, info, destination):
    """does the prepared HTTP message go to `destination`?"""
    try:
        if binding == P:
            m = re.search(r'<form[^>]*\saction="([^"]*)"', info["data"])
            return bool(m) and html.unescape(m.group(1)) == destination and info.get("url") == destination
        if binding == R:
            loc = [v for k, v in info["headers"] if k == "Location"][0]
            glue = "&" if "?" in destination else "?"
            return loc.startswith(destination + glue + "SAML") and info.get("url") == destination
        if binding in (S, O):
            return info.get("url") == destination
        if binding in (A, U):
            # pack.add_query (fix fc5e66e9): joined to an existing query by '&' (pool destinations never end in '?', '&', '#')
            glue = "&" if "?" in destination else "?"
            return info.get("url", "").startswith(destination + glue)
    except Exception:
        return False
    return False


def request_destination_ok(msg_str, destination):
    m = re.search(r'\sDestination="([^"]*)"', msg_str)
    return bool(m) and html.unescape(m.group(1)) == destination


class Tap:
    """records what is handed to apply_binding / send of one entity instance"""

    def __init__(self, ent):
        self.ent = ent
        self.calls = []
        self.cur = None
        self.wire = True
        self.sent = []
        self._ab = ent.apply_binding
        self._clr = ent.create_logout_request
        self._send = ent.send

    def __enter__(self):
        tap = self

        def apply_binding(binding, msg_str, destination="", relay_state="", **kw):
            info = tap._ab(binding, msg_str, destination, relay_state, **kw)
            tap.calls.append((tap.cur, binding, destination))
            if not wire_target(binding, info, destination):
                tap.wire = False
            if not request_destination_ok(msg_str, destination):
                tap.wire = False
            tap.last_dest = destination
            return info

        def create_logout_request(destination, issuer_entity_id, *a, **kw):
            tap.cur = issuer_entity_id
            return tap._clr(destination, issuer_entity_id, *a, **kw)

        def send(url, method="GET", **kw):
            tap.sent.append(url)
            if url != tap.last_dest:
                tap.wire = False
            return None

        self.mode = None
        self.last_dest = None
        self.ent.apply_binding = apply_binding
        self.ent.create_logout_request = create_logout_request
        self.ent.send = send
        return self

    def __exit__(self, *a):
        del self.ent.apply_binding
        del self.ent.create_logout_request
        del self.ent.send


def observe(case):
    w, op = case["world"], case["op"]
    k = op["k"]
    obs = {"wire": True, "exc": None}
    try:
        if k == "answer":
            ent = get_entity(op["etype"], w, op["prefs"])
            msg = build_message(op)
            b = op["bindings"] or (None if op["none_arg"] else [])
            info = ent.response_args(msg, b, descr_type=op["descr"])
            if "binding" in info or "destination" in info:
                obs["out"] = ["Dest", info["binding"], info["destination"]]
            else:
                obs["out"] = ["NoDest"]
        elif k == "pick":
            ent = get_entity(op["etype"], w, op["prefs"])
            b, d = ent.pick_binding(op["svc"], op["bindings"] or None, op["descr"], entity_id=op["eid"])
            obs["out"] = ["Dest", b, d]
        elif k == "sso":
            ent = get_entity("sp", w)
            obs["out"] = ["Loc", ent._sso_location(op["eid"], op["binding"])]
        elif k in ("negotiate", "authenticate"):
            ent = get_entity("sp", w)
            with Tap(ent) as tap:
                if k == "negotiate":
                    _, nb, info = ent.prepare_for_negotiated_authenticate(entityid=op["eid"], binding=op["binding"],
                                                                          relay_state="rs")
                else:
                    _, info = ent.prepare_for_authenticate(entityid=op["eid"], binding=op["binding"], relay_state="rs")
                    nb = tap.calls[-1][1]
                _, b, d = tap.calls[-1]
                obs["wire"] = tap.wire and b == nb and len(tap.calls) == 1
                obs["out"] = ["Dest", nb, d]
        elif k == "logout":
            from saml2 import saml
            from saml2.client_base import LogoutError

            ent = get_entity("sp", w, op["prefs"])
            nid = saml.NameID(text="user1", format=saml.NAMEID_FORMAT_TRANSIENT)
            with Tap(ent) as tap:
                tap.mode = "logout"
                err = None
                try:
                    ent.do_logout(nid, list(op["eids"]), "", None, expected_binding=op["expected"])
                except LogoutError:
                    pass
                except Exception as e:  # noqa: BLE001
                    err = err_of(e)
                    obs["exc"] = type(e).__name__
                soap = [c for c in tap.calls if c[1] == S]
                obs["wire"] = tap.wire and [c[2] for c in soap] == tap.sent
                obs["out"] = ["Trace", [list(c) for c in tap.calls], err]
        elif k == "disco":
            ent = get_entity("disco", w)
            obs["out"] = ["Approved", bool(ent.verify_return(op["eid"], op["url"]))]
        else:
            raise RuntimeError("unknown op " + k)
    except RuntimeError:
        raise
    except Exception as e:  # noqa: BLE001
        obs["out"] = ["Fail", err_of(e)]
        obs["exc"] = type(e).__name__
    return obs


# ------------------------------------------------------------------------------------------- Coq terms
def cb(b):
    return Raw(BSHORT[b]) if b in BSHORT else b


def coq_ep(e):
    return Raw("(ep %s %s %s %s)" % (cq(cb(e["b"])), cq(e["l"]), cq_opt(e["i"]), cq_opt(e["r"])))


def coq_world(w):
    srcs = []
    for s in w["sources"]:
        ents = []
        for e in s["ents"]:
            descs = []
            for d in e["descs"]:
                eps = [(Raw(SSHORT[svc]), coq_ep(x)) for svc, x in d["eps"]]
                disco = [(cb(b), l) for b, l in d["disco"]]
                descs.append((Raw(RSHORT[d["role"]]), Raw("(Desc %s %s)" % (cq(eps), cq(disco)))))
            ents.append((e["id"], descs))
        srcs.append(ents)
    return cq(srcs)


def coq_prefs_term(name):
    return cq([(Raw(SSHORT[s]), [cb(b) for b in bs]) for s, bs in PREFS[name].items()])


def coq_prefs(name):
    return "pf_" + name if _WORLD_NAMES else coq_prefs_term(name)


def world_key(w):
    return repr((w["wid"], w["sources"]))


def publish_definitions(worlds):
    global IMPORTS
    lines = [BASE_IMPORTS, "Import ListNotations.", "Open Scope string_scope."]
    for name in PREFS:
        lines.append("Definition pf_%s : list (string * list string) := %s." % (name, coq_prefs_term(name)))
    _WORLD_NAMES.clear()
    for w in worlds:
        nm = "world_%d" % w["wid"]
        lines.append("Definition %s : md := %s." % (nm, coq_world(w)))
        _WORLD_NAMES[world_key(w)] = nm
    IMPORTS = "\n".join(lines)


CLS = {"AuthnRequest": "MAuthn", "LogoutRequest": "MLogout", "ManageNameIDRequest": "MManageNameID",
       "AttributeQuery": "MAttrQuery", "ArtifactResolve": "MSoapOnly", "AssertionIDRequest": "MSoapOnly",
       "NameIDMappingRequest": "MSoapOnly", "AuthnQuery": "MOther"}


def coq_op(op):
    k = op["k"]
    if k == "answer":
        req = "(Req %s %s %s %s %s)" % (CLS[op["cls"]], cq(op["issuer"]), cq_opt(op["url"]), cq_opt(op["idx"]),
                                        cq_opt(None if op["pb"] is None else cb(op["pb"])))
        return "(OpAnswer %s %s %s %s %s)" % (cq(op["etype"]), coq_prefs(op["prefs"]), req,
                                              cq([cb(b) for b in op["bindings"]]), cq(op["descr"]))
    if k == "pick":
        svc = Raw(SSHORT[op["svc"]])
        return "(OpPick %s %s %s %s %s %s)" % (cq(op["etype"]), coq_prefs(op["prefs"]), cq(svc),
                                               cq([cb(b) for b in op["bindings"]]), cq(op["descr"]), cq(op["eid"]))
    if k == "sso":
        return "(OpSso %s %s)" % (cq_opt(op["eid"]), cq(cb(op["binding"])))
    if k == "negotiate":
        return "(OpNegotiate %s %s)" % (cq_opt(op["eid"]), cq_opt(None if op["binding"] is None else cb(op["binding"])))
    if k == "authenticate":
        return "(OpAuthenticate %s %s)" % (cq_opt(op["eid"]), cq(cb(op["binding"])))
    if k == "logout":
        return "(OpLogout %s %s %s)" % (cq([cb(b) for b in SLO_PREFS[op["prefs"]]]),
                                        cq_opt(None if op["expected"] is None else cb(op["expected"])), cq(op["eids"]))
    if k == "disco":
        return "(OpDisco %s %s)" % (cq(op["eid"]), cq(op["url"]))
    raise ValueError(k)


def coq_out(out):
    t = out[0]
    if t == "Dest":
        return "(Dest %s %s)" % (cq(cb(out[1])), cq_opt(out[2]))
    if t == "NoDest":
        return "NoDest"
    if t == "Loc":
        return "(Loc %s)" % cq_opt(out[1])
    if t == "Trace":
        sent = [(e if e is not None else "", cb(b), d) for e, b, d in out[1]]
        return "(Trace %s %s)" % (cq(sent), "None" if out[2] is None else "(Some %s)" % out[2])
    if t == "Approved":
        return "(Approved %s)" % cq(bool(out[1]))
    if t == "Fail":
        return "(Fail %s)" % out[1]
    raise ValueError(t)


def coq_case(case, obs):
    wt = _WORLD_NAMES.get(world_key(case["world"])) or coq_world(case["world"])
    return "C08.Corr.mk %s %s %s %s" % (wt, coq_op(case["op"]), coq_out(obs["out"]), cq(bool(obs["wire"])))


# ------------------------------------------------------------------------------------------- evidence
def out_kind(obs):
    o = obs["out"]
    if o[0] == "Fail":
        return "Fail:" + o[1]
    if o[0] == "Trace":
        return "Trace:%d:%s" % (len(o[1]), o[2])
    if o[0] == "Approved":
        return "Approved:%s" % o[1]
    return o[0]


def nontrivial(case, obs):
    op = case["op"]
    k = op["k"]
    if k == "answer":
        key = (k, case["tag"], tuple(op["bindings"]), op["descr"], op["etype"], op["prefs"], out_kind(obs))
    elif k == "pick":
        key = (k, op["svc"], tuple(op["bindings"]), op["descr"], op["etype"], out_kind(obs))
    elif k in ("sso", "negotiate", "authenticate"):
        e = op["eid"]
        ec = "none" if e is None else "empty" if e == "" else "unknown" if e == UNKNOWN else "idp" if "/idp" in e else "sp"
        key = (k, ec, op["binding"], out_kind(obs))
    elif k == "logout":
        key = (k, len(op["eids"]), op["expected"], op["prefs"], out_kind(obs))
    else:
        key = (k, case["tag"], out_kind(obs))
    return key


def sources_with(w, eid):
    """the entity records of eid, one per source that has it, in load order"""
    return [x for s in w["sources"] for x in s["ents"] if x["id"] == eid]


def served(x, role, svc):
    """bindings entity record x lists for (role, service); None when it has no descriptor of that role"""
    ds = [d for d in x["descs"] if d["role"] == role]
    if not ds:
        return None
    return sorted({e["b"] for d in ds for s, e in d["eps"] if s == svc})


ROLE_SVC = {"sso": ("idpsso_descriptor", "single_sign_on_service"),
            "negotiate": ("idpsso_descriptor", "single_sign_on_service"),
            "authenticate": ("idpsso_descriptor", "single_sign_on_service"),
            "logout": ("idpsso_descriptor", "single_logout_service")}
ANSWER_SVC = {"AuthnRequest": "assertion_consumer_service", "LogoutRequest": "single_logout_service",
              "ManageNameIDRequest": "manage_name_id_service"}


def lookups(case):
    """(entity, role, service) triples the operation looks up in the store (generator-side bookkeeping only)"""
    op = case["op"]
    k = op["k"]
    if k == "answer":
        svc = ANSWER_SVC.get(op["cls"])
        if svc is None:
            return []
        descr = op["descr"] or ("idpsso" if op["etype"] == "sp" else "spsso")
        role = "spsso_descriptor" if svc == "assertion_consumer_service" else descr + "_descriptor"
        return [(op["issuer"].strip(), role, svc)]
    if k == "pick":
        descr = op["descr"] or ("idpsso" if op["etype"] == "sp" else "spsso")
        role = ("spsso_descriptor" if op["svc"] == "assertion_consumer_service" else
                "idpsso_descriptor" if op["svc"] == "single_sign_on_service" else descr + "_descriptor")
        return [(op["eid"], role, op["svc"])]
    if k == "logout":
        return [(e, ) + ROLE_SVC[k] for e in op["eids"]]
    if k in ROLE_SVC:
        return [(op["eid"], ) + ROLE_SVC[k]] if op["eid"] else []
    if k == "disco":
        return [(op["eid"], "spsso_descriptor", "disco")]
    return []


def repeat_class(case):
    """how the looked-up entity is spread over the sources: None (not repeated), 'same' (the later sources list
    nothing the first does not), 'later-has-more' (a later source has a binding / the role that the first source
    with the entity lacks: exactly where fall-through and first-source-wins differ)"""
    w = case["world"]
    cls = None
    for eid, role, svc in lookups(case):
        recs = sources_with(w, eid)
        if len(recs) < 2:
            continue
        cls = cls or "same"
        if svc == "disco":
            f = lambda x: (None if not any(d["role"] == role for d in x["descs"]) else
                           sorted({l for d in x["descs"] if d["role"] == role for b, l in d["disco"] if b == D}))
        else:
            f = lambda x: served(x, role, svc)
        first = f(recs[0])
        for x in recs[1:]:
            later = f(x)
            if later and (first is None or set(later) - set(first)):
                cls = "later-has-more"
    return cls


def histogram(cases, observed):
    h = {"by_tag": {}, "by_kind": {}, "outcomes": {}, "exceptions": {}, "worlds": len({c["world"]["wid"] for c in cases}),
         "dest_by_binding": {}, "repeated_entity": {}}
    seen_w = {}
    for c in cases:
        seen_w[c["world"]["wid"]] = c["world"]
    rep_w = 0
    rep_diff = 0
    for w in seen_w.values():
        ids = [x["id"] for s in w["sources"] for x in s["ents"]]
        reps = {i for i in ids if ids.count(i) > 1}
        if reps:
            rep_w += 1
        # same entityID in two sources with a different set of (role, service, binding, location)
        for i in reps:
            sig = [sorted((d["role"], s, e["b"], e["l"]) for d in x["descs"] for s, e in d["eps"]) for x in sources_with(w, i)]
            if any(g != sig[0] for g in sig[1:]):
                rep_diff += 1
    h["repeated_entity"]["worlds_with_entity_in_two_sources"] = rep_w
    h["repeated_entity"]["entities_in_two_sources_with_different_endpoints"] = rep_diff
    for c, o in zip(cases, observed):
        rc = repeat_class(c)
        if rc:
            key = "%s/%s" % (c["op"]["k"], rc)
            h["repeated_entity"][key] = h["repeated_entity"].get(key, 0) + 1
        t = c["tag"] if not c["tag"].startswith("authn:") else "authn-alphabet"
        h["by_tag"][t] = h["by_tag"].get(t, 0) + 1
        k = c["op"]["k"]
        h["by_kind"][k] = h["by_kind"].get(k, 0) + 1
        ok = k + "/" + out_kind(o)
        h["outcomes"][ok] = h["outcomes"].get(ok, 0) + 1
        if o["exc"]:
            h["exceptions"][o["exc"]] = h["exceptions"].get(o["exc"], 0) + 1
        if o["out"][0] == "Dest":
            b = o["out"][1].split(":")[-1]
            h["dest_by_binding"][b] = h["dest_by_binding"].get(b, 0) + 1
    return h


def explain_term(coq_case_term):
    return "C08.Corr.explain (%s)" % coq_case_term
