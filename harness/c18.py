"""C18 — name identifiers are stable, pairwise and reversible; encoding lossless; targeted ids.

One "ident" case = one whole history of IdentDB operations run against a real
saml2.ident.IdentDB({}) (dict backed).  NameID arguments may refer to the NameID an earlier step
returned ({"ref": k}); observe() resolves them, so the concrete operations are part of the
observation.  After every step the abstracted return value and the change of the db dict are
recorded; the identifier the real code generated is handed to the model as its oracle value."""
import hashlib
import os
import re

from harness import common
from harness import env  # noqa: F401  (puts $VERIF_REPO/src first on sys.path)
from harness.common import Raw, cq, cq_opt

PID = "C18"
PARALLEL = 8
SHARD = 230      # cases per coqc file: the quick tier (3 613 cases) fills the 16 evaluation workers of the driver (round 5)
IMPORTS = "From Coq Require Import Uint63.\nFrom Verif Require Import C18.Model C18.Spec C18.Corr."
CASE_TYPE = "C18.Corr.case"
RUNNER = "C18.Corr.run"
FINDING_CLASSES = {1: "C18-F1", 2: "C18-F2", 3: "C18-F3", 4: "C18-F4"}
RULE = ("ident: (a) ALL histories of length <= 3 (thorough: <= 4) over a 10-letter abstract alphabet (persistent id for user1/sp1, "
        "user1/sp2, user2/sp1, unqualified; transient and e-mail format id for user1/sp1; NewID / Terminate / remove_remote / "
        "find_local_id on the most recently answered NameID); (b) 54 directed histories around the (repaired) finding classes 2 and 3; "
        "(c) seeded random histories (quick 300, thorough 2000; length 2..60) of store / remove_remote / remove_local / "
        "get_nameid / find_nameid / match_local_id / persistent / transient / construct / name-id-mapping / manage-name-id "
        "(new id, encrypted, terminate, noop) / find_local_id / close over 1-4 users and 1-4 requesters drawn from pools with "
        "separators, spaces, '%', '=', ',', '__', non-ASCII, empty; a tenth of the random histories also confuses user names with "
        "identifier values (model faithfulness outside the property's hypotheses). Every history runs against a real "
        "IdentDB({}); return value and the whole db dict are compared with the model after EVERY step. (d) [round 2] ALL life "
        "cycles issue / act / issue again / reverse lookup / list of one persistent identifier over 3x3 spellings of requester and "
        "qualifier (value, '', absent) x same-or-other spelling at the later requests x entry point (persistent_nameid, "
        "construct_nameid; thorough: get_nameid) x action (remove_remote, NewID, Terminate, NewID+Terminate, NewEncryptedID; "
        "thorough: no-op) x REPRESENTATION of the NameID handed to the action (as returned / as find_nameid reads it from the store / "
        "absent fields empty), with a second user on the same requester (quick 510, thorough 1836 after removing coinciding ones); "
        "(e) [round 2] seeded random histories (quick 100, thorough 600) in which NameID arguments also vary in representation, "
        "removals / manage requests are followed by a new request for the same triple in another spelling of its empty components "
        "and a reverse lookup, and close() may re-open the same store with a new IdentDB object. "
        "(f) [round 4] ALL life cycles of (d) with the NameID handed to each action BY IDENTITY -- the very object the first "
        "request / the previous manage request answered, or the object a lookup made immediately before EACH action answered "
        "(find_nameid, a repeated persistent_nameid, match_local_id, a name-id-mapping request) -- over action sequences that "
        "bring an earlier storage key back (NewID+Terminate, NewID+NewID '', NewID+Terminate+NewID), followed by every kind of "
        "lookup and a further NewID on what the provider answers now (quick 630); (g) [round 4] find_nameid over the SHAPE of "
        "its filter: all filters of 0, 1, 2 fields (every ordered pair of distinct fields) over per field {value of each stored "
        "identifier, None, a value nobody has}, three-field filters in every order of (qualifier, requester, format) and "
        "(requester, format, SPProvidedID) (thorough: all three- and four-field filters), the {requester, format} filter of "
        "Server.create_authn_response in both orders for every user incl. one without identifiers, with a NewID / Terminate / "
        "removal in the middle (quick 7 histories of 55 steps); (h) [round 4] seeded random histories (quick 80, thorough 400) "
        "as (e) with references by identity (and the caller changing a field of its object), more lookups and manage requests, "
        "half of them next to a second IdentDB in the same process. For every ident history the harness also records whether "
        "an answer was an object the caller already held or an object the caller holds changed under its hands (must be never). "
        "(i) [round 5] LONG-LIVED accounts / stores (quick 8 histories of 85-165 steps, thorough 51 of up to ~330): the number of "
        "identifiers held for ONE user grows to 33, 34, 36, 65, 66, 101 (thorough: up to 260) -- session identifiers at four "
        "requesters / persistent identifiers at ever new requesters / a mix of all formats and issuing entry points incl. "
        "name-id-mapping and raw store(), with NewID requests and removals in between --, or the number of USERS of one store "
        "grows to 40, 70; the first persistent identifier is re-requested and the first identifiers are looked up every few "
        "steps during the growth; then the OLDEST three, a middle and the latest identifier are re-requested "
        "(persistent_nameid / construct_nameid), looked up in reverse (as returned / as stored / by identity), listed (no "
        "filter; {requester, format} in both orders), matched, mapped, given a NewID, terminated, removed, the account is "
        "used further and the first identifiers are asked for once more; half of them across a re-opened store, a third next "
        "to a second IdentDB; two histories over requesters and users of ~290 bytes that differ only in the last / only in the "
        "first character (every pair asked for, asked again, looked up, listed, matched, mapped, managed), and one codec batch "
        "of 40 identifiers with fields of 289 .. 1100 bytes differing only in the last / first character. "
        "codec: batches of five-field identifiers over a near-collision alphabet + decode on malformed strings; [round 4] every "
        "text is decoded twice and the caller overwrites all fields of the first answer in between. eptid: ALL ordered pairs of "
        "calls over a 4x4 (requester, user) alphabet around the '__' separator, ALL ordered pairs over 7 ways of splitting "
        "'abc' over user id and extra arguments x 2 requesters, plus random histories with several "
        "providers. non-trivial = distinct sequence of (operation kind, outcome kind, number of changed dict entries) of a "
        "history of length >= 2 / distinct codec batch / distinct non-empty decode input / distinct eptid history")
TRUSTED = ["abstraction of NameID objects to their five ATTR fields and of exceptions to their class (harness/c18.py)",
           "hashlib.md5 table handed to the model as the md5 oracle (inputs computed by the harness, not by Eptid)",
           "compact string literals of the case files (C18.Corr.u / cat, decoded inside vm_compute)",
           "source tie (translator v2, harness/py2coq2.py + Base/Py2.v; trusted base in notes/translator_v2.md: aliasing, "
           "object truthiness = has fields, exceptions = class names): ident.code, ident.decode, IdentDB.store, "
           "IdentDB.find_local_id, IdentDB.match_local_id, IdentDB.handle_name_id_mapping_request, IdentDB.nim_args, "
           "IdentDB.handle_manage_name_id_request, IdentDB.get_nameid, IdentDB.transient_nameid, IdentDB.persistent_nameid "
           "are re-translated from the current text of "
           "saml2/ident.py on every run (coq/gen/C18Src2.v; ATTR and NAMEID_FORMAT_* read from the current text of "
           "ident.py / saml.py) and proved equal to the model functions in C18/Source2.v (c18_source2_*). Trusted there: "
           "the encodings (NameID / NameIDPolicy / IdentDB as objects with exactly the attributes the code reads; NameID() "
           "= all five attributes None; copy.copy = the value), urllib quote / unquote = Model.quote_f / unquote_f, and "
           "that decode / create_id / construct_nameid / remove_remote / store / the local policy behave as the Section "
           "hypotheses say where a theorem has such hypotheses"]
ASSUMPTIONS = ["IdentDB is backed by a dict (shelve differs only in remove_local raising AttributeError on the bytes key)",
               "freshness of generated identifiers (hypothesis wf of the theorems: a value that is stored was not mentioned "
               "by an earlier operation; sha256 over 32 random bytes + 'while _id in self.db' in the code)",
               "user names are disjoint from identifier values and NameID.text is a str (hypotheses wf of the theorems; "
               "histories outside them are still compared with the model step by step)",
               "strings are valid UTF-8; the index field of a coded part uses ASCII digits/whitespace only; "
               "percent escapes in user names decode to valid UTF-8",
               "eptid distinctness: md5 is injective and hexdigest has a fixed length (Section hypotheses of c18_eptid); "
               "args is not empty; len() of a str = number of non-continuation bytes of its UTF-8 encoding",
               "the low-level IdentDB.store() is not handed a second persistent-format identifier for a (user, requester, "
               "qualifier) that already has one (clause of wf; histories outside it are still compared with the model)"]

P = "urn:oasis:names:tc:SAML:2.0:nameid-format:persistent"
T = "urn:oasis:names:tc:SAML:2.0:nameid-format:transient"
E = "urn:oasis:names:tc:SAML:1.1:nameid-format:emailAddress"
U = "urn:oasis:names:tc:SAML:1.1:nameid-format:unspecified"
ATTR = ["name_qualifier", "sp_name_qualifier", "format", "sp_provided_id", "text"]

USER_POOL = ["alice", "bob smith", "uid=1,ou=x", "a%20b", "jörg", "x__y", "100%", "a=b=c", "0=zero",
             "4=four", " lead", "trail ", "k€y", "carol/2", "d,e f=g%", "%2C", "u\tv", "q"]
SP_POOL = ["https://sp1.example.org/sp.xml", "urn:mace:sp 2", "sp,3=x", "sp%2C4", "späm", "a__b", "sp5", "1=sp"]
NQ_POOL = ["https://idp.example.org/idp.xml", "nq 2", "nq,=%"]
SPID_POOL = ["x y", "new,id=1", "café", "%41", "0", "ID-2", " "]
FMT_POOL = [P, P, T, T, E, U, "custom fmt,1=x"]


# ------------------------------------------------------------------------------------- translator v2
def _module_const(path, name):
    """Value of the module-level assignment NAME = <literal> in the CURRENT source text."""
    import ast
    from harness.py2coq2 import Untranslatable

    with open(path) as f:
        tree = ast.parse(f.read())
    for n in tree.body:
        if isinstance(n, ast.Assign) and len(n.targets) == 1 and isinstance(n.targets[0], ast.Name) and n.targets[0].id == name:
            try:
                return ast.literal_eval(n.value)
            except ValueError:
                raise Untranslatable("module constant %s of %s is not a literal" % (name, path))
    raise Untranslatable("module constant %s not found in %s" % (name, path))


def _const_term(v):
    from harness.py2coq2 import Untranslatable, cstr

    if isinstance(v, str):
        return "(PStr %s)" % cstr(v)
    if isinstance(v, (list, tuple)):
        return "(PList [%s])" % "; ".join(_const_term(x) for x in v)
    raise Untranslatable("constant %r" % (v,))


class _Lazy:
    """dict whose values are computed (from the current source text) when the translator asks for them, so that a
    constant that cannot be read poisons only the functions that mention it"""

    def __init__(self, makers):
        self.makers = makers

    def __contains__(self, k):
        return k in self.makers

    def __getitem__(self, k):
        return self.makers[k]()

    def get(self, k, d=None):
        return self[k] if k in self.makers else d


def _on_str(f):
    """Coq term: the string function f (an extra parameter of type string -> string) applied to a str value."""
    return lambda a: "(match %s with PStr s_ => PStr (%s s_) | _ => PErr end)" % (a[0], f)


# NameID(): a fresh saml.NameID instance = an object whose five ATTR attributes are None (SamlBase.__init__)
EMPTY_NAMEID = ('(PObj [("__class__", PStr "NameID"); ("name_qualifier", PNone); ("sp_name_qualifier", PNone); '
                '("format", PNone); ("sp_provided_id", PNone); ("text", PNone)])')

SRC2_FUNCTIONS = ["ident.code", "ident.decode", "IdentDB.store", "IdentDB.find_local_id", "IdentDB.match_local_id",
                  "IdentDB.handle_name_id_mapping_request", "IdentDB.nim_args", "IdentDB.handle_manage_name_id_request",
                  "IdentDB.get_nameid", "IdentDB.transient_nameid", "IdentDB.persistent_nameid"]


def src2_items():
    """Translation specs (translator v2) of the anchored decision functions of saml2/ident.py.  Module constants (ATTR,
    NAMEID_FORMAT_*) are read from the CURRENT source text.  Calls of other translated functions are linked to their
    translation (code in store; find_local_id in the mapping / manage handlers; match_local_id in get_nameid and
    persistent_nameid; get_nameid in transient_nameid / persistent_nameid); decode, urllib's quote / unquote,
    create_id, the local policy and the methods whose effect is a store update (remove_remote, store, construct_nameid)
    are extra arguments — C18/Source2.v states what is assumed about them as Section hypotheses."""
    ident_py = os.path.join(env.SRC, "saml2", "ident.py")
    saml_py = os.path.join(env.SRC, "saml2", "saml.py")
    consts = _Lazy({"ATTR": lambda: _const_term(_module_const(ident_py, "ATTR")),
                    "NAMEID_FORMAT_PERSISTENT": lambda: _const_term(_module_const(saml_py, "NAMEID_FORMAT_PERSISTENT")),
                    "NAMEID_FORMAT_EMAILADDRESS": lambda: _const_term(_module_const(saml_py, "NAMEID_FORMAT_EMAILADDRESS")),
                    "NAMEID_FORMAT_TRANSIENT": lambda: _const_term(_module_const(saml_py, "NAMEID_FORMAT_TRANSIENT"))})
    exc = {"SAMLError": ["Exception"], "Unknown": ["SAMLError", "Exception"], "PolicyError": ["SAMLError", "Exception"]}
    find_local = lambda a: "(src2_find_local_id v_self %s)" % a[0]
    decode_ = ("decode_", "pyval -> pyval")
    issue_ext = [decode_, ("create_", "pyval -> pyval -> pyval -> pyval -> pyval"), ("store_", "pyval -> pyval -> pyval -> pyval")]
    get_nameid = lambda a: "(src2_get_nameid decode_ create_ store_ v_self %s %s %s %s)" % tuple(a)
    return [
        (ident_py, "code", {"name": "src2_code", "params": ["item"], "globals": consts, "exc_parents": exc,
                            "extra_params": [("quote", "string -> string")], "calls": {"quote": _on_str("quote")}}),
        (ident_py, "decode", {"name": "src2_decode", "params": ["txt"], "globals": consts, "exc_parents": exc,
                              "extra_params": [("unquote", "string -> string")],
                              "calls": {"NameID": lambda a: EMPTY_NAMEID, "unquote": _on_str("unquote")}}),
        (ident_py, "IdentDB.store", {"name": "src2_store", "params": ["self", "ident", "name_id"], "returns_state": ["self"],
                                     "globals": consts, "exc_parents": exc, "extra_params": [("quote", "string -> string")],
                                     "calls": {"code": lambda a: "(src2_code quote %s)" % a[0]}}),
        (ident_py, "IdentDB.find_local_id", {"name": "src2_find_local_id", "params": ["self", "name_id"], "globals": consts,
                                             "exc_parents": exc}),
        (ident_py, "IdentDB.match_local_id", {"name": "src2_match_local_id",
                                              "params": ["self", "userid", "sp_name_qualifier", "name_qualifier"],
                                              "globals": consts, "exc_parents": exc, "extra_params": [decode_],
                                              "calls": {"decode": lambda a: "(decode_ %s)" % a[0]}}),
        (ident_py, "IdentDB.handle_name_id_mapping_request", {
            "name": "src2_name_id_mapping", "params": ["self", "name_id", "name_id_policy"], "globals": consts, "exc_parents": exc,
            "extra_params": [decode_, ("construct_", "pyval -> pyval -> pyval -> pyval")],
            "calls": {"decode": lambda a: "(decode_ %s)" % a[0], "self.find_local_id": find_local,
                      "self.construct_nameid": lambda a, kw: "(construct_ v_self %s %s)" % (a[0], kw["name_id_policy"])}}),
        (ident_py, "IdentDB.nim_args", {
            "name": "src2_nim_args", "params": ["self", "local_policy", "sp_name_qualifier", "name_id_policy", "name_qualifier"],
            "globals": consts, "exc_parents": exc, "extra_params": [("lp_format", "pyval -> pyval -> pyval")],
            "calls": {"local_policy.get_nameid_format": lambda a: "(lp_format v_local_policy %s)" % a[0]}}),
        (ident_py, "IdentDB.handle_manage_name_id_request", {
            "name": "src2_manage_name_id", "params": ["self", "name_id", "new_id", "new_encrypted_id", "terminate"],
            "globals": consts, "exc_parents": exc,
            "extra_params": [("remove_", "pyval -> pyval -> pyval"), ("store_", "pyval -> pyval -> pyval -> pyval")],
            # copy.copy: values are immutable in the embedding, a copy is the value (aliasing is not modelled)
            "calls": {"copy.copy": lambda a: a[0], "self.find_local_id": find_local,
                      "self.remove_remote": lambda a: "(remove_ v_self %s)" % a[0],
                      "self.store": lambda a: "(store_ v_self %s %s)" % (a[0], a[1])}}),
        (ident_py, "IdentDB.get_nameid", {
            "name": "src2_get_nameid", "params": ["self", "userid", "nformat", "sp_name_qualifier", "name_qualifier"],
            "globals": consts, "exc_parents": exc,
            "extra_params": issue_ext,
            "calls": {"self.match_local_id": lambda a: "(src2_match_local_id decode_ v_self %s %s %s)" % tuple(a),
                      "self.create_id": lambda a: "(create_ v_self %s %s %s)" % tuple(a),
                      "self.store": lambda a: "(store_ v_self %s %s)" % (a[0], a[1]),
                      # NameID(format=, sp_name_qualifier=, name_qualifier=, text=): the other attributes stay None
                      "NameID": lambda a, kw: ('(PObj [("__class__", PStr "NameID"); ("name_qualifier", %s); '
                                               '("sp_name_qualifier", %s); ("format", %s); ("sp_provided_id", PNone); ("text", %s)])'
                                               % (kw["name_qualifier"], kw["sp_name_qualifier"], kw["format"], kw["text"]))}}),
        (ident_py, "IdentDB.transient_nameid", {
            "name": "src2_transient_nameid", "params": ["self", "userid", "sp_name_qualifier", "name_qualifier"],
            "globals": consts, "exc_parents": exc, "extra_params": issue_ext, "calls": {"self.get_nameid": get_nameid}}),
        (ident_py, "IdentDB.persistent_nameid", {
            "name": "src2_persistent_nameid", "params": ["self", "userid", "sp_name_qualifier", "name_qualifier"],
            "globals": consts, "exc_parents": exc, "extra_params": issue_ext,
            "calls": {"self.get_nameid": get_nameid,
                      "self.match_local_id": lambda a: "(src2_match_local_id decode_ v_self %s %s %s)" % tuple(a)}}),
    ]


def regenerate_tables(ctx):
    """Translator v2: eleven functions of saml2/ident.py as they read NOW -> coq/gen/C18Src2.v (C18/Source2.v proves each
    equal to the model function it mirrors; Property.v re-states the theorems as c18_source2_*)."""
    from harness import py2coq2
    info = py2coq2.regenerate(os.path.join(common.GEN, "C18Src2.v"), src2_items())
    return {"obligations": info["obligations"], "discharged": info["discharged"],
            "untranslatable": list(info["untranslatable"]), "translated": list(info["translated"]),
            "changed": bool(info["changed"])}


# ------------------------------------------------------------------------------------- generation
def _pick_q(rng, pool, k):
    return rng.sample(pool, k)


def _respell(rng, x):
    """another spelling of the same qualifier argument: absent and empty are the same requester / qualifier"""
    return rng.choice(["", None]) if x in ("", None) else x


def gen_ident(rng, idx, thorough, reps=False):
    """One abstract history.  kind: 'plain' (within the property's hypotheses, requesters/qualifiers
    non-empty), 'unqual' (empty requester and qualifier allowed: class 3 reachable), 'multi' (several
    non-transient formats per requester: class 2 reachable), 'confused' (user names and identifier
    values overlap; raw stores of arbitrary identifiers).
    reps == 2 (strengthening round 4): as reps, and a NameID reference may also be BY IDENTITY (rep "obj": the very
    object the earlier step answered is handed back, possibly after the caller changed a field of it); lookups that answer
    from the store and manage-name-id requests are more frequent; half of the histories run next to a second IdentDB in the
    same process (case["twin"]).
    reps (strengthening round 2): the NameID handed to an operation also varies in its REPRESENTATION (as an earlier
    step returned it / as the store holds it: empty fields absent / absent fields empty), removals and
    manage-name-id requests are followed (half of the time) by a new request for the same (user, requester,
    qualifier) in another spelling of its empty components and a reverse lookup of the answer, and 'close' may
    re-open the store with a new IdentDB object (case["reopen"])."""
    r = rng.random()
    if reps:
        kind = "plain" if r < 0.3 else ("unqual" if r < 0.75 else ("multi" if r < 0.9 else "confused"))
    else:
        kind = "plain" if r < 0.6 else ("unqual" if r < 0.75 else ("multi" if r < 0.9 else "confused"))
    nu, nsp = rng.randint(1, 4), rng.randint(1, 4)
    users = _pick_q(rng, USER_POOL, nu)
    sps = _pick_q(rng, SP_POOL, nsp)
    nqs = _pick_q(rng, NQ_POOL, rng.randint(1, 2))
    if kind in ("unqual", "confused"):
        sps = sps + ["", None]
        nqs = nqs + ["", None]
    cfg = {"domain": rng.choice(["", "example.org", "ex ample.org"]),
           "nq": rng.choice(["", "https://idp.example.org/idp.xml"]) if kind != "plain" else "https://idp.example.org/idp.xml"}
    if kind == "plain":
        fmts = [P, P, T]
    elif kind == "unqual":
        fmts = [P, P, T]
    else:
        fmts = FMT_POOL
    n = rng.choice([rng.randint(2, 20), rng.randint(2, 20), rng.randint(2, 20), rng.randint(21, 40), rng.randint(21, 40), rng.randint(41, 60)])
    ops = []
    issuing = []          # indexes of steps that may return a NameID
    listing = []          # indexes of find_nameid steps
    lit = 0
    maxweights = [("persistent", 16), ("transient", 8), ("get", 6), ("construct", 8), ("find", 6), ("match", 4),
                  ("findlocal", 8), ("mapping", 6), ("manage", 14), ("remove", 6), ("removelocal", 2), ("store", 4),
                  ("close", 1)]
    if reps == 2:
        maxweights = [(a, {"find": 12, "match": 8, "mapping": 8, "manage": 20, "store": 2}.get(a, w)) for a, w in maxweights]
    names, weights = zip(*maxweights)
    triple = {}           # issuing step -> (user, requester, qualifier) it asked for (reps only)
    forced = []           # operations that must come next (reps only)

    def nid_ref():
        nonlocal lit
        x = rng.random()
        if issuing and x < 0.8:
            spec = {"ref": rng.choice(issuing[-8:] if rng.random() < 0.7 else issuing)}
        elif listing and x < 0.9:
            spec = {"ref": rng.choice(listing), "i": rng.randint(0, 2)}
        else:
            lit += 1
            spec = {"lit": [None, rng.choice(sps), rng.choice(fmts), None, "unknown-%d" % lit]}
        if reps:
            z = rng.random()
            if z < 0.35:
                spec["rep"] = "stored"
            elif z < 0.5:
                spec["rep"] = "empty"
            elif reps == 2 and z < 0.85 and "ref" in spec:
                spec["rep"] = "obj"
        y = rng.random()
        if y < 0.08:
            spec["drop"] = [rng.choice([0, 1, 2, 3])]
        elif y < 0.12:
            spec["set"] = {str(rng.choice([0, 1, 3])): rng.choice(sps + SPID_POOL)}
        elif y < 0.14 and kind == "confused":
            spec["set"] = {"4": rng.choice(users)}
        return spec

    for k in range(n):
        if forced:
            f = forced.pop(0)
            if f["op"] == "findlocal":
                f = {"op": "findlocal", "n": {"ref": k - 1}}
            else:
                issuing.append(k)
                triple[k] = (f["u"], f["s"], f["q"])
            ops.append(f)
            continue
        o = rng.choices(names, weights)[0]
        u = rng.choice(users)
        if kind == "confused" and rng.random() < 0.1 and issuing:
            u = {"ref_text": rng.choice(issuing)}
        s, q = rng.choice(sps), rng.choice(nqs + ["", None])
        if reps and o in ("manage", "remove") and triple and rng.random() < 0.6:
            # act on an identifier that a request answered, then ask again for the same triple
            k0 = rng.choice(sorted(triple)[-6:])
            spec = {"ref": k0}
            z = rng.random()
            if z < 0.4:
                spec["rep"] = "stored"
            elif z < 0.55:
                spec["rep"] = "empty"
            elif reps == 2 and z < 0.9:
                spec["rep"] = "obj"
            if o == "remove":
                ops.append({"op": o, "n": spec})
            else:
                x = rng.random()
                new = ["some", rng.choice(SPID_POOL + [None, ""])] if x < 0.55 else None
                ops.append({"op": o, "n": spec, "new": new, "enc": rng.random() < 0.1, "term": rng.random() < (0.15 if new else 0.8)})
                issuing.append(k)
            u0, s0, q0 = triple[k0]
            forced.append({"op": "persistent", "u": u0, "s": _respell(rng, s0), "q": _respell(rng, q0)})
            if rng.random() < 0.6:
                forced.append({"op": "findlocal"})
            continue
        if o == "persistent":
            ops.append({"op": o, "u": u, "s": s, "q": q})
            issuing.append(k)
            if reps and not isinstance(u, dict):
                triple[k] = (u, s, q)
        elif o == "transient":
            ops.append({"op": o, "u": u, "s": s, "q": q})
            issuing.append(k)
        elif o == "get":
            ops.append({"op": o, "u": u, "f": rng.choice(fmts), "s": s, "q": q})
            issuing.append(k)
        elif o == "construct":
            pol = None
            if rng.random() < 0.6:
                pol = [rng.choice([None, None, ""] + fmts), rng.choice([None, ""] + sps), None]
            ops.append({"op": o, "u": u, "lp": rng.choice([None] + fmts), "s": rng.choice([s, None]), "pol": pol,
                        "q": rng.choice(["", "", q])})
            issuing.append(k)
        elif o == "find":
            flt = []
            for i in rng.sample([1, 2, 0, 3], rng.choice([0, 0, 1, 1, 2])):     # kwargs: distinct keys
                v = {0: rng.choice(nqs + [None]), 1: rng.choice(sps + [None]), 2: rng.choice(fmts + [None]),
                     3: rng.choice(SPID_POOL + [None])}[i]
                flt.append([i, v])
            ops.append({"op": o, "u": u, "flt": flt})
            listing.append(k)
        elif o == "match":
            ops.append({"op": o, "u": u, "s": s, "q": q})
            issuing.append(k)
        elif o == "findlocal":
            ops.append({"op": o, "n": nid_ref()})
        elif o == "mapping":
            pol = [rng.choice([None, ""] + fmts + fmts), rng.choice([None] + sps + sps), rng.choice([None, None, "true", "false"])]
            ops.append({"op": o, "n": nid_ref(), "pol": pol})
            issuing.append(k)
        elif o == "manage":
            x = rng.random()
            new = ["some", rng.choice(SPID_POOL + [None, ""])] if x < 0.55 else None
            enc = rng.random() < (0.1 if new else 0.15)
            term = rng.random() < (0.15 if new else 0.75)
            ops.append({"op": o, "n": nid_ref(), "new": new, "enc": enc, "term": term})
            issuing.append(k)
        elif o == "remove":
            ops.append({"op": o, "n": nid_ref()})
        elif o == "removelocal":
            ops.append({"op": o, "u": u})
        elif o == "store":
            lit += 1
            txt = "lit-%d %s" % (lit, rng.choice(["", ",=%", "é", "/x"]))
            if kind == "confused":
                z = rng.random()
                if z < 0.2:
                    txt = rng.choice(users)
                elif z < 0.3:
                    txt = ""
                elif z < 0.4 and lit > 1:
                    txt = "lit-%d " % rng.randint(1, lit - 1)
            ops.append({"op": o, "u": u, "n": {"lit": [rng.choice(nqs + [None]), rng.choice(sps), rng.choice(fmts if kind != "plain" else [T]),
                                                         rng.choice([None, None] + SPID_POOL), txt]}})
        else:
            ops.append({"op": "close"})
    if reps == 2:
        return {"kind": "ident", "flavour": "objs-" + kind, "cfg": cfg, "users": users, "ops": ops, "idx": idx,
                "reopen": rng.random() < 0.3, "twin": rng.random() < 0.5}
    if reps:
        return {"kind": "ident", "flavour": "reps-" + kind, "cfg": cfg, "users": users, "ops": ops, "idx": idx,
                "reopen": rng.random() < 0.5}
    return {"kind": "ident", "flavour": kind, "cfg": cfg, "users": users, "ops": ops, "idx": idx}


# ---- complete enumeration of short histories over a small abstract alphabet
ENUM_USERS = ["alice", "bob smith"]
ENUM_SP1, ENUM_SP2, ENUM_NQ = "https://sp1.example.org/sp.xml", "sp,2=x", "https://idp.example.org/idp.xml"
ENUM_ALPHABET = ["P11", "P12", "P21", "T11", "E11", "P10", "newid", "terminate", "remove", "findlocal"]


def gen_ident_enum(maxlen):
    """ALL histories of length 1..maxlen over ENUM_ALPHABET: persistent ids for (user 1, requester 1), (user 1,
    requester 2), (user 2, requester 1), a transient and an e-mail format id for (user 1, requester 1), a persistent id
    without requester and qualifier, and NewID / Terminate / remove_remote / find_local_id applied to the NameID that
    the most recent NameID-returning step answered."""
    import itertools

    out = []
    for n in range(1, maxlen + 1):
        for word in itertools.product(ENUM_ALPHABET, repeat=n):
            ops, last = [], None
            for k, a in enumerate(word):
                ref = {"ref": last} if last is not None else {"lit": [None, ENUM_SP1, P, None, "unknown-%d" % k]}
                if a in ("P11", "P12", "P21"):
                    ops.append({"op": "persistent", "u": ENUM_USERS[int(a[1]) - 1], "s": ENUM_SP1 if a[2] == "1" else ENUM_SP2,
                                "q": ENUM_NQ})
                    last = k
                elif a == "P10":
                    ops.append({"op": "persistent", "u": ENUM_USERS[0], "s": "", "q": None})
                    last = k
                elif a == "T11":
                    ops.append({"op": "transient", "u": ENUM_USERS[0], "s": ENUM_SP1, "q": ENUM_NQ})
                    last = k
                elif a == "E11":
                    ops.append({"op": "get", "u": ENUM_USERS[0], "f": E, "s": ENUM_SP1, "q": ENUM_NQ})
                    last = k
                elif a == "newid":
                    ops.append({"op": "manage", "n": ref, "new": ["some", "new id"], "enc": False, "term": False})
                    last = k
                elif a == "terminate":
                    ops.append({"op": "manage", "n": ref, "new": None, "enc": False, "term": True})
                    last = k
                elif a == "remove":
                    ops.append({"op": "remove", "n": ref})
                else:
                    ops.append({"op": "findlocal", "n": ref})
            out.append({"kind": "ident", "flavour": "enum", "cfg": {"domain": "example.org", "nq": ENUM_NQ},
                        "users": list(ENUM_USERS), "ops": ops, "idx": "".join(w[0] + w[-1] for w in word)})
    return out


def gen_ident_scenarios():
    """Directed histories around the two identifier findings: a second non-transient identifier (any other format,
    issued or stored raw) for the same (user, requester, qualifier) followed by NewID / Terminate / removal of the
    persistent one; and the same for a persistent identifier without requester and qualifier."""
    out = []
    for sp, nq in ((ENUM_SP1, ENUM_NQ), ("sp,3=x", None), ("", None)):
        for fmt in (E, U, "custom fmt,1=x"):
            for how in ("get", "store"):
                for act in ("newid", "terminate", "remove"):
                    ops = [{"op": "persistent", "u": "alice", "s": sp, "q": nq}]
                    if how == "get":
                        ops.append({"op": "get", "u": "alice", "f": fmt, "s": sp, "q": nq})
                    else:
                        ops.append({"op": "store", "u": "alice", "n": {"lit": [nq, sp, fmt, None, "lit-1 %s" % fmt[-3:]]}})
                    if act == "remove":
                        ops.append({"op": "remove", "n": {"ref": 0}})
                    else:
                        ops.append({"op": "manage", "n": {"ref": 0}, "new": ["some", "new,id=1"] if act == "newid" else None,
                                    "enc": False, "term": act == "terminate"})
                    ops += [{"op": "persistent", "u": "alice", "s": sp, "q": nq}, {"op": "findlocal", "n": {"ref": 0}},
                            {"op": "find", "u": "alice", "flt": []}]
                    out.append({"kind": "ident", "flavour": "scenario", "cfg": {"domain": "example.org", "nq": ENUM_NQ},
                                "users": ["alice"], "ops": ops, "idx": len(out)})
    return out


LC_ACTS = ["remove", "newid", "terminate", "newid+terminate", "enc", "noop"]
LC_REPS = ["ret", "stored", "empty"]


def gen_ident_lifecycles(thorough):
    """(strengthening round 2) ALL life cycles  issue -> act -> issue again -> look at it  of one persistent
    identifier on a long-lived IdentDB, over: every spelling of the requester and of the qualifier at the first
    request (a value / the empty string / absent), the same or the other spelling of the empty components at the
    later requests, the issuing entry point (persistent_nameid / construct_nameid with a persistent local policy;
    thorough: also get_nameid), the action in between (remove_remote, NewID, Terminate, NewID then Terminate,
    NewEncryptedID; thorough: also a no-op manage request), and the REPRESENTATION of the NameID handed to that action (the object
    the first request returned / the one find_nameid reads from the store: empty fields absent / absent fields
    empty).  A second user with the same requester is issued an identifier first and asked for again at the end.
    Histories that coincide after resolving these choices are generated once."""
    import json

    out, seen = [], set()
    spell = [("v", None), ("e", ""), ("n", None)]
    issue_ops = ["persistent", "construct"] + (["get"] if thorough else [])
    reissue_ops = ["persistent"] + (["construct"] if thorough else [])

    def val(tag, v):
        return v if tag == "v" else ("" if tag == "e" else None)

    def other(tag):
        return {"v": "v", "e": "n", "n": "e"}[tag]

    def issue(op, u, s, q):
        if op == "persistent":
            return {"op": "persistent", "u": u, "s": s, "q": q}
        if op == "get":
            return {"op": "get", "u": u, "f": P, "s": s, "q": q}
        return {"op": "construct", "u": u, "lp": P, "s": s, "pol": None, "q": q}

    for st, _ in spell:
        for qt, _ in spell:
            # construct_nameid replaces an empty qualifier by the configured one: configure none for those
            cfg = {"domain": "example.org", "nq": ENUM_NQ if qt == "v" else ""}
            s1, q1 = val(st, ENUM_SP2), val(qt, ENUM_NQ)
            for swap in (False, True):
                s2, q2 = (val(other(st), ENUM_SP2), val(other(qt), ENUM_NQ)) if swap else (s1, q1)
                for iop in issue_ops:
                    for rop in reissue_ops:
                        for act in (LC_ACTS if thorough else LC_ACTS[:-1]):
                            for rep in LC_REPS:
                                ops = [issue(iop, "alice", s1, q1), issue(iop, "bob smith", s1, q1),
                                       {"op": "find", "u": "alice", "flt": []}]
                                ref = {"ref": 2, "i": 0} if rep == "stored" else ({"ref": 0} if rep == "ret" else {"ref": 0, "rep": "empty"})
                                for a in act.split("+"):
                                    if a == "remove":
                                        ops.append({"op": "remove", "n": ref})
                                    else:
                                        ops.append({"op": "manage", "n": ref, "new": ["some", "new,id=1"] if a == "newid" else None,
                                                    "enc": a == "enc", "term": a == "terminate"})
                                        ref = {"ref": len(ops) - 1}
                                        if rep != "ret":
                                            ref["rep"] = rep
                                k = len(ops)
                                ops += [issue(rop, "alice", s2, q2), {"op": "findlocal", "n": {"ref": k}},
                                        {"op": "find", "u": "alice", "flt": []}, issue(iop, "alice", s1, q1),
                                        issue("persistent", "bob smith", s2, q2), {"op": "findlocal", "n": {"ref": 0}}]
                                key = json.dumps([cfg, ops], sort_keys=True)
                                if key in seen:
                                    continue
                                seen.add(key)
                                out.append({"kind": "ident", "flavour": "lifecycle", "cfg": cfg, "users": list(ENUM_USERS),
                                            "ops": ops, "idx": "%s%s%d-%s-%s-%s-%s" % (st, qt, swap, iop[0], rop[0], act, rep)})
    return out


LC_OBJ_ACTS = ["remove", "newid", "terminate", "newid+terminate", "newid+newid0", "newid+terminate+newid", "enc"]
LC_OBJ_REPS = ["obj-ret", "obj-find", "obj-ask", "obj-match", "obj-map"]


def gen_ident_lifecycles_obj(thorough):
    """(strengthening round 4) the life cycles of gen_ident_lifecycles with the NameID handed to each action BY IDENTITY:
    the action receives the very object that (obj-ret) the first request / the previous manage request answered, or that
    a lookup made immediately before EACH action answered -- (obj-find) find_nameid, (obj-ask) a repeated
    persistent_nameid, (obj-match) match_local_id, (obj-map) a name-id-mapping request for the same format and requester.
    Actions also come in sequences that bring an earlier storage key back (NewID then Terminate; NewID then NewID with an
    empty id; NewID, Terminate, NewID).  Afterwards every kind of lookup is made again and the identifier is used once
    more (a second NewID on what the provider answers now).  Over every spelling of requester and qualifier at the first
    request (thorough: and the other spelling later) x entry point."""
    import json

    out, seen = [], set()
    tags = ["v", "e", "n"]

    def val(tag, v):
        return v if tag == "v" else ("" if tag == "e" else None)

    def other(tag):
        return {"v": "v", "e": "n", "n": "e"}[tag]

    def issue(op, u, s, q):
        if op == "persistent":
            return {"op": "persistent", "u": u, "s": s, "q": q}
        return {"op": "construct", "u": u, "lp": P, "s": s, "pol": None, "q": q}

    for st in tags:
        for qt in tags:
            cfg = {"domain": "example.org", "nq": ENUM_NQ if qt == "v" else ""}
            s1, q1 = val(st, ENUM_SP2), val(qt, ENUM_NQ)
            for swap in ((False, True) if thorough else (False,)):
                s2, q2 = (val(other(st), ENUM_SP2), val(other(qt), ENUM_NQ)) if swap else (s1, q1)
                for iop in ("persistent", "construct"):
                    for act in LC_OBJ_ACTS:
                        for rep in LC_OBJ_REPS:
                            ops = [issue(iop, "alice", s1, q1), issue(iop, "bob smith", s1, q1)]
                            ref = {"ref": 0, "rep": "obj"}
                            for a in act.split("+"):
                                if rep == "obj-find":
                                    ops.append({"op": "find", "u": "alice", "flt": []})
                                    ref = {"ref": len(ops) - 1, "i": 0, "rep": "obj"}
                                elif rep == "obj-ask":
                                    ops.append(issue("persistent", "alice", s2, q2))
                                    ref = {"ref": len(ops) - 1, "rep": "obj"}
                                elif rep == "obj-match":
                                    ops.append({"op": "match", "u": "alice", "s": s2, "q": q2})
                                    ref = {"ref": len(ops) - 1, "rep": "obj"}
                                elif rep == "obj-map":
                                    ops.append({"op": "mapping", "n": {"ref": 0}, "pol": [P, s1 or None, "false"]})
                                    ref = {"ref": len(ops) - 1, "rep": "obj"}
                                if a == "remove":
                                    ops.append({"op": "remove", "n": ref})
                                else:
                                    new = {"newid": ["some", "new,id=1"], "newid0": ["some", ""]}.get(a)
                                    ops.append({"op": "manage", "n": ref, "new": new, "enc": a == "enc", "term": a == "terminate"})
                                    ref = {"ref": len(ops) - 1, "rep": "obj"}
                            k = len(ops)
                            ops += [issue("persistent", "alice", s2, q2), {"op": "findlocal", "n": {"ref": k}},
                                    {"op": "find", "u": "alice", "flt": []},
                                    {"op": "match", "u": "alice", "s": s1, "q": q1},
                                    {"op": "mapping", "n": {"ref": k}, "pol": [P, s1 or None, "false"]},
                                    {"op": "manage", "n": {"ref": k, "rep": "obj"}, "new": ["some", "ID-2"], "enc": False, "term": False},
                                    {"op": "find", "u": "alice", "flt": [[3, "ID-2"]]},
                                    issue(iop, "alice", s1, q1),
                                    issue("persistent", "bob smith", s2, q2), {"op": "findlocal", "n": {"ref": 0}}]
                            key = json.dumps([cfg, ops], sort_keys=True)
                            if key in seen:
                                continue
                            seen.add(key)
                            out.append({"kind": "ident", "flavour": "lifecycle-obj", "cfg": cfg, "users": list(ENUM_USERS),
                                        "ops": ops, "idx": "%s%s%d-%s-%s-%s" % (st, qt, swap, iop[0], act, rep)})
    return out


def gen_ident_filters(thorough):
    """(strengthening round 4) find_nameid over the SHAPE of its filter.  alice holds a persistent identifier for
    requester 1 that carries an SPProvidedID, a transient and a persistent one for requester 2 and a persistent one
    without requester; bob holds one for requester 1; carol holds nothing.  ALL filters of 0, 1 and 2 fields (every
    ordered pair of distinct fields: keyword order is iteration order) over, per field, the value of each stored
    identifier, absent (None) and a value nobody has -- so that every combination "an earlier field does not match, a
    later one does" and vice versa occurs --, the three-field filters over the values of the stored identifiers in every
    order of (qualifier, requester, format) and (requester, format, SPProvidedID) (thorough: all three- and four-field
    filters), for alice; the two-field filters {requester, format} that Server.create_authn_response uses, in both
    orders, for every user.  Split into histories of at most 48 lookups; a NewID / Terminate / removal in the middle
    of each history changes what is stored."""
    import itertools

    nq2 = "nq 2"
    cand = {0: [ENUM_NQ, None, nq2], 1: [ENUM_SP1, ENUM_SP2, None, "sp5"], 2: [P, T, None, E], 3: ["x y", None, "0"]}
    stored = {0: [ENUM_NQ], 1: [ENUM_SP1, ENUM_SP2, None], 2: [P, T], 3: ["x y", None]}
    setup = [{"op": "persistent", "u": "alice", "s": ENUM_SP1, "q": ENUM_NQ},
             {"op": "transient", "u": "alice", "s": ENUM_SP2, "q": ENUM_NQ},
             {"op": "persistent", "u": "alice", "s": ENUM_SP2, "q": ENUM_NQ},
             {"op": "persistent", "u": "bob smith", "s": ENUM_SP1, "q": ENUM_NQ},
             {"op": "manage", "n": {"ref": 0}, "new": ["some", "x y"], "enc": False, "term": False},
             {"op": "persistent", "u": "alice", "s": None, "q": ENUM_NQ}]
    flts = [[]]
    for i in range(4):
        flts += [[[i, v]] for v in cand[i]]
    for i, j in itertools.permutations(range(4), 2):
        flts += [[[i, v], [j, w]] for v in cand[i] for w in cand[j]]
    triples = itertools.permutations(range(4), 3) if thorough else \
        list(itertools.permutations((0, 1, 2))) + list(itertools.permutations((1, 2, 3)))
    for t in triples:
        pools = [cand[i] if thorough else stored[i] for i in t]
        flts += [[[i, v] for i, v in zip(t, vs)] for vs in itertools.product(*pools)]
    if thorough:
        for t in itertools.permutations(range(4), 4):
            flts += [[[i, v] for i, v in zip(t, vs)] for vs in itertools.product(*[stored[i] for i in t])]
    finds = [{"op": "find", "u": "alice", "flt": f} for f in flts]
    for u in ("alice", "bob smith", "carol"):
        for sp in (ENUM_SP1, ENUM_SP2):
            for f in (P, T):
                finds.append({"op": "find", "u": u, "flt": [[1, sp], [2, f]]})
                finds.append({"op": "find", "u": u, "flt": [[2, f], [1, sp]]})
    mids = [{"op": "manage", "n": {"ref": 4}, "new": None, "enc": False, "term": True},
            {"op": "remove", "n": {"ref": 1}},
            {"op": "manage", "n": {"ref": 2}, "new": ["some", "x y"], "enc": False, "term": False}]
    out = []
    for k in range(0, len(finds), 48):
        chunk = finds[k:k + 48]
        ops = setup + chunk[:24] + [mids[len(out) % 3]] + chunk[24:]
        out.append({"kind": "ident", "flavour": "filters", "cfg": {"domain": "example.org", "nq": ENUM_NQ},
                    "users": ["alice", "bob smith", "carol"], "ops": ops, "idx": len(out)})
    return out


LONG_STYLES = ["sessions", "requesters", "mixed", "users"]
# (style, number of identifiers held when the probes begin): just above the small round numbers a cap, a window or a
# page size would plausibly be set to (32, 64, 100), plus values in between
LONG_QUICK = [("sessions", 33), ("requesters", 34), ("mixed", 36), ("users", 40),
              ("mixed", 66), ("requesters", 65), ("users", 70), ("sessions", 101)]


def _long_sp(k):
    """requester number k: as many distinct requesters as needed, spelled with the separators of SP_POOL"""
    return ["https://sp%d.example.org/sp.xml", "urn:mace:sp %d", "sp,%d=x", "sp%%2C%d", "späm%d", "a__b%d", "%d=sp"][k % 7] % k


def _long_user(k):
    return ["user %d", "uid=%d,ou=x", "u%%20%d", "jörg%d", "x__%d", "%d%%", "%d=u"][k % 7] % k


def gen_ident_long(rng, idx, style, target, thorough):
    """(strengthening round 5) ONE account (or one store) that has been in use for a long time: the number of
    identifiers held for one user (styles sessions / requesters / mixed) or the number of users of one store (style
    users) grows past `target` (33 .. 101; thorough: .. 260), far beyond anything the other groups reach (max 29 dict
    entries), and THEN the early identifiers -- and a middle and the latest one -- are asked for again (persistent_nameid / construct_nameid,
    an absent qualifier spelled '' or None), looked up in reverse (as returned / as stored / by
    identity), listed (no filter, the {requester, format} filter of Server.create_authn_response in both orders),
    matched, mapped and managed (NewID, Terminate, removal), the account is used further and the first identifiers
    are asked for once more.  During the growth the first persistent identifier is re-requested and the first issued
    identifiers are looked up every few steps, so that a failing history has a short failing prefix.
      sessions   a persistent login at one or two requesters, then session (transient) identifiers at four requesters
      requesters a persistent identifier at ever new requesters
      mixed      persistent (new requesters) / transient / e-mail / unspecified / custom format, issued through
                 persistent_nameid, transient_nameid, get_nameid, construct_nameid, name-id-mapping and raw store(),
                 with NewID requests (which move an identifier to the END of the stored list) and a few removals
      users      ever new users at two requesters (the store grows, no single forward entry does)
    A second user with two identifiers lives next to the busy one and is asked about at the end."""
    nq = rng.choice(NQ_POOL + [""])        # "": no qualifier configured, requests spell it '' or leave it out
    cfg = {"domain": rng.choice(["example.org", "ex ample.org"]), "nq": nq}
    busy, other = rng.sample(USER_POOL, 2)
    users = [busy, other]
    sp0, sp1 = _long_sp(0), _long_sp(1)
    ops = []
    held = []            # steps whose answer the busy user (style users: anybody) still holds, in order of issue
    req = {}             # step -> (user, requester, qualifier) of a persistent request
    nsp = [2]
    lit = [0]

    def add(op, holds=True, triple=None):
        ops.append(op)
        k = len(ops) - 1
        if holds:
            held.append(k)
        if triple:
            req[k] = triple
        return k

    def pers(u, s, how="persistent"):
        q = _respell(rng, nq)
        if how == "construct":
            return add({"op": "construct", "u": u, "lp": P, "s": s, "pol": None, "q": q}, triple=(u, s, q))
        if how == "get":
            return add({"op": "get", "u": u, "f": P, "s": s, "q": q}, triple=(u, s, q))
        return add({"op": "persistent", "u": u, "s": s, "q": q}, triple=(u, s, q))

    def new_sp():
        nsp[0] += 1
        return _long_sp(nsp[0])

    def rep_of():
        return rng.choice([{}, {}, {"rep": "stored"}, {"rep": "empty"}, {"rep": "obj"}])

    def grow():
        """one more identifier for the busy user (style users: one more user)"""
        if style == "users":
            u = _long_user(len(users))
            users.append(u)
            k = pers(u, rng.choice([sp0, sp0, sp1]), how=rng.choice(["persistent", "persistent", "construct"]))
            if rng.random() < 0.15:
                add({"op": "transient", "u": u, "s": sp0, "q": _respell(rng, nq)})
            return k
        if style == "sessions":
            return add({"op": "transient", "u": busy, "s": _long_sp(2 + len(held) % 4), "q": _respell(rng, nq)})
        if style == "requesters":
            return pers(busy, new_sp(), how=rng.choice(["persistent", "persistent", "construct", "get"]))
        x = rng.random()
        if x < 0.3:
            return pers(busy, new_sp(), how=rng.choice(["persistent", "construct", "get"]))
        if x < 0.55:
            return add({"op": "transient", "u": busy, "s": rng.choice([sp0, sp1, _long_sp(2)]), "q": _respell(rng, nq)})
        if x < 0.7:
            return add({"op": "get", "u": busy, "f": rng.choice([E, U, "custom fmt,1=x"]), "s": rng.choice([sp0, new_sp()]), "q": _respell(rng, nq)})
        if x < 0.8:
            return add({"op": "construct", "u": busy, "lp": T, "s": rng.choice([sp0, sp1]), "pol": rng.choice([None, [T, None, None]]),
                        "q": rng.choice(["", nq])})
        if x < 0.9 and held:
            # a requester asks for the user's identifier at another requester (creates one)
            return add({"op": "mapping", "n": {"ref": held[0]}, "pol": [P, new_sp(), "true"]})
        lit[0] += 1
        return add({"op": "store", "u": busy, "n": {"lit": [nq or None, rng.choice([sp0, sp1]), rng.choice([T, E, U]), None,
                                                          "lit-%d %s" % (lit[0], rng.choice(["", ",=%", "é", "/x"]))]}})

    def ask_again(k, how=None):
        u, s, q = req[k]
        how = how or rng.choice(["persistent", "persistent", "construct"])
        if how == "construct":
            add({"op": "construct", "u": u, "lp": P, "s": s, "pol": None, "q": _respell(rng, q)}, holds=False)
        else:
            add({"op": "persistent", "u": u, "s": s, "q": _respell(rng, q)}, holds=False)

    def glance():
        """a look at the oldest identifiers while the account grows"""
        first_p = min(req) if req else None
        z = rng.random()
        if first_p is not None and z < 0.5:
            ask_again(first_p)
        elif z < 0.8:
            add({"op": "findlocal", "n": dict({"ref": rng.choice(held[:3])}, **rep_of())}, holds=False)
        elif first_p is not None:
            add({"op": "match", "u": req[first_p][0], "s": req[first_p][1], "q": req[first_p][2]}, holds=False)

    # ---- the beginning of the account
    first = pers(busy, sp0, how=rng.choice(["persistent", "construct"]))
    add({"op": "persistent", "u": other, "s": sp0, "q": _respell(rng, nq)}, holds=False)
    add({"op": "transient", "u": other, "s": sp1, "q": _respell(rng, nq)}, holds=False)
    if style != "users":
        add({"op": "transient", "u": busy, "s": sp0, "q": _respell(rng, nq)})
        if rng.random() < 0.6:
            pers(busy, sp1)
    # ---- growth
    closed = False
    while len(held) < target:
        grow()
        if rng.random() < 0.12:
            glance()
        if style == "mixed" and rng.random() < 0.08 and len(held) > 4:
            k = rng.choice(held[1:])
            if rng.random() < 0.7:
                j = add({"op": "manage", "n": dict({"ref": k}, **rep_of()), "new": ["some", rng.choice(SPID_POOL)], "enc": False,
                         "term": False}, holds=False)
                if k in req:
                    req[j] = req.pop(k)
                held[held.index(k)] = j
            elif k not in req:
                add({"op": "remove", "n": {"ref": k}}, holds=False)
                held.remove(k)
        if not closed and len(held) > target // 2:
            add({"op": "close"}, holds=False)
            closed = True
    # ---- the probes: oldest, a middle and the latest identifier
    late = pers(busy if style != "users" else _long_user(len(users) - 1), new_sp())
    if style == "users":
        held.pop()      # an identifier of an existing user
    plist = sorted(req)
    probe_p = plist[:3] + [plist[len(plist) // 2], late]
    probe_any = held[:3] + [held[len(held) // 2], held[-2]]
    for k in probe_p:
        ask_again(k)
        add({"op": "findlocal", "n": {"ref": len(ops) - 1}}, holds=False)
        add({"op": "findlocal", "n": dict({"ref": k}, **rep_of())}, holds=False)
    for k in probe_any:
        add({"op": "findlocal", "n": dict({"ref": k}, **rep_of())}, holds=False)
    u0, s0, q0 = req[first]
    add({"op": "find", "u": u0, "flt": []}, holds=False)
    add({"op": "find", "u": u0, "flt": [[1, s0], [2, P]]}, holds=False)
    add({"op": "find", "u": u0, "flt": [[2, P], [1, s0]]}, holds=False)
    add({"op": "find", "u": req[late][0], "flt": [[2, P], [1, req[late][1]]]}, holds=False)
    add({"op": "match", "u": u0, "s": s0, "q": q0}, holds=False)
    add({"op": "match", "u": req[late][0], "s": req[late][1], "q": req[late][2]}, holds=False)
    add({"op": "mapping", "n": {"ref": probe_any[1]}, "pol": [P, s0, "false"]}, holds=False)
    add({"op": "mapping", "n": {"ref": first}, "pol": [P, req[late][1], "false"]}, holds=False)
    j = add({"op": "manage", "n": dict({"ref": first}, **rep_of()), "new": ["some", "new,id=1"], "enc": False, "term": False}, holds=False)
    add({"op": "findlocal", "n": {"ref": j}}, holds=False)
    ask_again(first, how="persistent")
    j = add({"op": "manage", "n": {"ref": j}, "new": None, "enc": False, "term": True}, holds=False)
    add({"op": "find", "u": u0, "flt": [[1, s0], [2, P]]}, holds=False)
    if probe_any[1] not in req:
        add({"op": "remove", "n": {"ref": probe_any[1]}}, holds=False)
        add({"op": "findlocal", "n": {"ref": probe_any[1]}}, holds=False)
    add({"op": "findlocal", "n": {"ref": probe_any[2]}}, holds=False)
    # ---- the account is used further, the first identifiers are asked for once more
    for _ in range(3):
        grow()
    ask_again(first)
    add({"op": "findlocal", "n": {"ref": j}}, holds=False)
    ask_again(plist[1] if len(plist) > 1 else first)
    add({"op": "persistent", "u": other, "s": sp0, "q": _respell(rng, nq)}, holds=False)
    add({"op": "findlocal", "n": {"ref": 1}}, holds=False)
    add({"op": "findlocal", "n": {"ref": 2}}, holds=False)
    add({"op": "find", "u": other, "flt": []}, holds=False)
    return {"kind": "ident", "flavour": "long-" + style, "cfg": cfg, "users": users, "ops": ops, "idx": "L%s-%d" % (idx, target),
            "reopen": rng.random() < 0.5, "twin": rng.random() < 0.3}


LONG_BASE = "https://sp.example.org/" + "federation/" * 24 + "sp"        # 289 bytes: longer than a 255 / 256 limit


def gen_ident_long_names(variant):
    """(round 5) LONG names: requesters and users of ~290 bytes that differ only in their last (variant 0) or only in
    their first (variant 1) character -- a comparison, a key or a stored element cut off at a length limit makes two
    requesters / two users one.  Every (user, requester) pair is asked for, asked for again, looked up, listed,
    matched, mapped and managed."""
    if variant == 0:
        s1, s2, u1, u2 = LONG_BASE + "1", LONG_BASE + "2", "uid=" + "x" * 280 + ",ou=1", "uid=" + "x" * 280 + ",ou=2"
    else:
        s1, s2, u1, u2 = "1" + LONG_BASE, "2" + LONG_BASE, "1 uid=" + "x" * 280, "2 uid=" + "x" * 280
    nq = ENUM_NQ
    pairs = [(u1, s1), (u1, s2), (u2, s1), (u2, s2)]
    ops = [{"op": "persistent", "u": u, "s": s, "q": nq} for u, s in pairs]
    ops.append({"op": "transient", "u": u1, "s": s1, "q": nq})
    ops += [{"op": "persistent", "u": u, "s": s, "q": nq} for u, s in pairs]
    ops += [{"op": "findlocal", "n": {"ref": k}} for k in range(5)]
    ops += [{"op": "find", "u": u1, "flt": [[1, s1], [2, P]]}, {"op": "find", "u": u1, "flt": [[2, P], [1, s2]]},
            {"op": "find", "u": u2, "flt": []},
            {"op": "match", "u": u1, "s": s2, "q": nq}, {"op": "match", "u": u2, "s": s1, "q": nq},
            {"op": "mapping", "n": {"ref": 0}, "pol": [P, s2, "false"]},
            {"op": "mapping", "n": {"ref": 2}, "pol": [P, s2, "false"]},
            {"op": "manage", "n": {"ref": 1}, "new": ["some", LONG_BASE], "enc": False, "term": False},
            {"op": "persistent", "u": u1, "s": s2, "q": nq}, {"op": "persistent", "u": u1, "s": s1, "q": nq},
            {"op": "findlocal", "n": {"ref": 1}}, {"op": "findlocal", "n": {"ref": 0}},
            {"op": "manage", "n": {"ref": 0}, "new": None, "enc": False, "term": True},
            {"op": "remove", "n": {"ref": 3}}, {"op": "persistent", "u": u2, "s": s1, "q": nq},
            {"op": "persistent", "u": u2, "s": s2, "q": nq}, {"op": "findlocal", "n": {"ref": 3}}]
    return {"kind": "ident", "flavour": "long-names", "cfg": {"domain": "example.org", "nq": nq}, "users": [u1, u2],
            "ops": ops, "idx": "LN%d" % variant}


def gen_codec_long():
    """(round 5) identifiers whose fields are long (289 .. 1100 bytes; 150 two-byte characters = 900 bytes quoted) and
    differ only in the last or only in the first character, field by field"""
    big = "y" * 1100
    acc = "é" * 150
    items = []
    for a, b in ((LONG_BASE + "1", LONG_BASE + "2"), ("1" + LONG_BASE, "2" + LONG_BASE), (big + "a", big + "b"), (acc + "a", acc + "b")):
        for i in range(5):
            for v in (a, b):
                f = [None, "sp5", P, None, "t"]
                f[i] = v
                items.append(f)
    return {"kind": "codec", "items": items, "idx": "long"}


def gen_ident_longs(rng, thorough):
    plan = list(LONG_QUICK)
    if thorough:
        plan += [(LONG_STYLES[i % 4], rng.choice([33, 35, 50, 64, 65, 100, 101, 129, 130, 257, 260]) if i % 3 == 0
                  else rng.randint(30, 140)) for i in range(40)]
    return [gen_ident_long(rng, i, style, target, thorough) for i, (style, target) in enumerate(plan)] + \
        [gen_ident_long_names(0), gen_ident_long_names(1), gen_codec_long()]


CODEC_VALUES = [None, "", "a", "a,1=b", "0=a", "a=b", "a b", "%", "%2C", "a%20b", "/", "a/b", "é", "€,", "1", "4=",
                ",", "=", " ", "a,b", "a\tb", "~._-", "A+B", "x" * 40, "é=é", "%zz", "a%"]


def gen_codec(rng, idx):
    items = []
    for _ in range(rng.randint(6, 16)):
        if items and rng.random() < 0.4:
            base = list(rng.choice(items))
            i = rng.randrange(5)
            base[i] = rng.choice(CODEC_VALUES)
            items.append(base)
        else:
            items.append([rng.choice(CODEC_VALUES) if rng.random() < 0.7 else None for _ in range(5)])
    return {"kind": "codec", "items": items, "idx": idx}


IDX_POOL = ["0", "1", "2", "3", "4", "5", "9", "-1", "-5", "-6", "04", "0004", " 4", "4 ", "\t3", "3\n", "+4", "+-4", "- 4", "4_0",
            "0_1", "_4", "4_", "4__0", "", "x", "4x", "\x1c4", "40", "-0", "99999999999999999999", "é"]
VAL_POOL = ["a", "", "a%20b", "%41", "%zz", "%4", "%", "a%2Cb", "%C3%A9", "%e2%82%ac", "a/b", "x y", "%25", "%2541", "é"]


def gen_decode(rng, idx):
    parts = []
    for _ in range(rng.randint(0, 5)):
        x = rng.random()
        if x < 0.75:
            parts.append(rng.choice(IDX_POOL) + "=" + rng.choice(VAL_POOL))
        elif x < 0.85:
            parts.append(rng.choice(IDX_POOL) + "=" + rng.choice(VAL_POOL) + "=" + rng.choice(VAL_POOL))
        else:
            parts.append(rng.choice(["", "junk", " ", "4"]))
    return {"kind": "decode", "s": ",".join(parts), "idx": idx}


E_SPS = ["a", "a_", "a__b", "a__"]
E_USERS = ["c", "_c", "b__c", "__c"]


def gen_eptid_pairs():
    out = []
    calls = [(s, u) for s in E_SPS for u in E_USERS]
    for a in calls:
        for b in calls:
            out.append({"kind": "eptid", "secret": "s3cr3t", "calls": [["idp", a[0], [a[1]]], ["idp", b[0], [b[1]]]], "tag": "pair"})
    return out


E_ARGS = [["a"], ["ab"], ["abc"], ["a", "b"], ["a", "bc"], ["ab", "c"], ["a", "b", "c"]]


def gen_eptid_extras():
    """ALL ordered pairs of calls that split the characters "abc" differently over user id and extra arguments (one
    provider, requesters sp / s): the open finding class 4 (Eptid.make concatenates its arguments)."""
    out = []
    for a in E_ARGS:
        for b in E_ARGS:
            for sp2 in ("sp", "s"):
                out.append({"kind": "eptid", "secret": "p", "calls": [["idp", "sp", list(a)], ["idp", sp2, list(b)]], "tag": "extras"})
    return out


def gen_eptid_random(rng, idx):
    idps = ["https://idp.example.org/idp.xml"] + (["idp2", "idp!2"] if rng.random() < 0.3 else [])
    sps = rng.sample(E_SPS + ["https://sp.example.org/sp", "sp!x", "sä", ""], rng.randint(1, 4))
    users = rng.sample(E_USERS + ["alice", "", "u!v", "jörg", "a__b__c"], rng.randint(1, 4))
    extra = rng.choice([[], [], ["some other data"], ["x", "y"]])
    calls = [[rng.choice(idps), rng.choice(sps), [rng.choice(users)] + extra] for _ in range(rng.randint(1, 12))]
    return {"kind": "eptid", "secret": rng.choice(["secret", "", "sécret"]), "calls": calls, "tag": "random", "idx": idx}


def generate(ctx):
    rng = ctx.rng
    groups = [[gen_ident(rng, i, ctx.thorough) for i in range(2000 if ctx.thorough else 300)],
              gen_ident_enum(4 if ctx.thorough else 3),
              gen_ident_scenarios(),
              [gen_codec(rng, i) for i in range(400 if ctx.thorough else 60)],
              [gen_decode(rng, i) for i in range(2000 if ctx.thorough else 300)],
              gen_eptid_pairs(),
              gen_eptid_extras(),
              [gen_eptid_random(rng, i) for i in range(600 if ctx.thorough else 100)],
              # strengthening round 2 (appended: the seeded random stream of the groups above is unchanged)
              gen_ident_lifecycles(ctx.thorough),
              [gen_ident(rng, "r%d" % i, ctx.thorough, reps=True) for i in range(600 if ctx.thorough else 100)],
              # strengthening round 4 (appended likewise)
              gen_ident_lifecycles_obj(ctx.thorough),
              gen_ident_filters(ctx.thorough),
              [gen_ident(rng, "o%d" % i, ctx.thorough, reps=2) for i in range(400 if ctx.thorough else 80)],
              # strengthening round 5 (appended likewise): accounts / stores that have been in use for a long time
              gen_ident_longs(rng, ctx.thorough)]
    # interleave the kinds so that the expensive histories are spread evenly over the coqc shards
    keyed = []
    for g in groups:
        for i, c in enumerate(g):
            keyed.append(((i + 0.5) / len(g), len(keyed), c))
    keyed.sort(key=lambda x: (x[0], x[1]))
    return [c for _, _, c in keyed]


# ------------------------------------------------------------------------------------- observation
def fields(n):
    return [getattr(n, a) for a in ATTR]


def _exc_name(ex):
    from saml2 import SAMLError
    from saml2.ident import Unknown
    from saml2.s_utils import PolicyError

    if isinstance(ex, Unknown):
        return "UnknownErr"
    if isinstance(ex, PolicyError):
        return "PolicyErr"
    if isinstance(ex, KeyError):
        return "KeyErr"
    if isinstance(ex, ValueError):
        return "ValueErr"
    if type(ex) is SAMLError:
        return "SAMLErr"
    return "Other:" + type(ex).__name__


class _LocalPolicy:
    def __init__(self, f):
        self.f = f

    def get_nameid_format(self, sp_entity_id):
        return self.f


def _abs_out(r):
    from saml2.saml import NameID

    if r is None:
        return ["none"]
    if isinstance(r, NameID):
        return ["nid", fields(r)]
    if isinstance(r, list):
        return ["nids", [fields(x) for x in r]]
    if isinstance(r, str):
        return ["str", r]
    return ["other", repr(type(r))]


def _snapshot(d):
    for k, v in d.items():
        if not isinstance(k, str) or not isinstance(v, str):
            raise TypeError("non-str db entry %r: %r" % (k, v))
    return dict(d)


def _diff(a, b):
    """Change of the dict between two snapshots: [key, None] deleted, [key, value] new value,
    [key, [p, mid, sfx]] edit of the old value (common prefix / suffix in UTF-8 bytes)."""
    out = []
    for k in sorted(set(a) | set(b)):
        if k not in b:
            out.append([k, None])
        elif k not in a:
            out.append([k, b[k]])
        elif a[k] != b[k]:
            x, y = a[k].encode("utf-8"), b[k].encode("utf-8")
            p = 0
            while p < min(len(x), len(y)) and x[p] == y[p]:
                p += 1
            while p > 0 and (x[p - 1] & 0xC0) == 0x80:      # keep "mid" valid UTF-8: do not cut inside a character
                p -= 1
            while p > 0 and p < len(x) and (x[p] & 0xC0) == 0x80:
                p -= 1
            sfx = 0
            while sfx < min(len(x), len(y)) - p and x[len(x) - 1 - sfx] == y[len(y) - 1 - sfx]:
                sfx += 1
            while sfx > 0 and (y[len(y) - sfx] & 0xC0) == 0x80:
                sfx -= 1
            mid = y[p:len(y) - sfx]
            if len(mid) + 24 < len(y):
                out.append([k, [p, mid.decode("utf-8"), sfx]])
            else:
                out.append([k, b[k]])
    return out


def observe_ident(case):
    from saml2 import samlp
    from saml2.ident import IdentDB
    from saml2.saml import NameID

    if case.get("twin"):
        # (round 4) a second identity provider lives in the same process: the same abstract history is run on an
        # independent IdentDB (its own store), interleaved step by step.  Only the first instance is observed; state
        # that lives on the class / the module instead of in the store shows up as interference.
        twin = dict(case)
        twin.pop("twin")
        gen = _run_ident(twin, IdentDB, NameID, samlp)
        main = _run_ident(twin, IdentDB, NameID, samlp)
        res = None
        while True:
            try:
                next(main)
            except StopIteration as stop:
                res = stop.value
                break
            try:
                next(gen)
            except StopIteration:
                pass
        return res
    run = _run_ident(case, IdentDB, NameID, samlp)
    while True:
        try:
            next(run)
        except StopIteration as stop:
            return stop.value


def _run_ident(case, IdentDB, NameID, samlp):
    """generator: yields after every step, returns the observation"""
    idb = IdentDB({}, domain=case["cfg"]["domain"], name_qualifier=case["cfg"]["nq"])
    outs = []          # abstract outputs so far (for refs)
    objs = []          # the objects the real code answered (for refs by identity, rep "obj")
    owned = {}         # id(object) -> [object, fields the caller last saw]: every NameID the caller holds
    aliased = []
    steps = []

    def mk(f):
        return NameID(name_qualifier=f[0], sp_name_qualifier=f[1], format=f[2], sp_provided_id=f[3], text=f[4])

    def resolve_nid(spec, k, store=False):
        """-> (fields, object or None).  rep "obj" (round 4): the very object an earlier step answered is handed
        back (the caller keeps what it was given; 'set' / 'drop' then are the caller scribbling on its own object)"""
        f = None
        obj = None
        if "lit" in spec:
            f = list(spec["lit"])
        else:
            o = outs[spec["ref"]] if spec["ref"] < len(outs) else ["none"]
            if o[0] == "nid" and "i" not in spec:
                f = list(o[1])
                obj = objs[spec["ref"]]
            elif o[0] == "nids" and o[1]:
                f = list(o[1][spec.get("i", 0) % len(o[1])])
                obj = objs[spec["ref"]][spec.get("i", 0) % len(o[1])]
        if spec.get("rep") == "obj" and obj is not None:
            for i in spec.get("drop", []):
                setattr(obj, ATTR[i], None)
            for i, v in spec.get("set", {}).items():
                setattr(obj, ATTR[int(i)], v)
            f = fields(obj)
            if f[4] is None and store:
                obj.text = f[4] = "notext-%d" % k
            owned[id(obj)] = [obj, list(f)]
            return f, obj
        if f is None:
            f = [None, None, None, None, "nope-%d" % k]
        if spec.get("rep") == "stored":         # as decode() reads it from the store: empty fields are absent
            f = [x if x else None for x in f]
        elif spec.get("rep") == "empty":        # absent qualifiers / SPProvidedID written as empty strings
            f = ["" if (x is None and i in (0, 1, 3)) else x for i, x in enumerate(f)]
        for i in spec.get("drop", []):
            f[i] = None
        for i, v in spec.get("set", {}).items():
            f[int(i)] = v
        if f[4] is None and store:
            f[4] = "notext-%d" % k      # a None dict key is outside the model
        return f, None

    def resolve_user(u):
        if isinstance(u, dict):
            o = outs[u["ref_text"]]
            if o[0] == "nid" and o[1][4] is not None:
                return o[1][4]
            return "nobody"
        return u

    for k, o in enumerate(case["ops"]):
        before = _snapshot(idb.db)
        conc = dict(o)
        arg = None
        if "u" in o:
            conc["u"] = resolve_user(o["u"])
        if "n" in o:
            conc["n"], arg = resolve_nid(o["n"], k, store=(o["op"] == "store"))
            if arg is None:
                arg = mk(conc["n"])
        r = None
        try:
            kind = o["op"]
            if kind == "persistent":
                r = idb.persistent_nameid(conc["u"], conc["s"], conc["q"])
            elif kind == "transient":
                r = idb.transient_nameid(conc["u"], conc["s"], conc["q"])
            elif kind == "get":
                r = idb.get_nameid(conc["u"], conc["f"], conc["s"], conc["q"])
            elif kind == "construct":
                pol = None if o["pol"] is None else samlp.NameIDPolicy(format=o["pol"][0], sp_name_qualifier=o["pol"][1],
                                                                       allow_create=o["pol"][2])
                lp = None if o["lp"] is None else _LocalPolicy(o["lp"])
                r = idb.construct_nameid(conc["u"], lp, conc["s"], pol, conc["q"])
            elif kind == "find":
                r = idb.find_nameid(conc["u"], **{ATTR[i]: v for i, v in o["flt"]})
            elif kind == "match":
                r = idb.match_local_id(conc["u"], conc["s"], conc["q"])
            elif kind == "findlocal":
                r = idb.find_local_id(arg)
            elif kind == "mapping":
                pol = samlp.NameIDPolicy(format=o["pol"][0], sp_name_qualifier=o["pol"][1], allow_create=o["pol"][2])
                r = idb.handle_name_id_mapping_request(arg, pol)
            elif kind == "manage":
                new = None if o["new"] is None else samlp.NewID(text=o["new"][1])
                r = idb.handle_manage_name_id_request(arg, new_id=new,
                                                      new_encrypted_id=samlp.NewEncryptedID() if o["enc"] else "",
                                                      terminate=samlp.Terminate() if o["term"] else "")
            elif kind == "remove":
                r = idb.remove_remote(arg)
            elif kind == "removelocal":
                r = idb.remove_local(conc["u"])
            elif kind == "store":
                r = idb.store(conc["u"], arg)
            elif kind == "close":
                r = idb.close()
                if case.get("reopen"):          # the provider is restarted on the same store: a new IdentDB object
                    idb = IdentDB(idb.db, domain=case["cfg"]["domain"], name_qualifier=case["cfg"]["nq"])
            else:
                raise AssertionError(kind)
            out = _abs_out(r)
        except Exception as ex:  # the exception class is part of the observation
            out = ["exc", _exc_name(ex)]
            r = None
        try:
            after = _snapshot(idb.db)
        except TypeError:
            # a non-str key / value got into the store (only a changed implementation does that): outside the model's
            # state space.  The step is recorded as an unmodelled outcome (the model disagrees) and the history ends.
            conc["fresh"] = ""
            steps.append({"op": conc, "out": ["other", "non-str db entry"], "diff": []})
            return {"steps": steps, "final": sorted(before.items()), "aliased": aliased}
        # (round 4) the answer is the caller's own: no NameID of it is an object the caller already holds (an earlier
        # answer, or an argument it built) -- except that a manage-name-id request answers its argument --, and no
        # object the caller holds has changed under its hands -- except the argument of a manage-name-id request
        bad = False
        answered = [r] if isinstance(r, NameID) else ([x for x in r if isinstance(x, NameID)] if isinstance(r, list) else [])
        for x in answered:
            if id(x) in owned and not (kind == "manage" and x is arg):
                bad = True
        if len({id(x) for x in answered}) != len(answered):
            bad = True
        if arg is not None and kind == "manage":
            owned[id(arg)] = [arg, fields(arg)]
        elif arg is not None and id(arg) not in owned:
            owned[id(arg)] = [arg, fields(arg)]
        for ob, seen_f in owned.values():
            if fields(ob) != seen_f:
                bad = True
                seen_f[:] = fields(ob)
        for x in answered:
            owned[id(x)] = [x, fields(x)]
        if bad:
            aliased.append(k)
        # oracle value: the identifier the real code generated = text of the returned NameID
        # (minus the "@domain" the e-mail format appends); unused by the model when nothing is issued
        fresh = ""
        if out[0] == "nid" and out[1][4] is not None and kind in ("persistent", "transient", "get", "construct", "mapping"):
            fresh = out[1][4]
            dom = "@" + case["cfg"]["domain"]
            if out[1][2] == E and case["cfg"]["domain"] and fresh.endswith(dom):
                fresh = fresh[: -len(dom)]
        conc["fresh"] = fresh
        outs.append(out)
        objs.append(r)
        steps.append({"op": conc, "out": out, "diff": _diff(before, after)})
        yield k
    return {"steps": steps, "final": sorted(idb.db.items()), "aliased": aliased}


def _scribble(n):
    """the caller changes the NameID it was given (its own object)"""
    for a in ATTR:
        setattr(n, a, "scribbled by the caller")


def _decode_twice(decode, c):
    """(round 4) decode is asked twice for the same text; the caller overwrites every field of the first answer in
    between (it owns it).  Lossless means the second answer is still the identifier: the answer recorded is the second
    one, or, when the two calls differ in kind, "differs"."""
    try:
        first = decode(c)
        d1 = fields(first)
        _scribble(first)
    except ValueError:
        first, d1 = None, None
    try:
        second = decode(c)
        d2 = fields(second)
    except ValueError:
        d2 = None
    if (d1 is None) != (d2 is None):
        return ["decode differs between two calls"] * 5
    return d2


def observe_codec(case):
    from saml2.ident import code, decode
    from saml2.saml import NameID

    res = []
    for f in case["items"]:
        n = NameID(name_qualifier=f[0], sp_name_qualifier=f[1], format=f[2], sp_provided_id=f[3], text=f[4])
        c = code(n)
        if fields(n) != list(f):        # code() must not change the caller's object
            c = "code() changed its argument"
        res.append([c, _decode_twice(decode, c)])
    return {"items": res}


def observe_decode(case):
    from saml2.ident import decode

    try:
        r = _decode_twice(decode, case["s"])
        return {"r": r, "exc": None if r is not None else "ValueError"}
    except Exception as ex:
        return {"r": None, "exc": type(ex).__name__}


def observe_eptid(case):
    from saml2.eptid import Eptid

    e = Eptid(case["secret"])
    vals, fresh, tab = [], [], {}
    for idp, sp, args in case["calls"]:
        vals.append(e.get(idp, sp, *args))
        fresh.append(Eptid(case["secret"]).get(idp, sp, *args))
        inp = "".join(args) + sp + case["secret"]
        tab[inp] = hashlib.md5(inp.encode("utf-8")).hexdigest()
    return {"vals": vals, "fresh": fresh, "md5": sorted(tab.items())}


def observe(case):
    return {"ident": observe_ident, "codec": observe_codec, "decode": observe_decode, "eptid": observe_eptid}[case["kind"]](case)


# ------------------------------------------------------------------------------------- Coq terms
def _global_strings():
    """Strings that occur in most cases (pool values, formats and their percent-quoted forms): defined once per case
    file (in IMPORTS) instead of once per case — parsing string data is what the case files cost."""
    from urllib.parse import quote

    vals = []
    for v in (USER_POOL + SP_POOL + NQ_POOL + SPID_POOL + [P, T, E, U, "custom fmt,1=x", "example.org", "ex ample.org",
                                                         "new id", ENUM_SP1, ENUM_SP2, ENUM_NQ] + ENUM_USERS):
        for w in (v, quote(v)):
            if w not in vals and len(w.encode("utf-8")) > 6:
                vals.append(w)
    return vals


GLOBAL = {v: "g_%d" % k for k, v in enumerate(_global_strings())}


class Pool:
    """String emitter of one case.  Coq's string notation is slow (~60 us per character), so longer
    strings are written as lists of 63-bit integers (7 bytes each, decoded by C18.Corr.u inside
    vm_compute) and strings used more than once in a case are let-bound once."""

    def __init__(self):
        self.idx = {}
        self.count = []
        self.vals = []

    @staticmethod
    def pack(b):
        out = []
        for i in range(0, len(b), 7):
            ch = b[i:i + 7]
            v = 0
            for c in reversed(ch):
                v = v * 256 + c
            out.append(str(v * 8 + len(ch)))
        return "(u [" + ";".join(out) + "]%uint63)"

    TOK = re.compile(r"((?:^|[ ,])\d=|[ ,])")

    def s(self, v):
        b = v.encode("utf-8")
        if len(b) <= 6 and all(0x20 <= c <= 0x7E for c in b):
            return '"' + v.replace('"', '""') + '"'
        if v in GLOBAL:
            return GLOBAL[v]
        if len(b) > 40:
            # a long value (forward entries, codes) is written as the concatenation of its pieces
            # between separators, so that the pieces (identifiers, quoted formats, ...) are shared
            toks = [t for t in self.TOK.split(v) if t != ""]
            if len(toks) > 1:
                return "(cat [" + "; ".join(self.s(t) for t in toks) + "])"
        k = self.idx.get(v)
        if k is None:
            k = self.idx[v] = len(self.vals)
            self.vals.append(b)
            self.count.append(0)
        self.count[k] += 1
        return "\x00%d\x00" % k

    def opt(self, v):
        return "None" if v is None else "(Some %s)" % self.s(v)

    def lst(self, l):
        return "[" + "; ".join(self.s(x) for x in l) + "]"

    def finish(self, body):
        lets = []
        for k, b in enumerate(self.vals):
            tok = "\x00%d\x00" % k
            if self.count[k] > 1:
                lets.append("let s%d := %s in" % (k, self.pack(b)))
                body = body.replace(tok, "s%d" % k)
            else:
                body = body.replace(tok, self.pack(b))
        return "(" + "\n ".join(lets + [body]) + ")"


def cq_nid(P_, f):
    return "(Ni %s %s %s %s %s)" % tuple(P_.opt(x) for x in f)


def cq_pol(P_, p):
    return "(Po %s %s %s)" % tuple(P_.opt(x) for x in p)


def cq_op(P_, o):
    k = o["op"]
    s, opt = P_.s, P_.opt
    if k == "persistent":
        return "Persistent %s %s %s %s" % (s(o["u"]), opt(o["s"]), opt(o["q"]), s(o["fresh"]))
    if k == "transient":
        return "Transient %s %s %s %s" % (s(o["u"]), opt(o["s"]), opt(o["q"]), s(o["fresh"]))
    if k == "get":
        return "GetNameid %s %s %s %s %s" % (s(o["u"]), s(o["f"]), opt(o["s"]), opt(o["q"]), s(o["fresh"]))
    if k == "construct":
        return "Construct %s %s %s %s %s %s" % (s(o["u"]), opt(o["lp"]), opt(o["s"]),
                                                "None" if o["pol"] is None else "(Some %s)" % cq_pol(P_, o["pol"]),
                                                opt(o["q"]), s(o["fresh"]))
    if k == "find":
        return "FindNameid %s [%s]" % (s(o["u"]), "; ".join("(%d%%nat, %s)" % (i, opt(v)) for i, v in o["flt"]))
    if k == "match":
        return "MatchLocal %s %s %s" % (s(o["u"]), opt(o["s"]), opt(o["q"]))
    if k == "findlocal":
        return "FindLocal %s" % cq_nid(P_, o["n"])
    if k == "mapping":
        return "Mapping %s %s %s" % (cq_nid(P_, o["n"]), cq_pol(P_, o["pol"]), s(o["fresh"]))
    if k == "manage":
        new = "None" if o["new"] is None else "(Some %s)" % opt(o["new"][1])
        return "Manage %s %s %s %s" % (cq_nid(P_, o["n"]), new, cq(bool(o["enc"])), cq(bool(o["term"])))
    if k == "remove":
        return "RemoveRemote %s" % cq_nid(P_, o["n"])
    if k == "removelocal":
        return "RemoveLocal %s" % s(o["u"])
    if k == "store":
        return "Store %s %s" % (s(o["u"]), cq_nid(P_, o["n"]))
    return "Close"


EXC = {"KeyErr", "ValueErr", "SAMLErr", "UnknownErr", "PolicyErr"}


def cq_out(P_, x):
    if x[0] == "none":
        return "ONone"
    if x[0] == "nid":
        return "(ONid %s)" % cq_nid(P_, x[1])
    if x[0] == "nids":
        return "(ONids [%s])" % "; ".join(cq_nid(P_, f) for f in x[1])
    if x[0] == "str":
        return "(OStr %s)" % P_.s(x[1])
    if x[0] == "exc":
        return "(OExc %s)" % (x[1] if x[1] in EXC else "Unmodelled")
    return "(OExc Unmodelled)"


def cq_dval(P_, b):
    if b is None:
        return "DDel"
    if isinstance(b, list):
        return "(DEdit %d%%N %s %d%%N)" % (b[0], P_.s(b[1]), b[2])
    return "(DSet %s)" % P_.s(b)


def coq_case(case, obs):
    k = case["kind"]
    P_ = Pool()
    if k == "ident":
        steps = []
        for st in obs["steps"]:
            df = "; ".join("(%s, %s)" % (P_.s(a), cq_dval(P_, b)) for a, b in st["diff"])
            steps.append("S_ (%s) %s [%s]" % (cq_op(P_, st["op"]), cq_out(P_, st["out"]), df))
        final = "; ".join("(%s, %s)" % (P_.s(a), P_.s(b)) for a, b in obs["final"])
        return P_.finish("CIdent (Cf %s %s) %s [%s] [%s] [%s]" % (P_.s(case["cfg"]["domain"]), P_.s(case["cfg"]["nq"]),
                                                                  P_.lst(case["users"]), ";\n  ".join(steps), final,
                                                                  "; ".join("%d%%nat" % k for k in obs.get("aliased", []))))
    if k == "codec":
        its = []
        for f, (c, d) in zip(case["items"], obs["items"]):
            its.append("(%s, %s, %s)" % (cq_nid(P_, f), P_.s(c), "None" if d is None else "(Some %s)" % cq_nid(P_, d)))
        return P_.finish("CCodec [%s]" % "; ".join(its))
    if k == "decode":
        return P_.finish("CDecode %s %s" % (P_.s(case["s"]), "None" if obs["r"] is None else "(Some %s)" % cq_nid(P_, obs["r"])))
    calls = []
    for (idp, sp, args), v, f in zip(case["calls"], obs["vals"], obs["fresh"]):
        calls.append("E_ %s %s %s %s %s" % (P_.s(idp), P_.s(sp), P_.lst(args), P_.s(v), P_.s(f)))
    tab = "; ".join("(%s, %s)" % (P_.s(a), P_.s(b)) for a, b in obs["md5"])
    return P_.finish("CEptid %s [%s] [%s]" % (P_.s(case["secret"]), tab, "; ".join(calls)))


# ------------------------------------------------------------------------------------- evidence
def nontrivial(case, obs):
    k = case["kind"]
    if k == "ident":
        if len(case["ops"]) < 2:
            return None
        sig = [(s["op"]["op"], s["out"][0] if s["out"][0] != "exc" else s["out"][1], len(s["diff"])) for s in obs["steps"]]
        return ["ident", hashlib.sha1(repr(sig).encode()).hexdigest()[:16]]
    if k == "codec":
        return ["codec", hashlib.sha1(repr(case["items"]).encode()).hexdigest()[:16]]
    if k == "decode":
        return ["decode", case["s"]] if case["s"] else None
    return ["eptid", hashlib.sha1(repr([case["secret"], case["calls"]]).encode()).hexdigest()[:16]]


def histogram(cases, observed):
    h = {"kinds": {}, "ident_flavours": {}, "ident_ops": {}, "ident_outcomes": {}, "ident_lengths": {"<=10": 0, "11-30": 0, "31-60": 0, "61-120": 0, ">120": 0},
         "ident_max_identifiers_of_one_user": 0, "ident_histories_with_more_than_32_identifiers_for_one_user": 0,
         "ident_args_by_identity": 0, "ident_twin_histories": 0, "ident_find_filter_sizes": {}, "ident_aliased_steps": 0,
         "ident_max_db": 0, "decode_exceptions": 0, "eptid_colliding_histories": 0, "codec_items": 0}
    for c, o in zip(cases, observed):
        h["kinds"][c["kind"]] = h["kinds"].get(c["kind"], 0) + 1
        if c["kind"] == "ident":
            h["ident_flavours"][c["flavour"]] = h["ident_flavours"].get(c["flavour"], 0) + 1
            n = len(c["ops"])
            h["ident_lengths"]["<=10" if n <= 10 else ("11-30" if n <= 30 else ("31-60" if n <= 60 else ("61-120" if n <= 120 else ">120")))] += 1
            h["ident_max_db"] = max(h["ident_max_db"], len(o["final"]))
            us = set(c["users"])
            per_user = max([len([x for x in v.split(" ") if x]) for k_, v in o["final"] if k_ in us] + [0])
            h["ident_max_identifiers_of_one_user"] = max(h["ident_max_identifiers_of_one_user"], per_user)
            h["ident_histories_with_more_than_32_identifiers_for_one_user"] += 1 if per_user > 32 else 0
            h["ident_twin_histories"] += 1 if c.get("twin") else 0
            h["ident_aliased_steps"] += len(o.get("aliased", []))
            for op in c["ops"]:
                if isinstance(op.get("n"), dict) and op["n"].get("rep") == "obj":
                    h["ident_args_by_identity"] += 1
                if op["op"] == "find":
                    k = str(len(op["flt"]))
                    h["ident_find_filter_sizes"][k] = h["ident_find_filter_sizes"].get(k, 0) + 1
            for s in o["steps"]:
                k = s["op"]["op"]
                h["ident_ops"][k] = h["ident_ops"].get(k, 0) + 1
                x = s["out"][0] if s["out"][0] != "exc" else s["out"][1]
                key = "%s:%s" % (k, x)
                h["ident_outcomes"][key] = h["ident_outcomes"].get(key, 0) + 1
        elif c["kind"] == "decode":
            h["decode_exceptions"] += 1 if o["exc"] else 0
        elif c["kind"] == "codec":
            h["codec_items"] += len(c["items"])
        else:
            keys = {}
            for idp, sp, args in c["calls"]:      # the cache key before 331c8f06
                keys.setdefault(sp + "__" + args[0], set()).add((idp, sp, tuple(args)))
            if any(len(v) > 1 for v in keys.values()):
                h["eptid_colliding_histories"] += 1
    return h


def explain_term(coq_case_term):
    return "C18.Corr.explain (%s)" % coq_case_term


def _failing(cands):
    """indexes of the candidate cases whose OBSERVED behaviour fails the spec (evaluated by Coq in one batch)"""
    if not cands:
        return set()
    obs = [observe(c) for c in cands]
    terms = [coq_case(c, o) for c, o in zip(cands, obs)]
    # long histories cost seconds each in Coq: smaller shards (evaluated in parallel) for them
    shard = 40 if sum(len(c.get("ops", [])) for c in cands) <= 1200 else 6
    res, errors = common.eval_cases(PID, IMPORTS, CASE_TYPE, RUNNER, terms, shard=shard, tag="shrink")
    return {i for i, c in res if c == 2 or c in (11, 12, 13)}


def _refs(o):
    out = []
    if isinstance(o.get("n"), dict) and "ref" in o["n"]:
        out.append(o["n"]["ref"])
    if isinstance(o.get("u"), dict):
        out.append(o["u"]["ref_text"])
    return out


def _without(ops, drop):
    """the history without the steps in drop (none of them referenced by a kept step); references renumbered"""
    new_index, kept = {}, []
    for k, o in enumerate(ops):
        if k not in drop:
            new_index[k] = len(kept)
            kept.append(o)
    out = []
    for o in kept:
        o = dict(o)
        if isinstance(o.get("n"), dict) and "ref" in o["n"]:
            o["n"] = dict(o["n"], ref=new_index[o["n"]["ref"]])
        if isinstance(o.get("u"), dict):
            o["u"] = {"ref_text": new_index[o["u"]["ref_text"]]}
        out.append(o)
    return out


def shrink(case, ctx):
    """(round 4) Make a failing case small before it is written as the replay input; every candidate is run against
    the real code and judged by Coq (one coqc call per round), so the result still fails.
    ident: the shortest failing prefix (every part of the spec is a statement about events / ordered pairs of events
    of a wf history, so failing is monotone in the prefix), then steps that no later step refers to are removed
    while the history still fails.  codec: one item, else two items."""
    try:
        if case["kind"] == "codec":
            items = case["items"]
            singles = [dict(case, items=[it]) for it in items]
            bad = _failing(singles)
            if bad:
                return singles[min(bad)]
            pairs = [dict(case, items=[a, b]) for i, a in enumerate(items) for b in items[i + 1:]]
            bad = _failing(pairs)
            return pairs[min(bad)] if bad else case
        if case["kind"] != "ident":
            return case
        ops = case["ops"]
        if len(ops) <= 64:
            prefixes = [dict(case, ops=ops[:n]) for n in range(1, len(ops))]
            bad = _failing(prefixes)
            if bad:
                case = prefixes[min(bad)]
        else:
            # (round 5) a long history: every 8th prefix first, then the seven lengths below the first failing one
            marks = list(range(8, len(ops), 8))
            bad = _failing([dict(case, ops=ops[:n]) for n in marks])
            hi = marks[min(bad)] if bad else len(ops)
            fine = list(range(max(1, hi - 7), hi))
            bad = _failing([dict(case, ops=ops[:n]) for n in fine])
            if bad:
                case = dict(case, ops=ops[:fine[min(bad)]])
            elif hi < len(ops):
                case = dict(case, ops=ops[:hi])
        for _ in range(8):
            ops = case["ops"]
            used = {r for o in ops for r in _refs(o)}
            free = [k for k in range(len(ops) - 1) if k not in used]
            singles = [dict(case, ops=_without(ops, {k})) for k in free]
            bad = _failing(singles)
            if not bad:
                break
            both = dict(case, ops=_without(ops, {free[i] for i in bad}))
            case = both if len(bad) > 1 and _failing([both]) else singles[min(bad)]
        return case
    except Exception:       # shrinking is a convenience: never lose the failing case over it
        return case


IMPORTS += "\nImport ListNotations.\n" + "\n".join("Definition %s := %s." % (name, Pool.pack(v.encode("utf-8")))
                                                  for v, name in GLOBAL.items())
