"""C17 — attribute names map to the wire and back without loss."""
import ast
import functools
import locale
import os
import re
from importlib import import_module
from xml.sax.saxutils import escape, quoteattr

from harness import common, env
from harness.common import Raw

# Coq reads a string literal byte by byte (UTF-8 text, control characters included; only '"' is doubled), which gives
# the same term as common.cq's `sb [bytes]` form but parses several times faster (the case files are mostly strings;
# checked for every generated name class incl. \t \n \r \x0b \x1f \x7f and 2-, 3-, 4-byte characters).  The driver
# writes the case files in the locale's encoding: only when that is UTF-8 are literals used.
_UTF8_FILES = (locale.getpreferredencoding(False) or "").lower().replace("-", "").replace("_", "") == "utf8"


def cq(v):
    if isinstance(v, str) and _UTF8_FILES and "\x00" not in v:
        try:
            v.encode("utf-8")
        except UnicodeEncodeError:
            return common.cq(v)
        return '"' + v.replace('"', '""') + '"'
    if isinstance(v, (tuple, list)):
        return ("(%s)" if isinstance(v, tuple) else "[%s]") % ("; " if isinstance(v, list) else ", ").join(cq(x) for x in v)
    return common.cq(v)


def cq_opt(v):
    return "None" if v is None else "(Some %s)" % cq(v)

PID = "C17"
PARALLEL = 8
SHARD = 340       # cases per coqc file: the quick tier (10.7 k cases) makes two full rounds of the driver's 16 workers
IMPORTS = "From Verif Require Import C17.Model C17.Spec C17.Tables C17.Corr."
CASE_TYPE = "C17.Corr.case"
RUNNER = "C17.Corr.run"
# 1: open; 2: repaired by 16472e5d, 3: repaired by 09ff19a1 (both still recognised by Corr.cls so that a regression is
# named: the findings being closed, the driver reports it as VIOLATION with the failing input)
# 4: repaired by 33a3a3a1 (the integer 0 / float 0.0 as a value: do_ava raised OtherError); recognised like 2 and 3
FINDING_CLASSES = {1: "C17-F1", 2: "C17-F2", 3: "C17-F3", 4: "C17-F4"}
RULE = ("EVERY (bundled map, local attribute) pair of the live tables: one send case, one send->receive case through "
        "the five bundled converters and one through that map alone; EVERY (bundled map, wire name) pair: receive with "
        "allow_unknown_attributes off and on (names in random case / ASCII-whitespace padding); value lists drawn from "
        "{[], [''], whitespace-only, padded, unicode, several values}; mixed statements (known + unknown name + unknown "
        "format + unspecified/absent NameFormat + NameFormat='' + no Name + NameID-wrapped values + several attributes "
        "collapsing to one local name) against bundled / bundled-without-ADFS / single / empty converter sets; random "
        "custom maps (to-only, fro-only, both, asymmetric, several wire names per local name, case-colliding keys, "
        "empty wire name, eduPersonTargetedID OID, padded wire names, sets sharing a name format) with load, send, "
        "receive and round-trip cases over all their names; the eduPersonTargetedID value space ([], [''], blank, padded, "
        "several, unicode) x {bundled, 'to'-only, 'fro'-only, both tables, local name in another case, local name "
        "'eptid'} x {send->receive via XML / objects, receive of NameID-wrapped values with and without qualifiers}.  Received attributes are saml.Attribute objects parsed by "
        "saml.attribute_from_string from XML rendered by this harness (or, for 'obj' cases, built directly); round trips "
        "serialise with the real to_string.  PYTHON VALUES: the complete table of value shapes (str / True / False / "
        "int <0, 0, >0, huge / float 0.0, -0.0, 1.5, 1e+20, -2.5e-07 / None items, in lists of length 0-3 in every order of a falsy and a truthy item, and every "
        "one of them ALONE instead of in a list) x {bundled uri / basic / unspecified (ADFS) / shibboleth, own converter "
        "only, custom both / to-only / fro-only map, key not in the map, name format without converter} x send, and x round "
        "trip (via XML / objects alternating) for six of these twelve targets (all twelve in the thorough tier); one typed round trip or send for EVERY (bundled map, local attribute) pair and "
        "typed mixed dictionaries over random custom maps; a send observes the xsi:type / xsi:nil of every "
        "AttributeValue besides its text; exceptions are observed by type name; received values are also rendered typed "
        "(xs:boolean / xs:integer when the text is a canonical lexical form).  NAMES OUTSIDE ASCII: custom maps (both tables / "
        "'to'-only / 'fro'-only) whose local names, wire names or both come from every class of str.lower() behaviour "
        "(lower-case already but changed by casefold() / upper() / NFKC: sharp s, final sigma, long s, ligature, micro sign; "
        "upper- and title-case characters of 2, 3 and 4 UTF-8 bytes; lower-case forms of another length: I with dot above, "
        "KELVIN / ANGSTROM / OHM SIGN; no case: CJK) and TWIN maps defining two attributes whose names only a coarser "
        "normalisation identifies (Masse / Ma-sharp-s-e, sigma / final sigma, file / fi-ligature-le, fullwidth / ASCII, "
        "Cherokee upper / lower, NFC / NFD) x load, send and send->receive under the name as written, its lower(), and "
        "spellings drawn from the INVERSE of the str.lower() table (every character replaced by an upper- / title-case "
        "partner), sends under near-miss spellings (casefold(), upper(), NFKC, NFD, ASCII-only: not this attribute), "
        "receives of all wire names in such spellings plus near-miss wire names and an attribute with only a friendly "
        "name, allow_unknown_attributes off and on; the bundled converters with such names as unknown attributes.  "
        "non-trivial = distinct (kind, converter-set class, name format class, "
        "attribute class, value-list class, allow, transport)")
TRUSTED = ["abstraction of saml.Attribute / result dictionaries in harness/c17.py (_abs_attr, _abs_ava)",
           "XML rendering of Attribute elements in harness/c17.py (render_attr)",
           "translator harness/c17.py regenerate_tables (live converters -> coq/gen/C17Tables.v; str.lower() of the running "
           "interpreter over all code points -> coq/gen/C17Case.v, whose entries Case.table_ok_true re-checks in the kernel)",
           "Coq string literals holding UTF-8 text and control characters in the case files (harness/c17.py cq): read byte by "
           "byte, same terms as common.cq's `sb [bytes]` form (compared once for the whole str.lower() table and for every "
           "control character the generator uses)",
           "source-to-Gallina translator v2 harness/py2coq2.py + coq/theories/Base/Py2.v: re-translated from the source text on "
           "every run into coq/gen/C17Src2.v and proved equal to the model in coq/theories/C17/Source2.v (c17_source2_*): "
           "saml2.attribute_converter.AttributeConverter.adjust, AttributeConverter.from_dict, AttributeConverter.to_, "
           "from_local, AttributeConverter.lcd_ava_from and saml2.s_utils.do_ava; external calls are hypotheses of the theorems "
           "(self.adjust() as called from from_dict; do_ava, to_eptid_value and factory(saml.Attribute, ...) as called from to_; "
           "aconv.to_ as called from from_local; saml.AttributeValue(), set_text, set_type and the recursive call in do_ava); "
           "not modelled by the translator: aliasing (mutation of an object by a method called on it: the AttributeValue "
           "objects of do_ava stay blank), default values of parameters (typ=''), the falsiness of 0.0 (a float is an "
           "object of class 'float' there), AttributeError of a method called on None (Attribute without Name in "
           "lcd_ava_from), non-ASCII lower() / strip() at a non-ASCII end; NOT translatable and therefore tied by the "
           "correspondence check only: list_to_local (ava[key].extend(val)), ava_from (nested tuple target of a for), "
           "to_eptid_value (nested def, type(x) is not list)"]
ASSUMPTIONS = [
    "attribute names and map keys are any text without a capital sigma (U+03A3): the model's lower() (C17/Case.v) "
    "lower-cases ASCII letters itself and every other character by the table coq/gen/C17Case.v, which regenerate_tables "
    "reads from str.lower() of the running interpreter on every run, complete over all code points; the translator "
    "checks for every code point that its lower-case form does not depend on its neighbours - capital sigma is the "
    "one exception (final sigma rule), the table holds plain sigma for it and the generator raises if a name contains it",
    "leading/trailing whitespace of names and values is ASCII whitespace (model's strip() is the ASCII part of "
    "str.strip(); the generator raises if a name of the non-ASCII block contains whitespace outside ASCII)",
    "local attribute values are lists of str / bool / int / float / None items or ONE str / bool / int / float object; a "
    "float enters the Coq case as the numeral Python's str() prints for it plus the flag x == 0 (computed by the harness, "
    "not by the code under test); not generated and not modelled (Model: UNMODELLED): a single None (the Attribute "
    "object then has attribute_value = None), nan / inf, bytes, tuple, set, nested lists, and for the "
    "eduPersonTargetedID OID anything but str items (no dict items)",
    "an AttributeValue holds either text or exactly one saml:NameID element; other structured values are out of scope",
    "list_to_local with an EMPTY converter list and an Attribute with NameFormat='' raises AttributeError "
    "('list' object has no attribute 'ava_from'); that input is not generated and not modelled",
    "dictionary order is not compared (results are compared as key -> value-list maps, wire attributes as multisets)",
]

NF_UNSPEC = "urn:oasis:names:tc:SAML:2.0:attrname-format:unspecified"
NF_URI = "urn:oasis:names:tc:SAML:2.0:attrname-format:uri"
NF_BASIC = "urn:oasis:names:tc:SAML:2.0:attrname-format:basic"
NF_SHIB = "urn:mace:shibboleth:1.0:attributeNamespace:uri"
EPTID_OID = "urn:oid:1.3.6.1.4.1.5923.1.1.1.10"
PERSISTENT = "urn:oasis:names:tc:SAML:2.0:nameid-format:persistent"
GEN_FILE = os.path.join(common.COQDIR, "gen", "C17Tables.v")
CASE_FILE = os.path.join(common.COQDIR, "gen", "C17Case.v")
NS = ('xmlns:saml="urn:oasis:names:tc:SAML:2.0:assertion" xmlns:xs="http://www.w3.org/2001/XMLSchema" '
      'xmlns:xsi="http://www.w3.org/2001/XMLSchema-instance"')
NAMEID_XML = {"format": "Format", "name_qualifier": "NameQualifier", "sp_name_qualifier": "SPNameQualifier",
              "sp_provided_id": "SPProvidedID"}


# ------------------------------------------------------------------------------ translator
class TableError(Exception):
    pass


def _ascii_lower(s):
    return "".join(chr(ord(c) + 32) if "A" <= c <= "Z" else c for c in s)


def _check_str(s, what):
    if not isinstance(s, str):
        raise TableError("%s: not a str: %r" % (what, s))
    return s


def _items(d, what):
    if not isinstance(d, dict):
        raise TableError("%s: not a dict" % what)
    return [(_check_str(k, what), _check_str(v, what)) for k, v in d.items()]


def _cq_items(items):
    return "[" + ";\n      ".join("(%s, %s)" % (cq(k), cq(v)) for k, v in items) + "]"


def live_tables():
    """(live converters, source dictionaries) of the bundled maps, in ac_factory() order."""
    env.check_repo_import()
    from saml2 import attributemaps
    from saml2.attribute_converter import _find_maps_in_module, ac_factory

    acs = ac_factory()
    live = []
    for a in acs:
        if a._to is None or a._fro is None:
            raise TableError("converter %r without _to/_fro" % a.name_format)
        live.append((_check_str(a.name_format, "name_format"), _items(a._to, "_to"), _items(a._fro, "_fro")))
    src = []
    for typ in attributemaps.__all__:
        mod = import_module(".%s" % typ, "saml2.attributemaps")
        for item in _find_maps_in_module(mod):
            extra = set(item) - {"identifier", "to", "fro"}
            if extra:
                raise TableError("map %s: unexpected keys %r" % (typ, sorted(extra)))
            src.append((_check_str(item["identifier"], "identifier"),
                        _items(item["to"], "to") if "to" in item else None,
                        _items(item["fro"], "fro") if "fro" in item else None))
    if len(src) != len(live) or [s[0] for s in src] != [l[0] for l in live]:
        raise TableError("source maps and converters do not line up")
    return live, src


def tables_text():
    live, src = live_tables()
    out = ["(* GENERATED by harness/c17.py regenerate_tables from the live saml2.attribute_converter.ac_factory()",
           "   and saml2/attributemaps/*.py of the working tree.  Do not edit. *)",
           "From Coq Require Import String List NArith.", "From Verif Require Import Base.Str.", "Import ListNotations.",
           "Open Scope string_scope.", "",
           "(* (name_format, (_to items, _fro items)) per converter, in ac_factory() order, dict order *)",
           "Definition live : list (string * (list (string * string) * list (string * string))) := ["]
    out.append(";\n".join("  (%s,\n     (%s,\n      %s))" % (cq(nf), _cq_items(to), _cq_items(fro)) for nf, to, fro in live))
    out += ["].", "",
            '(* (identifier, ("to" items, "fro" items)) per MAP dictionary as written in the map modules *)',
            "Definition src : list (string * (option (list (string * string)) * option (list (string * string)))) := ["]
    out.append(";\n".join("  (%s,\n     (%s,\n      %s))" % (
        cq(i), "None" if to is None else "Some " + _cq_items(to), "None" if fro is None else "Some " + _cq_items(fro))
        for i, to, fro in src))
    out += ["].", ""]
    return "\n".join(out), live


CAPITAL_SIGMA = "Σ"


def lower_table():
    """str.lower() of THIS interpreter (the one that runs the code under test), complete: every code point >= 0x80
    whose lower() is not the code point itself -> its lower().  str.lower() maps code point by code point
    (_PyUnicode_ToLowerFull) except for U+03A3, whose image depends on its neighbours (final sigma): that one is
    checked here to be the ONLY context-dependent character (every other character lower-cases the same alone,
    after a cased letter and before one) and names containing it are not generated."""
    tab = {}
    for i in range(0x80, 0x110000):
        if 0xD800 <= i < 0xE000:
            continue
        c = chr(i)
        low = c.lower()
        if c != CAPITAL_SIGMA and not (("a" + c).lower() == "a" + low and (c + "a").lower() == low + "a"
                                       and ("a" + c + "a").lower() == "a" + low + "a"):
            raise TableError("str.lower() of U+%04X depends on its neighbours" % i)
        if low != c:
            tab[c] = low
    for c in map(chr, range(0x80)):
        if c.lower() != _ascii_lower(c):
            raise TableError("str.lower() of ASCII %r" % c)
    return tab


def case_table_text():
    tab = lower_table()
    buckets = {}
    for k, v in tab.items():
        kb = k.encode("utf-8")
        buckets.setdefault(kb[0], []).append((k, v))
    import unicodedata
    out = ["(* GENERATED by harness/c17.py regenerate_tables from str.lower() of the interpreter that runs the code under",
           "   test (Unicode %s): every code point >= U+0080 whose lower() differs from it, as UTF-8 bytes, grouped by"
           % unicodedata.unidata_version,
           "   lead byte.  Do not edit. *)",
           "From Coq Require Import String List NArith.", "From Verif Require Import Base.Str.", "Import ListNotations.",
           "Open Scope string_scope.", "",
           "Definition lower_table : list (N * list (string * string)) := ["]
    out.append(";\n".join("  (%d%%N, [%s])" % (lead, ";\n    ".join("(%s, %s)" % (cq(k), cq(v)) for k, v in items))
                          for lead, items in sorted(buckets.items())))
    out += ["].", ""]
    return "\n".join(out), {"case_entries": len(tab), "lead_bytes": len(buckets), "unicode": unicodedata.unidata_version}


def _write_gen(path, text):
    old = None
    if os.path.exists(path):
        with open(path, encoding="utf-8") as f:
            old = f.read()
    if old != text:
        tmp = path + ".tmp%d" % os.getpid()
        with open(tmp, "w", encoding="utf-8") as f:
            f.write(text)
        os.replace(tmp, path)
    return old != text


def regenerate_tables(ctx):
    """Translator: live converters -> coq/gen/C17Tables.v, str.lower() -> coq/gen/C17Case.v (written only when
    changed; fail closed)."""
    try:
        ctext, cinfo = case_table_text()
    except Exception as e:  # fail closed
        ctext, cinfo = "(* GENERATION FAILED: %s *)\nDefinition generation_failed : False := I.\n" % (
            str(e).replace("*)", "* )"),), {"case_entries": 0, "error": str(e)}
    case_changed = _write_gen(CASE_FILE, ctext)
    try:
        text, live = tables_text()
    except Exception as e:  # fail closed: an unusable table file makes the proof build fail
        text, live = "(* GENERATION FAILED: %s *)\nDefinition generation_failed : False := I.\n" % (
            str(e).replace("*)", "* )"),), []
    os.makedirs(os.path.dirname(GEN_FILE), exist_ok=True)
    old = None
    if os.path.exists(GEN_FILE):
        with open(GEN_FILE) as f:
            old = f.read()
    if old != text:
        tmp = GEN_FILE + ".tmp%d" % os.getpid()
        with open(tmp, "w") as f:
            f.write(text)
        os.replace(tmp, GEN_FILE)
    n = sum(len(to) + len(fro) for _, to, fro in live)
    non_ascii = sum(1 for _, to, fro in live for k, v in to + fro if not (k.isascii() and v.isascii()))
    pairs = sum(len(to) for _, to, _ in live)
    # finite obligations enumerated completely inside the kernel by the table theorems of Property.v
    # (c17_bundled_from_dict: every table entry; c17_bundled_symmetric, c17_bundled_pairs_ok_except,
    # c17_bundled_lost_exactly: every (converter, local attribute) pair); the driver sets discharged to 0 when
    # the proofs do not build
    # translator v2: the decision functions of the anchored code as they read NOW -> coq/gen/C17Src2.v
    # (C17/Source2.v proves them equal to the model, for all inputs; a function that can no longer be translated
    # becomes a poisoned definition, so its theorem stops checking)
    from harness import py2coq2
    src2 = py2coq2.regenerate(os.path.join(common.GEN, "C17Src2.v"), source2_items())
    # the str.lower() table: every entry is an obligation of Case.table_ok_true (its image is a fixed point of
    # lower() made of complete characters and has no whitespace at either end), checked by the kernel on every build
    ce = cinfo.get("case_entries", 0)
    return {"obligations": n + pairs + ce + src2["obligations"], "discharged": n + pairs + ce + src2["discharged"],
            "unit": "table entries + (converter, attribute) pairs + str.lower() table entries + translated functions",
            "file": os.path.relpath(GEN_FILE, common.VERIF), "maps": len(live), "table_entries": n, "pairs": pairs,
            "non_ascii_entries": non_ascii, "case_table": dict(cinfo, file=os.path.relpath(CASE_FILE, common.VERIF)),
            "source2": src2, "untranslatable": list(src2["untranslatable"]),
            "changed": (old != text) or case_changed or bool(src2.get("changed"))}


ABSENT = '(PObj [("__class__", PStr "<absent>")])'      # a keyword argument that the call does not give


def source2_items():
    """What translator v2 (harness/py2coq2.py) re-translates from the source text on every run.  External calls
    (object construction, the sibling functions, recursion) are extra parameters of the Gallina definitions;
    C17/Source2.v quantifies over them (Section variables + hypotheses)."""
    A = os.path.join(env.SRC, "saml2", "attribute_converter.py")
    S = os.path.join(env.SRC, "saml2", "s_utils.py")
    saml_exc = {"SAMLError": ["Exception"], "ConverterError": ["SAMLError", "Exception"],
                "UnknownNameFormat": ["SAMLError", "Exception"], "OtherError": ["SAMLError", "Exception"]}

    def factory(a, kw):
        extra = sorted(set(kw) - {"name", "name_format", "friendly_name", "attribute_value"})
        if len(a) != 1 or extra:
            raise py2coq2.Untranslatable("factory() with %d positional argument(s) / keywords %s" % (len(a), extra))
        return "(factory %s %s %s %s %s)" % (a[0], kw.get("name", ABSENT), kw.get("name_format", ABSENT),
                                             kw.get("friendly_name", ABSENT), kw.get("attribute_value", ABSENT))
    conv_var = _local_name(A, "from_local", lambda n: isinstance(n, ast.For) and isinstance(n.target, ast.Name)
                           and isinstance(n.iter, ast.Name) and n.iter.id == "acs" and n.target.id, "aconv")
    av_var = _local_name(S, "do_ava", lambda n: isinstance(n, ast.Assign) and len(n.targets) == 1
                         and isinstance(n.targets[0], ast.Name) and isinstance(n.value, ast.Call)
                         and ast.unparse(n.value.func) == "saml.AttributeValue" and n.targets[0].id, "ava")
    return [
        # self is mutated: the definition returns [result; self afterwards]
        (A, "AttributeConverter.adjust", {"name": "src2_adjust", "params": ["self"], "returns_state": ["self"]}),
        (A, "AttributeConverter.from_dict", {
            "name": "src2_from_dict", "params": ["self", "mapdict"], "returns_state": ["self"],
            "extra_params": [("adjust", "pyval -> pyval")],
            "calls": {"self.adjust": lambda a: "(adjust v_self)"}, "exc_parents": saml_exc}),
        (A, "AttributeConverter.to_", {
            "name": "src2_to_", "params": ["self", "attrvals"],
            "extra_params": [("do_ava", "pyval -> pyval"), ("to_eptid_value", "pyval -> pyval"),
                             ("factory", "pyval -> pyval -> pyval -> pyval -> pyval -> pyval")],
            "globals": {"saml.Attribute": '(PStr "saml.Attribute")'},
            "calls": {"do_ava": lambda a: "(do_ava %s)" % a[0] if len(a) == 1 else _refuse("do_ava with a typ"),
                      "self.to_eptid_value": lambda a: "(to_eptid_value %s)" % a[0],
                      "factory": factory}}),
        # the receiver of .to_() is the loop variable, whatever it is called
        (A, "from_local", {
            "name": "src2_from_local", "params": ["acs", "ava", "name_format"],
            "extra_params": [("to_", "pyval -> pyval -> pyval")],
            "calls": {"%s.to_" % conv_var: lambda a: "(to_ v_%s %s)" % (conv_var, a[0])}}),
        (A, "AttributeConverter.lcd_ava_from", {
            "name": "src2_lcd_ava_from", "params": ["self", "attribute"], "attr_errors": True}),
        # the recursive call and the AttributeValue object (saml.AttributeValue(), set_text, set_type) are external
        (S, "do_ava", {
            "name": "src2_do_ava", "params": ["val", "typ"],
            "extra_params": [("do_ava_rec", "pyval -> pyval"), ("set_text", "pyval -> pyval -> pyval"),
                             ("set_type", "pyval -> pyval -> pyval")],
            "calls": {"do_ava": lambda a: "(do_ava_rec %s)" % a[0] if len(a) == 1 else _refuse("recursive do_ava with a typ"),
                      "saml.AttributeValue": '(PObj [("__class__", PStr "AttributeValue")])',
                      "%s.set_text" % av_var: lambda a: "(set_text v_%s %s)" % (av_var, a[0]),
                      "%s.set_type" % av_var: lambda a: "(set_type v_%s %s)" % (av_var, a[0])},
            "classes": {"float": ["float"]}, "lenient_raise_args": True, "exc_parents": saml_exc}),
    ]


def _local_name(path, func, pick, default):
    """The name of a local variable of `func` as the source spells it NOW (first AST node for which pick() answers
    a name), so that the spec's receiver-keyed calls follow a mere renaming; `default` when nothing is found (the
    translation then fails closed on the unknown method call)."""
    try:
        with open(path) as f:
            tree = ast.parse(f.read())
        fn = next(n for n in tree.body if isinstance(n, ast.FunctionDef) and n.name == func)
        for n in ast.walk(fn):
            got = pick(n)
            if got:
                return got
    except (OSError, SyntaxError, StopIteration):
        pass
    return default


def _refuse(why):
    from harness import py2coq2
    raise py2coq2.Untranslatable(why)


# ------------------------------------------------------------------------------ real objects
@functools.lru_cache(maxsize=None)
def _bundled():
    from saml2.attribute_converter import ac_factory

    return ac_factory()


def build_acs(spec):
    from saml2.attribute_converter import AttributeConverter

    if spec == "bundled":
        return list(_bundled())
    if "sub" in spec:
        b = _bundled()
        return [b[i] for i in spec["sub"]]
    acs = []
    for s in spec["custom"]:
        a = AttributeConverter()
        a.from_dict(src_dict(s))
        acs.append(a)
    return acs


def src_dict(s):
    d = {"identifier": s["identifier"]}
    if s.get("to") is not None:
        d["to"] = dict(map(tuple, s["to"]))
    if s.get("fro") is not None:
        d["fro"] = dict(map(tuple, s["fro"]))
    return d


def _xml_text(t):
    return escape(t).replace("\r", "&#13;")


CANON_INT = re.compile(r"\A(0|-?[1-9][0-9]{0,30})\Z")


def render_attr(w):
    """Independent XML rendering of one wire attribute (abstract form -> <saml:Attribute>)."""
    s = "<saml:Attribute %s" % NS
    for xn, key in (("Name", "name"), ("NameFormat", "nf"), ("FriendlyName", "friendly")):
        if w[key] is not None:
            s += " %s=%s" % (xn, quoteattr(w[key]))
    s += ">"
    for i, v in enumerate(w["values"]):
        if v[0] == "t":
            t = v[1]
            if t == "":
                s += ("<saml:AttributeValue/>", '<saml:AttributeValue xsi:nil="true"/>',
                      '<saml:AttributeValue xsi:type="xs:string"></saml:AttributeValue>')[(i + len(w["values"])) % 3]
            elif t in ("true", "false") and (i + len(w["values"])) % 2 == 0:
                s += '<saml:AttributeValue xsi:type="xs:boolean">%s</saml:AttributeValue>' % t
            elif CANON_INT.match(t) and (i + len(w["values"])) % 2 == 0:
                s += '<saml:AttributeValue xsi:type="xs:integer">%s</saml:AttributeValue>' % t
            elif i % 2:
                s += '<saml:AttributeValue xsi:type="xs:string">%s</saml:AttributeValue>' % _xml_text(t)
            else:
                s += "<saml:AttributeValue>%s</saml:AttributeValue>" % _xml_text(t)
        else:
            at = "".join(" %s=%s" % (NAMEID_XML[k], quoteattr(val)) for k, val in v[1])
            pad = "\n  " if i % 2 else ""
            s += "<saml:AttributeValue>%s<saml:NameID%s>%s</saml:NameID>%s</saml:AttributeValue>" % (
                pad, at, _xml_text(v[2]), pad)
    return s + "</saml:Attribute>"


def obj_attr(w):
    """The same attribute built directly from the element classes (no XML)."""
    from saml2 import NAMESPACE, ExtensionElement, saml

    a = saml.Attribute(name=w["name"], name_format=w["nf"], friendly_name=w["friendly"])
    vals = []
    for i, v in enumerate(w["values"]):
        if v[0] == "t":
            av = saml.AttributeValue()
            if v[1] != "" or i % 2:
                av.set_text(v[1])
            vals.append(av)
        else:
            el = ExtensionElement("NameID", NAMESPACE, attributes={NAMEID_XML[k]: val for k, val in v[1]}, text=v[2])
            vals.append(saml.AttributeValue(extension_elements=[el]))
    a.attribute_value = vals
    return a


XSI = "{http://www.w3.org/2001/XMLSchema-instance}"


def _abs_type(v):
    """what an AttributeValue object carries besides its text: xsi:type, '/nil' appended when xsi:nil is set"""
    ea = v.extension_attributes or {}
    t = ea.get(XSI + "type")
    t = "" if t is None else (t if isinstance(t, str) else "?%r" % (t,))
    if XSI + "nil" in ea:
        t += "/nil" if ea[XSI + "nil"] == "true" else "/nil=%s" % (ea[XSI + "nil"],)
    return t


def pyvalue(v):
    """case value (JSON) -> the Python object handed to from_local: a list, or {"one": x} for a single object"""
    if isinstance(v, dict):
        return v["one"]
    return list(v)


def _abs_attr(a, types=False):
    vals = []
    if types:
        if not isinstance(a.attribute_value, list):
            return {"name": a.name, "nf": a.name_format, "friendly": a.friendly_name,
                    "values": [["t", "?attribute_value=%r" % (a.attribute_value,)]], "types": ["?"]}
    for v in a.attribute_value:
        if v.extension_elements:
            if len(v.extension_elements) != 1 or v.extension_elements[0].tag != "NameID" or (v.text or "").strip():
                vals.append(["n", [["?", "unexpected extension elements"]], ""])
                continue
            e = v.extension_elements[0]
            inv = {x: k for k, x in NAMEID_XML.items()}
            at = sorted([inv.get(k, "?" + k), val] for k, val in e.attributes.items())
            vals.append(["n", at, e.text or ""])
        else:
            t = v.text
            vals.append(["t", t if isinstance(t, str) else ("" if t is None else "?%r" % (t,))])
    d = {"name": a.name, "nf": a.name_format, "friendly": a.friendly_name, "values": vals}
    if types:
        d["types"] = [_abs_type(v) for v in a.attribute_value]
    return d


def _abs_ava(d):
    out = []
    if not isinstance(d, dict):
        return [["?not-a-dict", []]]
    for k in sorted(d, key=lambda x: (str(type(x)), x)):
        vals = []
        for v in d[k]:
            if isinstance(v, str):
                vals.append(["s", v])
            elif isinstance(v, dict) and list(v) == ["NameID"] and isinstance(v["NameID"], dict) and \
                    all(isinstance(a, str) and isinstance(b, str) for a, b in v["NameID"].items()):
                vals.append(["d", sorted([a, b] for a, b in v["NameID"].items())])
            else:
                vals.append(["d", [["?", repr(v)[:80]]]])
        out.append([k if isinstance(k, str) else "?%r" % (k,), vals])
    return out


def _exc(e):
    return type(e).__name__


def observe(case):
    env.check_repo_import()
    from saml2 import saml
    from saml2.attribute_converter import AttributeConverter, from_local, list_to_local, to_local

    kind = case["kind"]
    if kind == "load":
        a = AttributeConverter()
        try:
            a.from_dict(src_dict(case["src"]))
        except Exception as e:
            return {"exc": _exc(e), "conv": None}
        if a._to is None or a._fro is None:
            # from_dict returned without completing the converter (never with the code as it is): observed as a
            # failed load, which the model (a complete converter) contradicts
            return {"exc": "incomplete", "conv": None}
        return {"exc": None, "conv": [a.name_format, sorted(map(list, a._to.items())), sorted(map(list, a._fro.items()))]}
    try:
        acs = build_acs(case["acs"])
    except Exception as e:
        return {"exc": "build:" + _exc(e), "wire": None, "ava": None}
    if kind == "send":
        try:
            out = from_local(acs, {k: pyvalue(v) for k, v in case["ava"]}, case["nf"])
        except Exception as e:
            return {"exc": _exc(e), "wire": None}
        if out is None:
            return {"exc": None, "wire": None}
        return {"exc": None, "wire": [_abs_attr(a, True) for a in out]}
    if kind == "recv":
        try:
            if case["via"] == "xml":
                attrs = [saml.attribute_from_string(render_attr(w)) for w in case["attrs"]]
                if any(a is None for a in attrs):
                    return {"exc": "parse", "ava": None}
                st = saml.AttributeStatement(attribute=attrs)
                res = to_local(acs, st, case["allow"])
            else:
                res = list_to_local(acs, [obj_attr(w) for w in case["attrs"]], case["allow"])
        except Exception as e:
            return {"exc": _exc(e), "ava": None}
        return {"exc": None, "ava": _abs_ava(res)}
    if kind == "round":
        try:
            out = from_local(acs, {k: pyvalue(v) for k, v in case["ava"]}, case["nf"])
            if out is None:
                return {"exc": None, "ava": None}
            if case["via"] == "xml":
                out = [saml.attribute_from_string(a.to_string()) for a in out]
            res = list_to_local(acs, out, case["allow"])
        except Exception as e:
            return {"exc": _exc(e), "ava": None}
        return {"exc": None, "ava": _abs_ava(res)}
    raise ValueError(kind)


# ------------------------------------------------------------------------------ Coq terms
def cq_dict(items):
    return "[" + "; ".join("(%s, %s)" % (cq(k), cq(v)) for k, v in items) + "]"


def cq_src(s):
    return "{| s_ident := %s; s_to := %s; s_fro := %s |}" % (
        cq(s["identifier"]),
        "None" if s.get("to") is None else "(Some %s)" % cq_dict(s["to"]),
        "None" if s.get("fro") is None else "(Some %s)" % cq_dict(s["fro"]))


def cq_acs(spec):
    if spec == "bundled":
        return "Bundled"
    if "sub" in spec:
        return "(BundledSub [%s])" % "; ".join("%d%%nat" % i for i in spec["sub"])
    return "(Custom [%s])" % "; ".join(cq_src(s) for s in spec["custom"])


def cq_wval(v):
    if v[0] == "t":
        return "WText %s" % cq(v[1])
    return "WNameID %s %s" % (cq_dict(v[1]), cq(v[2]))


def cq_wattr(w):
    return "{| wname := %s; wnf := %s; wfriendly := %s; wvals := [%s] |}" % (
        cq_opt(w["name"]), cq_opt(w["nf"]), cq_opt(w["friendly"]), "; ".join(cq_wval(v) for v in w["values"]))


def cq_pyval(v):
    if isinstance(v, bool):
        return "PBool %s" % cq(v)
    if isinstance(v, int):
        return "PInt %s" % cq(v)
    if isinstance(v, float):
        if v != v or v in (float("inf"), float("-inf")):
            raise TypeError("not a modelled Python value: %r" % (v,))
        return "PFloat %s %s" % (cq(str(v)), cq(v == 0))
    if isinstance(v, str):
        return "PStr %s" % cq(v)
    if v is None:
        return "PNone"
    raise TypeError("not a modelled Python value: %r" % (v,))


def cq_pyvalue(v):
    if isinstance(v, dict):
        return "VOne (%s)" % cq_pyval(v["one"])
    return "VList [%s]" % "; ".join(cq_pyval(x) for x in v)


def cq_lava(ava):
    return "[" + "; ".join("(%s, %s)" % (cq(k), cq_pyvalue(vs)) for k, vs in ava) + "]"


def cq_typed_wattr(w):
    return "(%s, [%s])" % (cq_wattr(w), "; ".join(cq(t) for t in w["types"]))


def cq_lval(v):
    if v[0] == "s":
        return "LStr %s" % cq(v[1])
    return "LNameID %s" % cq_dict(v[1])


def cq_ava(a):
    if a is None:
        return "None"
    return "(Some [%s])" % "; ".join("(%s, [%s])" % (cq(k), "; ".join(cq_lval(v) for v in vs)) for k, vs in a)


def coq_case(case, obs):
    kind = case["kind"]
    if kind == "load":
        c = obs["conv"]
        o = "None" if c is None else "(Some (%s, (%s, %s)))" % (cq(c[0]), cq_dict(c[1]), cq_dict(c[2]))
        return "CLoad %s %s" % (cq_src(case["src"]), o)
    if kind == "send":
        w = obs["wire"]
        if obs["exc"]:
            o = "(SExc %s)" % cq(obs["exc"])
        else:
            o = "SNone" if w is None else "(SOk [%s])" % "; ".join(cq_typed_wattr(x) for x in w)
        return "CSend %s %s %s %s" % (cq_acs(case["acs"]), cq_lava(case["ava"]), cq(case["nf"]), o)
    if kind == "recv":
        return "CRecv %s %s %s [%s] %s" % (cq_acs(case["acs"]), cq(bool(case["allow"])), cq(case["via"] == "xml"),
                                           "; ".join(cq_wattr(w) for w in case["attrs"]), cq_ava(obs["ava"]))
    if obs["exc"]:
        o = "(RExc %s)" % cq(obs["exc"])
    else:
        o = "RNone" if obs["ava"] is None else "(ROk [%s])" % "; ".join(
            "(%s, [%s])" % (cq(k), "; ".join(cq_lval(v) for v in vs)) for k, vs in obs["ava"])
    return "CRound %s %s %s %s %s %s" % (cq_acs(case["acs"]), cq_lava(case["ava"]), cq(case["nf"]),
                                         cq(bool(case["allow"])), cq(case["via"] == "xml"), o)


def explain_term(term):
    return "C17.Corr.explain (%s)" % term


# ------------------------------------------------------------------------------ generators
PADS = ["", "", "", " ", "  ", "\t", "\n", " \n\t", "\r"]
WORDS = ["v", "x y", "a@example.org", "Åsa Öberg", "名前", "ünï", "0", "true", "<b>&amp;</b>", "urn:x:y", "A\tB",
         "line1\nline2", "é", "a" * 40]


def gen_value(rng, xml_safe=True):
    k = rng.randrange(10)
    if k == 0:
        return ""
    if k == 1:
        return rng.choice([" ", "  ", "\t", " \n "])
    w = rng.choice(WORDS)
    if k <= 4:
        w = rng.choice(PADS[3:]) + w + rng.choice(PADS[3:])
    if not xml_safe and k == 5:
        w = "\x0b" + w + "\x1f\x0c"
    return w


def gen_values(rng, xml_safe=True):
    k = rng.randrange(8)
    if k == 0:
        return []
    if k == 1:
        return [""]
    if k == 2:
        return [gen_value(rng, xml_safe)]
    return [gen_value(rng, xml_safe) for _ in range(rng.randint(1, 4))]


def recase(rng, s):
    k = rng.randrange(5)
    if k == 0:
        return s.upper()
    if k == 1:
        return s.lower()
    if k == 2:
        return "".join(c.upper() if rng.random() < .5 else c.lower() for c in s)
    return s


def pad(rng, s):
    return rng.choice(PADS) + s + rng.choice(PADS)


def wattr(name, nf, values, friendly=None):
    return {"name": name, "nf": nf, "friendly": friendly, "values": values}


def tvals(vals):
    return [["t", v] for v in vals]


def nvals(vals, rng=None):
    out = []
    for v in vals:
        at = [["format", PERSISTENT]]
        if rng is not None and rng.random() < .3:
            at = sorted(at + [["name_qualifier", "https://idp.example.org"], ["sp_name_qualifier", "https://sp.example.org"]])
        if rng is not None and rng.random() < .1:
            at = []
        out.append(["n", at, v])
    return out


def mk(kind, tag, **kw):
    d = {"kind": kind, "tag": tag}
    d.update(kw)
    return d


ALNUM = "abcdefghijklmnopqrstuvwxyzABCDEFGHIJKLMNOPQRSTUVWXYZ0123456789"


def rand_name(rng, prefix=""):
    n = rng.randint(1, 8)
    s = "".join(rng.choice(ALNUM) for _ in range(n))
    if rng.random() < .15:
        s += rng.choice(["名", "属性", "-", "_", ".", ":"])
        s += rng.choice(ALNUM)
    return prefix + s


def gen_custom_map(rng, ident):
    """A random map dictionary: list of (local, wire) pairs turned into to / fro / both."""
    nloc = rng.randint(1, 5)
    prefix = rng.choice(["urn:oid:", "urn:X:Attr:", "http://Example.org/claims/", ""])
    locals_ = [rand_name(rng) for _ in range(nloc)]
    to, fro = [], []
    for loc in locals_:
        wires = [rand_name(rng, prefix) for _ in range(rng.choice([1, 1, 1, 2, 3]))]
        to.append([loc, wires[0]])
        for w in wires:
            fro.append([w, loc])
    quirks = rng.sample(["alias", "casecoll_to", "casecoll_fro", "emptywire", "eptid", "eptid_lc", "padwire", "asym_to",
                         "asym_fro", "samewire", "emptylocal"], rng.choice([0, 0, 1, 1, 2]))
    for q in quirks:
        if q == "alias":             # second local name for an existing wire name
            to.append([rand_name(rng), to[0][1]])
        elif q == "casecoll_to":     # keys colliding after lower()
            to.append([to[0][0].swapcase(), rand_name(rng, prefix)])
            fro.append([to[-1][1], to[0][0]])
        elif q == "casecoll_fro":
            fro.append([fro[0][0].swapcase(), rand_name(rng)])
        elif q == "emptywire":
            to.append([rand_name(rng), ""])
        elif q == "emptylocal":
            to.append(["", rand_name(rng, prefix)])
            fro.append([to[-1][1], ""])
        elif q == "eptid":
            to.append(["eduPersonTargetedID", EPTID_OID])
            fro.append([EPTID_OID, "eduPersonTargetedID"])
        elif q == "eptid_lc":
            to.append(["eptid", EPTID_OID])
            fro.append([EPTID_OID, "eptid"])
        elif q == "padwire":
            w = " " + rand_name(rng, prefix) + rng.choice(["", " "])
            loc = rand_name(rng)
            to.append([loc, w])
            fro.append([w if rng.random() < .5 else w.strip(), loc])
        elif q == "asym_to":         # "to" names a wire name "fro" does not know
            to.append([rand_name(rng), rand_name(rng, prefix)])
        elif q == "asym_fro":
            fro.append([rand_name(rng, prefix), rand_name(rng)])
        elif q == "samewire":        # two locals, wire names equal up to case
            w = rand_name(rng, prefix)
            a, b = rand_name(rng), rand_name(rng)
            to += [[a, w], [b, w.swapcase()]]
            fro += [[w, a]]

    def uniq(items):
        d = {}
        for k, v in items:
            d[k] = v
        return [[k, v] for k, v in d.items()]

    to, fro = uniq(to), uniq(fro)
    shape = rng.choice(["both", "both", "to", "fro"])
    return {"identifier": ident, "to": to if shape in ("both", "to") else None, "fro": fro if shape in ("both", "fro") else None,
            "shape": shape, "quirks": sorted(quirks)}


def generate(ctx):
    rng = ctx.rng
    env.check_repo_import()
    cases = []
    deep = ctx.thorough
    try:
        live, src = live_tables()
    except Exception:
        # the translator has failed closed (the generated file does not compile, so the proofs are reported
        # broken); still exercise the code paths that do not need the bundled tables
        return generate_custom(ctx, cases)

    # 1. every (bundled map, local attribute) pair
    for i, (nf, to, fro) in enumerate(live):
        src_to = dict(src[i][1] or [])
        orig = {}
        for k in src_to:
            orig.setdefault(_ascii_lower(k), k)
        for k, wire in to:
            key = orig.get(k, k)
            for rep in range(3 if deep else 1):
                keyv = key if rep == 0 else recase(rng, key)
                vals = gen_values(rng)
                cases.append(mk("send", "pair-send", acs="bundled", ava=[[keyv, vals]], nf=nf, map=i))
                for allow in (False, True):
                    cases.append(mk("round", "pair-round-set", acs="bundled", ava=[[keyv, gen_values(rng)]], nf=nf,
                                    allow=allow, via=rng.choice(["xml", "obj"]), map=i))
                cases.append(mk("round", "pair-round-own", acs={"sub": [i]}, ava=[[recase(rng, key), gen_values(rng)]], nf=nf,
                                allow=rng.random() < .3, via=rng.choice(["xml", "obj"]), map=i))
        # every (bundled map, wire name) pair
        for wire, loc in fro:
            for allow in (False, True):
                name = pad(rng, recase(rng, wire)) if rng.random() < .5 else wire
                vals = gen_values(rng)
                v = nvals(vals, rng) if wire == EPTID_OID and rng.random() < .7 else tvals(vals)
                cases.append(mk("recv", "pair-recv", acs="bundled", allow=allow, via="xml",
                                attrs=[wattr(name, nf, v, rng.choice([None, loc, "other"]))], map=i))
    # the same converter through the whole eduPersonTargetedID value space
    for vals in ([], [""], ["  "], ["abc"], [" abc\n"], ["a", "b"], ["a", ""], ["名"]):
        for via in ("xml", "obj"):
            cases.append(mk("round", "eptid", acs="bundled", ava=[["eduPersonTargetedID", vals]], nf=NF_URI, allow=False, via=via, map=3))
        cases.append(mk("send", "eptid", acs="bundled", ava=[["EduPersonTargetedId", vals]], nf=NF_URI, map=3))

    # 2. mixed statements
    sets = ["bundled", {"sub": [2, 3, 4]}, {"sub": [3]}, {"sub": [1, 2]}, {"sub": []}, {"sub": [4, 3, 2, 1, 0]}]
    for _ in range(1500 if deep else 350):
        acs = rng.choice(sets)
        idx = list(range(5)) if acs == "bundled" else acs["sub"]
        via = "xml" if rng.random() < .8 else "obj"
        attrs = []
        for _ in range(rng.randint(1, 6)):
            k = rng.randrange(14)
            vals = tvals(gen_values(rng, via == "xml"))
            if k <= 3:      # known to some bundled map (maybe not one in the set)
                i = rng.randrange(5)
                wire, loc = rng.choice(live[i][2])
                attrs.append(wattr(pad(rng, recase(rng, wire)), live[i][0], vals, rng.choice([None, loc])))
            elif k == 4:    # sn through two formats (collapse to one local name)
                attrs.append(wattr("urn:oid:2.5.4.4", NF_URI, vals))
                attrs.append(wattr("urn:mace:dir:attribute-def:sn", NF_BASIC, tvals(gen_values(rng))))
            elif k == 5:    # unknown name, known format
                attrs.append(wattr(rand_name(rng, "urn:unknown:"), rng.choice([NF_URI, NF_BASIC, NF_UNSPEC, NF_SHIB]), vals,
                                   rng.choice([None, "friendly"])))
            elif k == 6:    # unknown format
                wire, loc = rng.choice(live[3][2])
                attrs.append(wattr(rng.choice([wire, rand_name(rng)]), rng.choice(["urn:x:format", NF_URI.upper(), NF_URI + " "]), vals))
            elif k == 7:    # absent NameFormat
                i = rng.choice([0, 1, 3])
                wire, loc = rng.choice(live[i][2])
                attrs.append(wattr(rng.choice([wire, rand_name(rng), pad(rng, "mail")]), None, vals))
            elif k == 8:    # explicit unspecified format
                wire, loc = rng.choice(live[rng.choice([0, 1])][2])
                attrs.append(wattr(rng.choice([wire, wire.upper(), rand_name(rng)]), NF_UNSPEC, vals))
            elif k == 9:    # NameFormat="" (not with an empty converter list: documented exclusion)
                if idx:
                    attrs.append(wattr(rng.choice(["mail", "urn:oid:2.5.4.4"]), "", vals))
            elif k == 10:   # no Name
                i = rng.randrange(5)
                attrs.append(wattr(None, rng.choice([live[i][0], "urn:x:format", None]), vals,
                                   rng.choice([None, " SurName ", "mail"])))
            elif k == 11:   # eduPersonTargetedID, wrapped
                v = nvals([rng.choice(["abc", " abc ", "", "名", "  "]) for _ in range(rng.randint(1, 3))], rng)
                attrs.append(wattr(rng.choice([EPTID_OID, " " + EPTID_OID, EPTID_OID.upper()]), rng.choice([NF_URI, NF_URI, NF_BASIC, None]), v))
            elif k == 12:   # NameID-wrapped values in another attribute
                attrs.append(wattr("urn:oid:2.5.4.4", NF_URI, nvals(["abc"], rng) + vals))
            else:           # the ADFS names (both generations)
                wire, loc = rng.choice(live[rng.choice([0, 1])][2])
                attrs.append(wattr(wire, rng.choice([NF_UNSPEC, None]), vals))
        if via == "obj":
            # built directly: only a NameFormat given explicitly stays; None is kept as None
            pass
        rng.shuffle(attrs)
        cases.append(mk("recv", "mixed", acs=acs, allow=rng.random() < .5, via=via, attrs=attrs))
    # mixed sends: several attributes incl. unknown ones and aliases collapsing
    for _ in range(600 if deep else 120):
        i = rng.randrange(5)
        nf = live[i][0]
        ava = {}
        for _ in range(rng.randint(1, 5)):
            k = rng.randrange(6)
            if k <= 2:
                key = recase(rng, rng.choice(live[i][1])[0])
            elif k == 3:
                key = rand_name(rng)
            elif k == 4:    # an alias group of the map (several locals, one canonical)
                wire, loc = rng.choice(live[i][2])
                key = loc
            else:
                key = rng.choice(live[rng.randrange(5)][1])[0]
            ava[key] = gen_values(rng)
        acs = rng.choice(["bundled", {"sub": [i]}, {"sub": [2, 3, 4]}, {"sub": [4, 3, 2]}])
        nfx = rng.choice([nf, nf, nf, "urn:x:format", ""])
        items = [[k, v] for k, v in ava.items()]
        cases.append(mk("send", "mixed-send", acs=acs, ava=items, nf=nfx))
        cases.append(mk("round", "mixed-round", acs=acs, ava=items, nf=nfx, allow=rng.random() < .5, via=rng.choice(["xml", "obj"])))

    return generate_custom(ctx, cases)


def generate_custom(ctx, cases):
    # 3. random custom maps
    rng, deep = ctx.rng, ctx.thorough
    formats = [NF_URI, NF_BASIC, NF_UNSPEC, "urn:x:format", "urn:X:Other"]
    for _ in range(900 if deep else 170):
        nmaps = rng.choice([1, 1, 1, 2, 2, 3])
        share = nmaps > 1 and rng.random() < .12
        fs = [rng.choice(formats)] * nmaps if share else rng.sample(formats, nmaps)
        maps = [gen_custom_map(rng, f) for f in fs]
        acs = {"custom": [{"identifier": m["identifier"], "to": m["to"], "fro": m["fro"]} for m in maps]}
        tagx = "custom-shared" if share else "custom"
        for m in maps:
            cases.append(mk("load", "load", src={"identifier": m["identifier"], "to": m["to"], "fro": m["fro"]},
                            shape=m["shape"], quirks=m["quirks"]))
            locs = [k for k, _ in (m["to"] or [])] + [v for _, v in (m["fro"] or [])]
            wires = [v for _, v in (m["to"] or [])] + [k for k, _ in (m["fro"] or [])]
            locs = list(dict.fromkeys(locs))
            wires = list(dict.fromkeys(wires))
            # maps deliberately built so that "to" names a wire name "fro" does not lead back from (garbage in)
            # are outside the round-trip clause; they still get load / send / receive cases
            dirty = any(any(q in x["quirks"] for q in ("asym_to", "padwire")) for x in maps)
            for loc in locs:
                key = recase(rng, loc)
                cases.append(mk("send", tagx + "-send", acs=acs, ava=[[key, gen_values(rng)]], nf=m["identifier"],
                                shape=m["shape"], quirks=m["quirks"]))
                if not dirty:
                    cases.append(mk("round", tagx + "-round", acs=acs, ava=[[key, gen_values(rng)]], nf=m["identifier"],
                                    allow=rng.random() < .4, via=rng.choice(["xml", "obj"]), shape=m["shape"], quirks=m["quirks"]))
            # all locals at once (collapsing aliases)
            ava = {}
            for loc in locs:
                ava[recase(rng, loc)] = gen_values(rng)
            if not dirty:
                cases.append(mk("round", tagx + "-round-all", acs=acs, ava=[[k, v] for k, v in ava.items()], nf=m["identifier"],
                                allow=rng.random() < .4, via=rng.choice(["xml", "obj"]), shape=m["shape"], quirks=m["quirks"]))
            attrs = []
            for w in wires:
                if w.strip() == "":
                    continue
                vals = gen_values(rng)
                v = nvals(vals, rng) if w.strip() == EPTID_OID and rng.random() < .6 else tvals(vals)
                attrs.append(wattr(pad(rng, recase(rng, w)) if rng.random() < .6 else w, m["identifier"], v))
            attrs.append(wattr(rand_name(rng, "urn:unknown:"), m["identifier"], tvals(gen_values(rng))))
            attrs.append(wattr(rand_name(rng), rng.choice([None, NF_UNSPEC, "urn:nobody:knows"]), tvals(gen_values(rng))))
            rng.shuffle(attrs)
            for allow in (False, True):
                cases.append(mk("recv", tagx + "-recv", acs=acs, allow=allow, via=rng.choice(["xml", "xml", "obj"]), attrs=attrs,
                                shape=m["shape"], quirks=m["quirks"]))
    # a map dictionary with neither table
    cases.append(mk("load", "load", src={"identifier": NF_URI, "to": None, "fro": None}, shape="none", quirks=[]))
    # 4. eduPersonTargetedID through custom maps, complete over (map shape x value list x transport); no randomness.
    # to-only / fro-only / other-case spellings are what 16472e5d repaired (class 2), other local names ('eptid',
    # 'targetedId') what 09ff19a1 repaired (class 3).
    eptid_maps = [
        ("to", {"identifier": NF_URI, "to": [["eduPersonTargetedID", EPTID_OID]], "fro": None}, "eduPersonTargetedID"),
        ("fro", {"identifier": NF_URI, "to": None, "fro": [[EPTID_OID, "eduPersonTargetedID"]]}, "eduPersonTargetedID"),
        ("both", {"identifier": NF_URI, "to": [["eduPersonTargetedID", EPTID_OID]],
                  "fro": [[EPTID_OID, "eduPersonTargetedID"]]}, "eduPersonTargetedID"),
        ("both-case", {"identifier": NF_BASIC, "to": [["EDUPERSONTARGETEDID", EPTID_OID], ["mail", "urn:x:mail"]],
                       "fro": [[EPTID_OID, "EduPersonTargetedId"], ["urn:x:mail", "mail"]]}, "edupersontargetedID"),
        ("renamed", {"identifier": NF_URI, "to": [["eptid", EPTID_OID]], "fro": [[EPTID_OID, "eptid"]]}, "eptid"),
        ("renamed-to", {"identifier": NF_URI, "to": [["targetedId", EPTID_OID]], "fro": None}, "targetedID"),
    ]
    quals = [["format", PERSISTENT], ["name_qualifier", "https://idp.example.org"], ["sp_name_qualifier", "https://sp.example.org"]]
    for shape, src, key in eptid_maps:
        acs = {"custom": [src]}
        cases.append(mk("load", "load", src=src, shape="eptid-" + shape, quirks=[]))
        for vals in ([], [""], ["  "], ["abc"], [" abc\n"], ["a", "b"], ["a", ""], ["", "a", ""], ["名"]):
            for via in ("xml", "obj"):
                for allow in (False, True):
                    cases.append(mk("round", "eptid-custom", acs=acs, ava=[[key, vals]], nf=src["identifier"], allow=allow,
                                    via=via, shape="eptid-" + shape, quirks=[]))
                for at in ([["format", PERSISTENT]], quals, []):
                    cases.append(mk("recv", "eptid-custom", acs=acs, allow=False, via=via, shape="eptid-" + shape, quirks=[],
                                    attrs=[wattr(EPTID_OID, src["identifier"], [["n", at, v] for v in vals])]))
            cases.append(mk("send", "eptid-custom", acs=acs, ava=[[key, vals]], nf=src["identifier"], shape="eptid-" + shape,
                            quirks=[]))
    return generate_typed(ctx, cases)


# ------------------------------------------------------------------------------ Python values (round 2)
# items a caller may put into a value list (or hand over alone): every truthiness x type corner of do_ava
T_ITEMS = ["x", "", " p ", "0", "false", True, False, 1, 0, -7, 10 ** 21, 0.0, -0.0, 1.5, 1e+20, -2.5e-07, None]
T_MAPS = [
    {"identifier": "urn:x:format", "to": [["isMember", "urn:X:Attr:IsMember"], ["loginCount", "urn:X:Attr:loginCount"]],
     "fro": [["urn:X:Attr:IsMember", "isMember"], ["urn:X:Attr:loginCount", "loginCount"]]},
    {"identifier": NF_URI, "to": [["isMember", "urn:oid:1.2.3"], ["flags", "urn:oid:1.2.4"]], "fro": None},
    {"identifier": NF_BASIC, "to": None, "fro": [["urn:x:ismember", "isMember"], ["urn:x:flags", "flags"]]},
]


def value_shapes():
    """COMPLETE small table: every item alone, in a one-element list, and every ordered pair (falsy item, other
    item) / (other, falsy) plus triples with the falsy item first / in the middle / last."""
    shapes = [[]]
    for x in T_ITEMS:
        if x is not None:
            shapes.append({"one": x})
        shapes.append([x])
    falsy = ["", False, 0, 0.0, None]
    others = ["x", True, 1, False, "", 0, 1.5]
    for f in falsy:
        for o in others:
            if f is o or (f == o and type(f) is type(o)):
                shapes.append([f, f])
                continue
            shapes.append([f, o])
            shapes.append([o, f])
        shapes.append([f, "x", True])
        shapes.append(["x", f, 1])
        shapes.append([True, "y", f])
    shapes += [[0.0, 0, False, ""], [1.5, 2, "2"], [True, False, True], [1, 2, 3], [-1, 10 ** 21], ["a", "b", 3], [False, False, 12], ["yes", False, "no"]]
    return shapes


def gen_typed_value(rng, str_only=False):
    """seeded: a value list (or a single object) mixing str / bool / int / float items; None is rare (it ends the
    call with an exception: outside the property)"""
    def item():
        k = rng.randrange(20)
        if str_only or k < 7:
            return gen_value(rng)
        if k < 12:
            return rng.random() < .5       # True / False
        if k < 17:
            return rng.choice([1, 2, 7, -1, -40, 255, 65536, 10 ** 12, 2 ** 64 + 1, -(10 ** 30)])
        if k == 17:
            return rng.choice([0, 0, 0.0, 1.5, -3.25, 1e+16, 0.1])
        if k == 18:
            return None
        return rng.choice(["0", "true", "False", "-5"])
    k = rng.randrange(10)
    if k == 0:
        x = item()
        return {"one": gen_value(rng) if x is None else x}
    if k == 1:
        return []
    return [item() for _ in range(rng.randint(1, 4))]


def _to_oid(acs_spec, key):
    """does some converter of the set send this local name under the eduPersonTargetedID OID (then only str items
    are in the model's scope)"""
    try:
        return any((a._to or {}).get(key.lower()) == EPTID_OID for a in build_acs(acs_spec))
    except Exception:
        return True


def generate_typed(ctx, cases):
    rng, deep = ctx.rng, ctx.thorough
    shapes = value_shapes()
    # 5a. the complete shape table against every kind of converter set / key
    targets = [
        ("bundled", NF_URI, "givenName"), ("bundled", NF_BASIC, "sn"), ("bundled", NF_UNSPEC, "commonName"),
        ("bundled", NF_SHIB, "mail"), ({"sub": [3]}, NF_URI, "MAIL"), ("bundled", NF_URI, "notInAnyMap"),
        ("bundled", "urn:x:no-converter", "givenName"),
        ({"custom": [T_MAPS[0]]}, "urn:x:format", "isMember"), ({"custom": [T_MAPS[0]]}, "urn:x:format", "LOGINCOUNT"),
        ({"custom": [T_MAPS[1]]}, NF_URI, "flags"), ({"custom": [T_MAPS[2]]}, NF_BASIC, "ismember"),
        ({"custom": T_MAPS}, NF_URI, "isMember"),
    ]
    for ti, (acs, nf, key) in enumerate(targets):
        for si, v in enumerate(shapes):
            cases.append(mk("send", "typed-table", acs=acs, ava=[[key, v]], nf=nf, target=ti))
            if deep or ti in (0, 2, 5, 7, 9, 10):
                cases.append(mk("round", "typed-table", acs=acs, ava=[[key, v]], nf=nf, allow=bool((si + ti) % 3 == 0),
                                via=("xml", "obj")[(si + ti) % 2], target=ti))
    # str items only through the eduPersonTargetedID OID (alone and in lists)
    for v in ({"one": "abc"}, {"one": ""}, {"one": " p "}, ["abc"], []):
        for acs, key in (("bundled", "eduPersonTargetedID"),
                         ({"custom": [{"identifier": NF_URI, "to": [["eptid", EPTID_OID]], "fro": [[EPTID_OID, "eptid"]]}]}, "eptid")):
            cases.append(mk("send", "typed-eptid", acs=acs, ava=[[key, v]], nf=NF_URI))
            for via in ("xml", "obj"):
                cases.append(mk("round", "typed-eptid", acs=acs, ava=[[key, v]], nf=NF_URI, allow=False, via=via))
    # 5b. EVERY (bundled map, local attribute) pair once with a seeded typed value
    try:
        live, _ = live_tables()
    except Exception:
        live = []
    for i, (nf, to, fro) in enumerate(live):
        for j, (k, wire) in enumerate(to):
            key = recase(rng, k)
            v = gen_typed_value(rng, str_only=_to_oid("bundled", key) or _to_oid({"sub": [i]}, key))
            if j % 3 == 0:
                cases.append(mk("send", "typed-pair", acs="bundled", ava=[[key, v]], nf=nf, map=i))
            else:
                cases.append(mk("round", "typed-pair", acs=rng.choice(["bundled", {"sub": [i]}]), ava=[[key, v]], nf=nf,
                                allow=rng.random() < .3, via=rng.choice(["xml", "obj"]), map=i))
    # 5c. typed dictionaries (several attributes, known and unknown keys) over bundled and random custom maps
    for _ in range(500 if deep else 90):
        if live and rng.random() < .5:
            i = rng.randrange(len(live))
            acs, nf = rng.choice(["bundled", {"sub": [i]}]), live[i][0]
            keys = [recase(rng, rng.choice(live[i][1])[0]) for _ in range(rng.randint(1, 4))]
            shape, quirks = None, []
        else:
            m = gen_custom_map(rng, rng.choice([NF_URI, NF_BASIC, "urn:x:format"]))
            acs, nf = {"custom": [{"identifier": m["identifier"], "to": m["to"], "fro": m["fro"]}]}, m["identifier"]
            locs = [k for k, _ in (m["to"] or [])] + [v for _, v in (m["fro"] or [])]
            keys = [recase(rng, rng.choice(locs)) for _ in range(rng.randint(1, 4))]
            shape, quirks = m["shape"], m["quirks"]
        if rng.random() < .3:
            keys.append(rand_name(rng))
        ava = {}
        for k in keys:
            ava[k] = gen_typed_value(rng, str_only=_to_oid(acs, k))
        items = [[k, v] for k, v in ava.items()]
        dirty = any(q in quirks for q in ("asym_to", "padwire"))
        cases.append(mk("send", "typed-mixed", acs=acs, ava=items, nf=nf, shape=shape, quirks=quirks))
        if not dirty:
            cases.append(mk("round", "typed-mixed", acs=acs, ava=items, nf=nf, allow=rng.random() < .5,
                            via=rng.choice(["xml", "obj"]), shape=shape, quirks=quirks))
    return generate_unicode(ctx, cases)


# ------------------------------------------------------------------------------ names outside ASCII (round 6)
# Local and wire names a deployment outside the ASCII world writes into its maps.  What matters for from_dict /
# adjust / to_ / ava_from is how str.lower() treats a character; the classes (one or more names each):
#   lower-case already, but casefold() / upper().lower() / NFKC change it  (sharp s, final sigma, long s, ligature,
#       micro sign, n-apostrophe, j-caron, iota with dialytika and tonos)
#   upper- or title-case outside ASCII with a one-character lower-case form of 2, 3 and 4 bytes  (Latin-1, Greek,
#       Cyrillic, Latin Extended, fullwidth, roman numeral, Cherokee - whose casefold() goes UP -, Deseret)
#   upper-case with a lower-case form of another length  (I with dot above -> i + combining dot; KELVIN SIGN -> ASCII k;
#       ANGSTROM SIGN, OHM SIGN -> a letter with another upper-case partner)
#   no case at all  (CJK)
U_LOCALS = ["Straße", "Größe", "Fußnote", "Maße", "κωδικός", "χρήστης", "ſtaff", "ﬁle", "µm", "ŉ-gram", "ǰ", "ΐδιος",
            "Ärger", "ÉCOLE", "Ünvan", "ÑANDÚ", "Ωmega", "ЖУК", "Дата", "İstanbul", "IŞIK", "ışık", "ǅungla", "ǄEP",
            "ＡＢＣ", "Ⅷ", "ᎠᎡꭲ", "𐐀𐐨𐐁", "\u212a", "\u212bngström", "\u2126", "GROẞ", "ẞ", "Όνομα χρήστης", "名前", "属性"]
# pairs of names that str.lower() keeps apart and a coarser normalisation (casefold, upper, NFKC) identifies: a map
# may define both, as different attributes
U_TWINS = [("Maße", "Masse"), ("κωδικός", "κωδικόσ"), ("ſtaff", "staff"), ("ﬁle", "file"), ("µm", "μm"),
           ("ＡＢＣ", "abc"), ("\u212bngström", "Ångström"), ("ᎠᎡ", "ꭰꭱ"), ("Ärger", "A\u0308rger"), ("ı", "i")]
NOXML_WS = ["", "\x0b", "\x0c", "\x1c", "\x1d", "\x1e", "\x1f", " \x0b\t", "\x1f\n"]
U_PREFIXES = ["urn:example:attr:", "urn:oid:", "http://example.org/claims/", "", "urn:Größe:", "urn:κλειδί:"]


@functools.lru_cache(maxsize=None)
def _inverse_lower():
    """lower-case character -> the characters str.lower() maps to it (one character to one character only)"""
    inv = {}
    for c, low in lower_table().items():
        if len(low) == 1 and c != CAPITAL_SIGMA:
            inv.setdefault(low, []).append(c)
    for c in "abcdefghijklmnopqrstuvwxyz":
        inv.setdefault(c, []).insert(0, c.upper())
    return inv


def u_recase(rng, s, p=.6):
    """another spelling that str.lower() maps to s.lower(): each character replaced, with probability p, by one of its
    upper- / title-case partners (read from the inverse of the str.lower() table; never a capital sigma)"""
    inv = _inverse_lower()
    out = []
    for c in s.lower():
        alts = inv.get(c)
        out.append(rng.choice(alts) if alts and rng.random() < p else c)
    t = "".join(out)
    return t if CAPITAL_SIGMA not in t and t.lower() == s.lower() else s


def u_near_misses(s):
    """spellings a coarser 'caseless' comparison identifies with s although str.lower() does not"""
    import unicodedata
    out = []
    for t in (s.casefold(), s.upper(), s.lower().upper(), unicodedata.normalize("NFKC", s), unicodedata.normalize("NFD", s),
              unicodedata.normalize("NFKC", s.casefold()), s.encode("ascii", "ignore").decode(), s.swapcase()):
        if t and CAPITAL_SIGMA not in t and t.lower() != s.lower() and t not in out and t.strip() == t:
            out.append(t)
    return out


def u_values(rng):
    k = rng.randrange(6)
    if k == 0:
        return ["Bahnhofstraße 1", "", "  x  ", "ς"]
    if k == 1:
        return [rng.choice(U_LOCALS)]
    return gen_values(rng)


def _u_check(name):
    if CAPITAL_SIGMA in name:
        raise ValueError("capital sigma in a generated name: %r" % name)
    if any(c.isspace() and not c.isascii() for c in name):
        raise ValueError("whitespace outside ASCII in a generated name: %r" % name)
    return name


def generate_unicode(ctx, cases):
    rng, deep = ctx.rng, ctx.thorough
    n_before = len(cases)
    fmts = [NF_URI, NF_BASIC, "urn:example:format:de", NF_UNSPEC]
    recipes = []
    # one name per map position: non-ASCII local / ASCII wire, ASCII local / non-ASCII wire, both, wire = local
    names = list(U_LOCALS)
    rng.shuffle(names)
    per = 3
    for i in range(0, len(names), per):
        group = names[i:i + per]
        pairs = []
        for j, n in enumerate(group):
            k = (i // per + j) % 4
            if k == 0:
                pairs.append([n, rng.choice(U_PREFIXES[:4]) + rand_name(rng)])
            elif k == 1:
                pairs.append([rand_name(rng), rng.choice(U_PREFIXES) + n])
            elif k == 2:
                pairs.append([n, rng.choice(U_PREFIXES) + rng.choice(U_LOCALS)])
            else:
                pairs.append([n, n])
        pairs.append(["sn", "urn:oid:2.5.4.4"])
        recipes.append(("names", pairs))
    # twins: two attributes whose names only a coarser normalisation identifies (as local names, as wire names)
    for a, b in U_TWINS:
        recipes.append(("twin-local", [[a, "urn:example:attr:one"], [b, "urn:example:attr:two"]]))
        recipes.append(("twin-wire", [["one", "urn:example:" + a], ["two", "urn:example:" + b]]))
    if not deep:
        recipes = recipes[:12] + rng.sample(recipes[12:], 10)
    for ri, (rkind, pairs) in enumerate(recipes):
        # the pairs must be a function in both directions under str.lower() (a legal symmetric map)
        if len({k.lower() for k, _ in pairs}) != len(pairs) or len({w.lower() for _, w in pairs}) != len(pairs):
            continue
        for k, w in pairs:
            _u_check(k), _u_check(w)
        shapes = ("both", "to", "fro") if deep or rkind != "names" else (("both", "to", "fro")[ri % 3], "both")[:1 + (ri % 2)]
        for shape in dict.fromkeys(shapes):
            fmt = fmts[(ri + len(shape)) % len(fmts)]
            src = {"identifier": fmt, "to": [list(p) for p in pairs] if shape in ("both", "to") else None,
                   "fro": [[w, k] for k, w in pairs] if shape in ("both", "fro") else None}
            acs = {"custom": [src]}
            tag = "unicode-" + rkind
            cases.append(mk("load", "load", src=src, shape="u-" + shape, quirks=[rkind]))
            attrs, misses = [], []
            for k, w in pairs:
                spellings = list(dict.fromkeys([k, k.lower(), u_recase(rng, k), u_recase(rng, k, 1.0)]))
                for sp in spellings if deep else spellings[:1] + rng.sample(spellings[1:], min(1, len(spellings) - 1)):
                    _u_check(sp)
                    cases.append(mk("send", tag + "-send", acs=acs, ava=[[sp, u_values(rng)]], nf=fmt, shape="u-" + shape,
                                    quirks=[rkind]))
                    cases.append(mk("round", tag + "-round", acs=acs, ava=[[sp, u_values(rng)]], nf=fmt,
                                    allow=rng.random() < .5, via=rng.choice(["xml", "obj"]), shape="u-" + shape, quirks=[rkind]))
                # spellings that are NOT this attribute
                nm = u_near_misses(k)
                for sp in nm if deep else nm[:2]:
                    cases.append(mk("send", tag + "-miss-send", acs=acs, ava=[[sp, u_values(rng)]], nf=fmt, shape="u-" + shape,
                                    quirks=[rkind]))
                wsp = rng.choice([w, w.lower(), u_recase(rng, w), pad(rng, u_recase(rng, w, 1.0))])
                attrs.append(wattr(_u_check(wsp), fmt, tvals(u_values(rng)), rng.choice([None, k])))
                misses += [wattr(x, fmt, tvals(u_values(rng))) for x in u_near_misses(w)[:2 if not deep else 8]]
            # everything the map defines at once, in some spelling (send, then receive)
            cases.append(mk("round", tag + "-round-all", acs=acs, ava=[[u_recase(rng, k), u_values(rng)] for k, _ in pairs], nf=fmt,
                            allow=rng.random() < .5, via=rng.choice(["xml", "obj"]), shape="u-" + shape, quirks=[rkind]))
            # an attribute without Name: reported under its friendly name, lower-cased
            noname = wattr(None, fmt, tvals(u_values(rng)), u_recase(rng, pairs[0][0], 1.0))
            for allow in (False, True):
                via = ("xml", "obj")[(ri + allow) % 2]
                sent = attrs
                if via == "obj":
                    # element objects can carry the ASCII whitespace XML 1.0 cannot: \v \f FS GS RS US around the name
                    sent = [dict(w, name=rng.choice(NOXML_WS) + w["name"] + rng.choice(NOXML_WS)) for w in attrs]
                cases.append(mk("recv", tag + "-recv", acs=acs, allow=allow, via=via, attrs=sent,
                                shape="u-" + shape, quirks=[rkind]))
                if misses:
                    some = attrs[:1] + misses + ([noname] if allow else [])
                    cases.append(mk("recv", tag + "-miss-recv", acs=acs, allow=allow, via="xml", attrs=some,
                                    shape="u-" + shape, quirks=[rkind]))
    # the bundled converters meet such names as unknown attributes (send: unmapped; receive: dropped / wire name)
    for n in (U_LOCALS if deep else rng.sample(U_LOCALS, 8)):
        cases.append(mk("send", "unicode-bundled", acs="bundled", ava=[[n, u_values(rng)], ["sn", ["x"]]], nf=NF_URI))
        cases.append(mk("recv", "unicode-bundled", acs="bundled", allow=rng.random() < .5, via="xml",
                        attrs=[wattr(n, rng.choice([NF_URI, NF_BASIC, NF_UNSPEC]), tvals(u_values(rng))),
                               wattr("urn:oid:2.5.4.4", NF_URI, tvals(["x"]))]))
    ctx.unicode_cases = len(cases) - n_before
    return cases


# ------------------------------------------------------------------------------ evidence
def _tclass(x):
    if isinstance(x, bool):
        return "True" if x else "False"
    if isinstance(x, int):
        return "int0" if x == 0 else ("int-" if x < 0 else "int+")
    if isinstance(x, float):
        return "float0" if x == 0 else "float"
    if x is None:
        return "None"
    return "str-empty" if x == "" else "str"


def _vclass(vals):
    if isinstance(vals, dict):
        return "one:" + _tclass(vals["one"])
    if any(not isinstance(v, str) for v in vals):
        return "typed[" + ",".join(_tclass(v) for v in vals[:3]) + "]"
    if not vals:
        return "empty-list"
    if any(v == "" for v in vals):
        return "has-empty-string"
    if any(v.strip() != v for v in vals):
        return "padded"
    if any(not v.isascii() for v in vals):
        return "unicode"
    return "plain%d" % min(len(vals), 2)


def _acs_class(a):
    if a == "bundled":
        return "bundled"
    if "sub" in a:
        return "sub:" + ",".join(map(str, a["sub"]))
    return "custom%d" % len(a["custom"])


def nontrivial(case, obs):
    kind = case["kind"]
    if kind == "load":
        return ("load", case.get("shape"), tuple(case.get("quirks", ())), obs["exc"])
    acs = _acs_class(case["acs"])
    if kind in ("send", "round"):
        vc = tuple(sorted({_vclass(v) for _, v in case["ava"]}))
        out = obs.get("wire") if kind == "send" else obs.get("ava")
        return (kind, case["tag"], acs, case.get("map"), case.get("target"), vc, case.get("allow"), case.get("via"),
                case.get("shape"), tuple(case.get("quirks") or ()), obs.get("exc"), None if out is None else len(out))
    shape = tuple(sorted({("noname" if w["name"] is None else "name", "nonf" if w["nf"] is None else
                           ("unspec" if w["nf"] == NF_UNSPEC else "nf"), "wrapped" if any(v[0] == "n" for v in w["values"]) else "text")
                          for w in case["attrs"]}))
    out = obs.get("ava")
    return (kind, case["tag"], acs, case.get("map"), shape, case["allow"], case["via"], None if out is None else len(out))


def histogram(cases, observed):
    h = {"by_kind": {}, "by_tag": {}, "value_lists": {}, "exceptions": {}, "received_attrs": 0, "dropped_everything": 0,
         "custom_quirks": {}}
    for c, o in zip(cases, observed):
        h["by_kind"][c["kind"]] = h["by_kind"].get(c["kind"], 0) + 1
        h["by_tag"][c["tag"]] = h["by_tag"].get(c["tag"], 0) + 1
        if o.get("exc"):
            h["exceptions"][o["exc"]] = h["exceptions"].get(o["exc"], 0) + 1
        for q in c.get("quirks") or ():
            h["custom_quirks"][q] = h["custom_quirks"].get(q, 0) + 1
        if c["kind"] in ("send", "round"):
            for _, v in c["ava"]:
                k = _vclass(v)
                h["value_lists"][k] = h["value_lists"].get(k, 0) + 1
        if c["kind"] in ("recv", "round"):
            a = o.get("ava")
            if a:
                h["received_attrs"] += len(a)
            else:
                h["dropped_everything"] += 1
    return h
