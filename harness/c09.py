"""C09 — issued assertions are scoped to the requester and accepted end to end.

Every case drives the REAL saml2.server.Server.create_authn_response (fresh identifier store,
virtual clock), reads the produced Response with an independent reader (xml.etree only, below) and
verifies the signatures it carries through the stand-in; where the case names a service provider
setting, the same XML is handed to a real Saml2Client built from the same metadata."""
import ast
import copy
import json
import os
import xml.etree.ElementTree as ET
from xml.sax.saxutils import quoteattr

from harness import common, env, fixtures, render, spaccept, world
from harness.common import Raw, cq, cq_opt

PID = "C09"
PARALLEL = 6
IMPORTS = "From Verif Require C01.Model C04.Model.\nFrom Verif Require Import C09.Model C09.Spec C09.Corr.\nFrom VerifGen Require Import C09Abbrev."
CASE_TYPE = "C09.Corr.case"
RUNNER = "C09.Corr.run"
FINDING_CLASSES = {1: "C09-F1", 2: "C09-F2", 3: "C09-F3"}  # F1, F2 fixed: seeing them again is a violation; F3 open
RULE = ("complete lattice sign_response x sign_assertion given as argument (None/True/False) x as configuration "
        "(unset/True/False/'true'/'false'/''/'yes') = 441 cells, each Response also shown to an SP; complete product "
        "NameIDPolicy (absent, or Format in None/''/transient/persistent/emailAddress/unspecified x SPNameQualifier in "
        "None/affiliation/requester) x 4 identifier-store states x 4 policy shapes (x supplied name_id in the deep tier); "
        "complete product of 4 section kinds (absent / None / {} / lifetime+format) over the policy keys requester, "
        "registration authority, 'default', '' (256 with, 64 without registration info) given by configuration or as "
        "release_policy, plus a seeded sample (deep tier: all 4802) of the 7-kind product; update_farg preset lattice "
        "3^3 x in_response_to(2) x destination(2) (quick: seeded half); signing and digest algorithm by argument x idp "
        "configuration x default over the LIVE allowed lists plus one non-allowed value, for the three signing "
        "combinations; receiving side: complete want_response_signed x want_assertions_signed x "
        "want_assertions_or_response_signed (unset/True/False/'true') x what was signed (256), SP clock offsets around "
        "issue time, expiry and the one-day issue-instant bound x 6 lifetimes x accepted_time_diff, outstanding-request "
        "sets x allow_unsolicited x InResponseTo, requester x SP identity x consumer URL, issuer override, authn "
        "context shapes; plus seeded random requests (identity 1-5 attributes, multi-valued, unicode; 3 requesters; "
        "lifetimes over all seven timedelta units incl. negative and fractional; random clock); PROCESS TIME ZONE: the "
        "issuing call and the receiving call each run with TZ + tzset() set to one of 10 POSIX zones (UTC spelled out, "
        "UTC-5, UTC+9, UTC+5:45, UTC+14, UTC-12, and daylight-saving rules of both hemispheres incl. half-hour ones) or "
        "left in the starting zone, datetime.now() answering the wall clock of that zone at the virtual instant: "
        "complete product zone of the issuer x (same / starting / other side of UTC) zone of the receiver x 5 lifetimes "
        "(2 seeded (instant, SP clock edge) picks per cell, deep tier 12, out of 9 instants in winter, summer, around the "
        "daylight-saving switches and new year x the window edges), every zone x every lifetime unit on the "
        "issuing side, and a seeded share of all older families moved out of the starting zone (random 75%, sp-clock "
        "60%, others 15%).  THE REQUESTER'S CONSUMER ENDPOINTS AS CONFIGURED: 16 configurations of "
        "assertion_consumer_service covering every documented spelling of an endpoint specification (bare URL / (URL, "
        "binding) / (URL, binding, index); tuple or list; index int or decimal text, 0, not consecutive, out of list "
        "order), one or several consumer URLs per binding, one binding only, the same URL twice, and the mixtures of "
        "spellings x the consumer URL the provider chooses (EVERY URL the requester configures, its two usual ones, "
        "its logout URL, a foreign URL) x the binding the Response travels on (HTTP-POST / HTTP-Redirect), requester "
        "rotating over the three (deep tier: all three); the requester's metadata the provider loads is rendered from "
        "the same specifications (bare URL under metadata.DEFAULT_BINDING, read live); and a seeded share of all older "
        "families that are shown to a service provider (random 50%, sp-addr 40%, sp-wants 25%, lattice 20%, others 15%) "
        "gets its two usual consumer URLs written in one of 7 other spellings.  Every produced Response "
        "is read by the independent reader (xml.etree), its signatures verified through the stand-in under the IdP "
        "certificate, and (where an SP setting is part of the case) fed to a real Saml2Client.  non-trivial = distinct "
        "(option cell, name-id source/format/policy, policy shape, farg shape, algorithm source, SP verdict, sign of the "
        "zone offset on either side, spelling of the requester's endpoint specifications, how the chosen URL is written "
        "there, arrival binding)")
TRUSTED = ["xmlsec1 stand-in (harness/standin/xmlsec1.py)", "independent reader + abstraction in harness/c09.py",
           "SP acceptance models C01/C04/C05/C06 (each tied to the code by its own check)",
           "translator v2 harness/py2coq2.py + coq/theories/Base/Py2.v (semantics and trusted base: notes/translator_v2.md); "
           "translated on every run into coq/gen/C09Src2.v and proved equal to the model in C09/Source2.v: "
           "assertion.py Policy.get, Policy.get_nameid_format, Policy.get_lifetime, Policy.conditions; entity.py "
           "Entity._issuer, Entity.sign; ident.py IdentDB.nim_args, IdentDB.get_nameid; argtree.py is_set (the test of "
           "Server.update_farg); and, into coq/gen/C09Src2g.v / C09/Source2g.v, server.py Server.gather_authn_response_args "
           "after harness/c09.py:_CallShapes rewrote two call shapes the translator refuses (f(x, **d) -> f(x, d) for "
           "self.ident.find_nameid; args['policy'].get_nameid_format(e) -> policy_get_nameid_format(args['policy'], e)); and, "
           "into coq/gen/C09Src2e.v / C09/Source2e.v, config.py Config.endpoint and client_base.py Base.service_urls (the "
           "receiving side's reading of its own consumer endpoints: pairs and indexed triples, tuple or list; a bare str "
           "specification is outside the translator's fragment; externals Config.getattr and type()).  "
           "Trusted there: the encodings of C09/Source2.v (objects as attribute records, the "
           "policy as a dict of section dicts, module constants inlined with their live values) and the stated "
           "premises about external calls (registration_info, factory, instant, not_on_or_after, Issuer/NameID "
           "constructors, pre_signature_part, class_name, signed_instance_factory, match_local_id, create_id, store, "
           "Config.getattr, IdentDB.find_nameid, IdentDB.construct_nameid)"]
ASSUMPTIONS = [
    "no encryption (encrypt_assertion / pefim / encrypted advice are C16's), status=None, session_not_on_or_after=None",
    "release filtering is C10's and the wire mapping C17's: the policy carries no attribute restrictions, the "
    "requester declares no RequestedAttribute, identity keys are names of the bundled uri attribute map, values "
    "are non-empty strings without surrounding whitespace",
    "the issue time is a whole second (virtual clock); lifetime units are integers under timedelta keyword names",
    "a process time zone is a POSIX TZ string honoured by libc's tzset(); its offset at an instant (the `zone` the Coq "
    "case carries) is libc's tm_gmtoff; the issuing and the receiving call each run in one zone from start to end",
    "a release_policy argument is a Policy built over the IdP's own metadata store",
    "an SPNameQualifier other than the requester is not itself an entity with registration info",
    "the signature algorithms used are those the stand-in implements (no RIPEMD160 digest)",
    "a signature made with the IdP key verifies under the certificate in the same metadata (C03's ground)",
    "the composed acceptance models cover bearer confirmation: the SP is not run for a preset non-bearer method",
    "an endpoint specification is one of the three documented spellings (docs/howto/config.rst, 'endpoints'); the "
    "dict form that only metadata generation understands, 1- and 4-member sequences and a non-numeric index are not "
    "configurations; a bare URL is published under metadata.DEFAULT_BINDING of the service, a missing index by position",
]

SERVER_PY = os.path.join(env.SRC, "saml2", "server.py")
ASSERTION_PY = os.path.join(env.SRC, "saml2", "assertion.py")


# ------------------------------------------------------------------------------ translator
def _find_func(tree, cls, name):
    for node in ast.walk(tree):
        if isinstance(node, ast.ClassDef) and node.name == cls:
            for fn in node.body:
                if isinstance(fn, ast.FunctionDef) and fn.name == name:
                    return fn
    raise RuntimeError("%s.%s not found" % (cls, name))


def live_tables():
    """param_defaults of Server.gather_authn_response_args and the defaults of Policy.get_lifetime /
    get_nameid_format, read from the live source by AST (fail closed); algorithm lists and constants
    from the live modules."""
    env.check_repo_import()
    with open(SERVER_PY) as f:
        tree = ast.parse(f.read())
    fn = _find_func(tree, "Server", "gather_authn_response_args")
    pd = None
    for st in ast.walk(fn):
        if isinstance(st, ast.Assign) and len(st.targets) == 1 and isinstance(st.targets[0], ast.Name) \
                and st.targets[0].id == "param_defaults":
            pd = ast.literal_eval(st.value)
    if not isinstance(pd, dict):
        raise RuntimeError("param_defaults not found in Server.gather_authn_response_args")
    with open(ASSERTION_PY) as f:
        atree = ast.parse(f.read())

    def get_default(fname, attr):
        fn = _find_func(atree, "Policy", fname)
        for st in ast.walk(fn):
            if isinstance(st, ast.Call) and isinstance(st.func, ast.Attribute) and st.func.attr == "get" \
                    and st.args and isinstance(st.args[0], ast.Constant) and st.args[0].value == attr:
                d = st.args[2] if len(st.args) > 2 else [k.value for k in st.keywords if k.arg == "default"][0]
                return d
        raise RuntimeError("default of Policy.%s not found" % fname)

    life = ast.literal_eval(get_default("get_lifetime", "lifetime"))
    if not (isinstance(life, dict) and all(isinstance(v, int) for v in life.values())):
        raise RuntimeError("unexpected default lifetime %r" % (life,))
    nfd = get_default("get_nameid_format", "nameid_format")
    import saml2.saml as S
    import saml2.xmldsig as ds

    if isinstance(nfd, ast.Attribute) and isinstance(nfd.value, ast.Name) and nfd.value.id == "saml":
        nf_default = getattr(S, nfd.attr)
    elif isinstance(nfd, ast.Constant):
        nf_default = nfd.value
    else:
        raise RuntimeError("unexpected default nameid_format expression")
    out = {"param_defaults": pd, "lifetime_default": life, "nameid_format_default": nf_default}
    out.update(live_values())
    return out


def live_values():
    """The part of live_tables() that needs no reading of the source text: algorithm lists and constants of the
    live modules.  generate() and the abbreviation table use only this, so that a source text the AST readers
    cannot follow is a broken translator obligation (VIOLATION) and not a crash of the generator."""
    env.check_repo_import()
    import saml2.saml as S
    import saml2.xmldsig as ds

    import saml2.metadata as M

    d = ds.DefaultSignature()
    acs_default = M.DEFAULT_BINDING.get("assertion_consumer_service")
    if not isinstance(acs_default, str):
        raise RuntimeError("metadata.DEFAULT_BINDING['assertion_consumer_service'] missing or not a str")
    return {
        "acs_default_binding": acs_default,
        "default_sign_alg": d.get_sign_alg(), "default_digest_alg": d.get_digest_alg(),
        "sig_allowed": [l for _, l in ds.SIG_ALLOWED_ALG], "digest_allowed": [l for _, l in ds.DIGEST_ALLOWED_ALG],
        "SCM_BEARER": S.SCM_BEARER, "NAMEID_FORMAT_PERSISTENT": S.NAMEID_FORMAT_PERSISTENT,
        "NAMEID_FORMAT_TRANSIENT": S.NAMEID_FORMAT_TRANSIENT, "NAMEID_FORMAT_EMAILADDRESS": S.NAMEID_FORMAT_EMAILADDRESS,
    }


def regenerate_tables(ctx):
    t = live_tables()
    pd = t["param_defaults"]
    L = ["(* GENERATED by harness/c09.py from saml2/server.py (gather_authn_response_args param_defaults),",
         "   saml2/assertion.py (Policy.get_lifetime / get_nameid_format defaults), saml2.xmldsig, saml2.saml and saml2.metadata",
         "   (live values) — do not edit *)",
         "From Coq Require Import String List ZArith.", "Import ListNotations.", "Open Scope string_scope.", ""]
    for k in ("sign_response", "sign_assertion", "best_effort", "encrypt_assertion", "encrypted_advice_attributes"):
        if not isinstance(pd.get(k), bool):
            raise RuntimeError("param_defaults[%s] missing or not a bool" % k)
        L.append("Definition %s_default : bool := %s." % (k, cq(pd[k])))
    L.append("Definition param_default_names : list string := %s." % cq(list(pd.keys())))
    L.append("Definition param_default_is_none : list string := %s." % cq([k for k, v in pd.items() if v is None]))
    L.append("Definition lifetime_default : list (string * Z) := %s." % cq([(k, v) for k, v in t["lifetime_default"].items()]))
    for k in ("nameid_format_default", "default_sign_alg", "default_digest_alg", "acs_default_binding"):
        L.append("Definition %s : string := %s." % (k, cq(t[k])))
    for k in ("sig_allowed", "digest_allowed"):
        L.append("Definition %s : list string := %s." % (k, cq(t[k])))
    for k in ("SCM_BEARER", "NAMEID_FORMAT_PERSISTENT", "NAMEID_FORMAT_TRANSIENT", "NAMEID_FORMAT_EMAILADDRESS"):
        L.append("Definition %s : string := %s." % (k, cq(t[k])))
    changed = common.write_if_changed(os.path.join(common.GEN, "C09Tables.v"), "\n".join(L) + "\n")
    ab = ["(* GENERATED by harness/c09.py: names for frequently used strings (keeps the case files fast to parse). *)",
          "From Coq Require Import String.", "Open Scope string_scope.", ""]
    for x, name in abbr().items():
        ab.append("Definition %s := %s." % (name, common.cq_str(x)))
    common.write_if_changed(os.path.join(common.GEN, "C09Abbrev.v"), "\n".join(ab) + "\n")
    # translator v2: decision functions of the anchored code as they read NOW -> coq/gen/C09Src2.v
    # (C09/Source2.v proves each equal to the model function it mirrors, for all inputs)
    from harness import py2coq2
    src2 = py2coq2.regenerate(os.path.join(common.GEN, "C09Src2.v"), src2_items())
    src2g = regenerate_gather(os.path.join(common.GEN, "C09Src2g.v"))
    src2e = py2coq2.regenerate(os.path.join(common.GEN, "C09Src2e.v"), src2e_items())
    for k in ("obligations", "discharged"):
        src2g[k] += src2e[k]
    for k in ("untranslatable", "translated"):
        src2g[k] = list(src2g[k]) + list(src2e[k])
    src2g["changed"] = bool(src2g["changed"]) or bool(src2e["changed"])
    return {"file": "coq/gen/C09Tables.v", "param_defaults": {k: repr(v) for k, v in pd.items()},
            "lifetime_default": t["lifetime_default"],
            "changed": bool(changed) or bool(src2["changed"]) or bool(src2g["changed"]),
            "obligations": 1 + src2["obligations"] + src2g["obligations"],
            "discharged": 1 + src2["discharged"] + src2g["discharged"],
            "untranslatable": list(src2["untranslatable"]) + list(src2g["untranslatable"]),
            "translated": list(src2["translated"]) + list(src2g["translated"]), "source2": src2, "source2g": src2g}


# ------------------------------------------------------------------------------ translator v2: specs
ENTITY_PY = os.path.join(env.SRC, "saml2", "entity.py")
IDENT_PY = os.path.join(env.SRC, "saml2", "ident.py")
ARGTREE_PY = os.path.join(env.SRC, "saml2", "argtree.py")


def src2_items():
    """[(source file, qualified name, spec)] for harness/py2coq2.py.  External calls (metadata lookups, object
    construction, crypto, the identifier store, time) become extra parameters of the Gallina definitions, which
    C09/Source2.v quantifies over (Section variables + hypotheses).  Module constants (saml.NAMEID_FORMAT_*,
    saml.SCM_*, SIG_ALLOWED_ALG, DIGEST_ALLOWED_ALG) are inlined with their LIVE values."""
    from harness.py2coq2 import cstr
    import saml2.saml as S
    import saml2.xmldsig as ds

    consts = {}
    for n in dir(S):
        if n.startswith(("NAMEID_FORMAT_", "SCM_")) and isinstance(getattr(S, n), str):
            consts["saml." + n] = consts[n] = "(PStr %s)" % cstr(getattr(S, n))

    def pairs(table):
        if not all(isinstance(p, tuple) and len(p) == 2 and all(isinstance(x, str) for x in p) for p in table):
            raise RuntimeError("unexpected shape of an allowed-algorithm table")
        return "(PList [%s])" % "; ".join("PList [PStr %s; PStr %s]" % (cstr(a), cstr(b)) for a, b in table)

    def kwlist(kw):
        return "[%s]" % "; ".join("(%s, %s)" % (cstr(k), v) for k, v in sorted(kw.items()))

    ri = ("registration_info", "pyval -> pyval -> pyval")
    policy_get = lambda a: "(src2_policy_get registration_info v_self %s %s %s)" % tuple(a)
    return [
        # Policy.get: most specific section (requester > registration authority > default/"") as a whole
        (ASSERTION_PY, "Policy.get", {
            "name": "src2_policy_get", "params": ["self", "attribute", "sp_entity_id", "default"], "extra_params": [ri],
            "calls": {"self.metadata_store.registration_info":
                      lambda a: '(registration_info (p2_attr v_self "metadata_store") %s)' % a[0]}}),
        (ASSERTION_PY, "Policy.get_nameid_format", {
            "name": "src2_get_nameid_format", "params": ["self", "sp_entity_id"], "extra_params": [ri],
            "globals": consts, "calls": {"self.get": policy_get}}),
        (ASSERTION_PY, "Policy.get_lifetime", {
            "name": "src2_get_lifetime", "params": ["self", "sp_entity_id"], "extra_params": [ri],
            "globals": consts, "calls": {"self.get": policy_get}}),
        # Policy.conditions: NotBefore / NotOnOrAfter / one AudienceRestriction with the requester
        (ASSERTION_PY, "Policy.conditions", {
            "name": "src2_conditions", "params": ["self", "sp_entity_id"],
            "extra_params": [("factory", "pyval -> list (string * pyval) -> pyval"), ("instant", "pyval"),
                             ("not_on_or_after", "pyval -> pyval -> pyval")],
            "globals": {"saml.Conditions": '(PStr "Conditions")', "saml.AudienceRestriction": '(PStr "AudienceRestriction")',
                        "saml.Audience": '(PStr "Audience")'},
            "calls": {"factory": lambda a, kw: "(factory %s %s)" % (a[0], kwlist(kw)) if len(a) == 1 else "PErr",
                      "instant": lambda a: "instant" if not a else "PErr",
                      "self.not_on_or_after": lambda a: "(not_on_or_after v_self %s)" % a[0]}}),
        # Entity._issuer: the given issuer, else the configured entity id
        (ENTITY_PY, "Entity._issuer", {
            "name": "src2_issuer", "params": ["self", "entityid"], "extra_params": [("mk_issuer", "list (string * pyval) -> pyval")],
            "classes": {"Issuer": ["Issuer"]}, "globals": {"NAMEID_FORMAT_ENTITY": "(PStr %s)" % cstr(S.NAMEID_FORMAT_ENTITY)},
            "calls": {"Issuer": lambda a, kw: "(mk_issuer %s)" % kwlist(kw) if not a else "PErr"}}),
        # Entity.sign: argument > entity algorithm, the allowed-list tests, what is handed to the signer
        (ENTITY_PY, "Entity.sign", {
            "name": "src2_sign", "params": ["self", "msg", "mid", "to_sign", "sign_prepare", "sign_alg", "digest_alg"],
            "extra_params": [("pre_signature_part", "pyval -> pyval -> pyval -> pyval -> pyval -> pyval"),
                             ("class_name", "pyval -> pyval"), ("signed_instance_factory", "pyval -> pyval -> pyval -> pyval")],
            "globals": {"SIG_ALLOWED_ALG": pairs(ds.SIG_ALLOWED_ALG), "DIGEST_ALLOWED_ALG": pairs(ds.DIGEST_ALLOWED_ALG)},
            "calls": {"pre_signature_part": lambda a, kw: "(pre_signature_part %s %s %s %s %s)" % (
                          a[0], a[1], a[2], kw["sign_alg"], kw["digest_alg"]) if len(a) == 3 and sorted(kw) == ["digest_alg", "sign_alg"] else "PErr",
                      "class_name": lambda a: "(class_name %s)" % a[0],
                      "signed_instance_factory": lambda a: "(signed_instance_factory %s %s %s)" % tuple(a)}}),
        # IdentDB.nim_args: format and SPNameQualifier of a constructed identifier
        (IDENT_PY, "IdentDB.nim_args", {
            "name": "src2_nim_args", "params": ["self", "local_policy", "sp_name_qualifier", "name_id_policy", "name_qualifier"],
            "extra_params": [ri], "exc_parents": {"SAMLError": ["Exception"]},
            "calls": {"local_policy.get_nameid_format":
                      lambda a: "(src2_get_nameid_format registration_info v_local_policy %s)" % a[0]}}),
        # IdentDB.get_nameid: re-use of a persistent identifier, the e-mail domain test, construction
        (IDENT_PY, "IdentDB.get_nameid", {
            "name": "src2_get_nameid", "params": ["self", "userid", "nformat", "sp_name_qualifier", "name_qualifier"],
            "extra_params": [("match_local_id", "pyval -> pyval -> pyval -> pyval -> pyval"),
                             ("create_id", "pyval -> pyval -> pyval -> pyval"), ("store", "pyval -> pyval -> pyval"),
                             ("mk_nameid", "list (string * pyval) -> pyval")],
            "globals": consts, "exc_parents": {"SAMLError": ["Exception"]},
            "calls": {"self.match_local_id": lambda a: "(match_local_id v_self %s %s %s)" % tuple(a),
                      "self.create_id": lambda a: "(create_id %s %s %s)" % tuple(a),
                      "self.store": lambda a: "(store %s %s)" % tuple(a),
                      "NameID": lambda a, kw: "(mk_nameid %s)" % kwlist(kw) if not a else "PErr"}}),
        # argtree.is_set: the test update_farg() makes before it fills in a confirmation argument
        (ARGTREE_PY, "is_set", {"name": "src2_is_set", "params": ["tdict", "path"]}),
    ]


def src2e_items():
    """the receiving side's reading of its own consumer endpoints (-> coq/gen/C09Src2e.v, C09/Source2e.v):
    config.py Config.endpoint and client_base.py Base.service_urls; Config.getattr and type() are externals."""
    sdir = os.path.join(env.SRC, "saml2")
    ext = [("getattr_ext", "pyval -> pyval -> pyval -> pyval"), ("type_ext", "pyval -> pyval")]
    return [
        (os.path.join(sdir, "config.py"), "Config.endpoint", {
            "name": "src2_endpoint", "params": ["self", "service", "binding", "context"], "extra_params": ext,
            "calls": {"self.getattr": lambda a: "(getattr_ext v_self %s %s)" % tuple(a), "type": lambda a: "(type_ext %s)" % a[0]},
            "globals": {"tuple": '(PStr "tuple")', "list": '(PStr "list")'}}),
        (os.path.join(sdir, "client_base.py"), "Base.service_urls", {
            "name": "src2_service_urls", "params": ["self", "binding"], "extra_params": ext,
            "calls": {"self.config.endpoint":
                      lambda a: '(src2_endpoint getattr_ext type_ext (p2_attr v_self "config") %s %s %s)' % tuple(a)}}),
    ]


class _CallShapes(ast.NodeTransformer):
    """Two call shapes that py2coq2 refuses, rewritten into calls of spec'd externals before translation.  Both
    concern only HOW an external callee is reached, never a decision of the function:
      self.ident.find_nameid(userid, **kwa)                -> self.ident.find_nameid(userid, kwa)
          (the keyword dict is handed to the external as one dict value)
      args["policy"].get_nameid_format(sp_entity_id)       -> policy_get_nameid_format(args["policy"], sp_entity_id)
          (a method call on a subscript: receiver first)"""

    def visit_Call(self, node):
        self.generic_visit(node)
        from harness.py2coq2 import _dotted
        if _dotted(node.func) == "self.ident.find_nameid" and any(k.arg is None for k in node.keywords):
            stars = [k.value for k in node.keywords if k.arg is None]
            if len(stars) == 1 and len(node.keywords) == 1:
                return ast.copy_location(ast.Call(func=node.func, args=list(node.args) + stars, keywords=[]), node)
        if isinstance(node.func, ast.Attribute) and node.func.attr == "get_nameid_format" \
                and isinstance(node.func.value, ast.Subscript) and not node.keywords:
            f = ast.copy_location(ast.Name(id="policy_get_nameid_format", ctx=ast.Load()), node.func)
            return ast.copy_location(ast.Call(func=f, args=[node.func.value] + list(node.args), keywords=[]), node)
        return node


def gather_spec():
    return {"name": "src2_gather", "params": ["self", "sp_entity_id", "name_id_policy", "userid", "kwargs"],
            "attr_errors": True,
            "extra_params": [("registration_info", "pyval -> pyval -> pyval"), ("cfg_getattr", "pyval -> pyval -> pyval -> pyval"),
                             ("enc_cert_ok", "pyval -> pyval"), ("find_nameid", "pyval -> pyval -> pyval -> pyval"),
                             ("construct_nameid", "pyval -> pyval -> pyval -> pyval -> pyval -> pyval")],
            "exc_parents": {"SAMLError": ["Exception"], "SigverError": ["SAMLError", "Exception"],
                            "CertificateError": ["SigverError", "SAMLError", "Exception"]},
            "calls": {"self.config.getattr": lambda a: '(cfg_getattr (p2_attr_x v_self "config") %s %s)' % tuple(a),
                      "_enc_cert": lambda a: "(enc_cert_ok %s)" % a[0],
                      "self.ident.find_nameid": lambda a: '(find_nameid (p2_attr_x v_self "ident") %s %s)' % tuple(a),
                      "self.ident.construct_nameid":
                          lambda a: '(construct_nameid (p2_attr_x v_self "ident") %s %s %s %s)' % tuple(a),
                      "policy_get_nameid_format": lambda a: "(src2_get_nameid_format registration_info %s %s)" % tuple(a)}}


def regenerate_gather(gen_path):
    """Server.gather_authn_response_args -> coq/gen/C09Src2g.v, through py2coq2.translate_def after _CallShapes
    (fail-closed like py2coq2.regenerate: what cannot be translated becomes a poisoned definition)."""
    from harness import py2coq2
    q, spec = "Server.gather_authn_response_args", gather_spec()
    failed = []
    try:
        with open(SERVER_PY) as f:
            fn = py2coq2.find_function(ast.parse(f.read()), q)
        fn = ast.fix_missing_locations(_CallShapes().visit(fn))
        body = py2coq2.translate_def(fn, spec, "saml2/server.py:%s (call shapes rewritten by harness/c09.py)" % q)
    except (py2coq2.Untranslatable, OSError, SyntaxError) as e:
        failed.append("%s: %s" % (q, e))
        body = py2coq2.poison(q, spec, str(e))
    txt = py2coq2.HEADER + "From VerifGen Require Import C09Src2.\n\n" + body
    changed = common.write_if_changed(gen_path, txt)
    return {"translated": [q], "untranslatable": failed, "changed": changed, "obligations": 1,
            "discharged": 1 - len(failed)}


# ------------------------------------------------------------------------------ the little federation
IDP = world.IDP_ID
POST, REDIRECT = world.BINDING_HTTP_POST, world.BINDING_HTTP_REDIRECT
REQUESTERS = {
    world.SP_ID: (world.SP_ACS_POST, world.SP_ACS_REDIRECT),
    "https://sp2.example.org/metadata": ("https://sp2.example.org/acs/post", "https://sp2.example.org/acs/redirect"),
    "urn:example:sp:three": ("https://three.example.net/saml/acs", "https://three.example.net/saml/acs-r"),
}
RA = "https://fed.example.org/ra"
AFF = "urn:example:affiliation:1"
NOW = spaccept.NOW
NF_T = "urn:oasis:names:tc:SAML:2.0:nameid-format:transient"
NF_P = "urn:oasis:names:tc:SAML:2.0:nameid-format:persistent"
NF_E = "urn:oasis:names:tc:SAML:1.1:nameid-format:emailAddress"
NF_U = "urn:oasis:names:tc:SAML:1.1:nameid-format:unspecified"
AC_PW = "urn:oasis:names:tc:SAML:2.0:ac:classes:Password"
AC_PPT = "urn:oasis:names:tc:SAML:2.0:ac:classes:PasswordProtectedTransport"
SCM_SV = "urn:oasis:names:tc:SAML:2.0:cm:sender-vouches"
MD5 = "http://www.w3.org/2001/04/xmldsig-more#rsa-md5"
DMD5 = "http://www.w3.org/2001/04/xmldsig-more#md5"
SHA256 = "http://www.w3.org/2001/04/xmldsig-more#rsa-sha256"
DSHA512 = "http://www.w3.org/2001/04/xmlenc#sha512"
ATTR_NAMES = ["mail", "givenName", "sn", "cn", "displayName", "eduPersonAffiliation", "uid", "title", "o",
              "eduPersonScopedAffiliation"]
CFGV = [None, True, False, "true", "false", "", "yes"]      # None = not configured
ARGV = [None, True, False]
OPTV = [None, True, False, "true"]                            # SP want_* options
# process time zones (POSIX TZ strings; None = the zone the check was started in): UTC spelled out, west, east,
# fractional offsets, the two extremes (UTC-12 / UTC+14), daylight-saving rules of both hemispheres
ZONES = [None, "UTC0", "EST5", "JST-9", "NPT-5:45", "CET-1CEST,M3.5.0,M10.5.0/3", "EST5EDT,M3.2.0,M11.1.0", "LINT-14",
         "AOE12", "NST3:30NDT,M3.2.0,M11.1.0", "<+1030>-10:30<+11>-11,M10.1.0,M4.1.0"]
SUMMER = 1689000000          # 2023-07-10T14:40:00Z (daylight saving in force in the northern rules)
CET_BACK = 1698541200        # 2023-10-29T01:00:00Z: CEST -> CET (local 03:00 -> 02:00)
US_BACK = 1699164000         # 2023-11-05T06:00:00Z: EDT -> EST (local 02:00 -> 01:00)
US_FWD = 1710054000          # 2024-03-10T07:00:00Z: EST -> EDT


def acs_spec(e):
    """an endpoint specification of a case -> the Python value written into the configuration.
    ["bare", url] | ["pair", "tuple"|"list", url, binding] | ["triple", "tuple"|"list", url, binding, index]"""
    if e[0] == "bare":
        return e[1]
    v = list(e[2:])
    return tuple(v) if e[1] == "tuple" else v


def default_acs(entity_id):
    post, red = REQUESTERS[entity_id]
    return [["pair", "tuple", post, POST], ["pair", "tuple", red, REDIRECT]]


def publish(acs):
    """what the requester's metadata shows for these specifications, by the documentation (docs/howto/config.rst,
    'endpoints'; written independently of saml2.metadata.do_endpoints): (binding, location, index) per specification,
    a bare URL under the default binding of the service, a missing index 'based on the position in the list'."""
    out, i = [], 1
    for e in acs:
        if e[0] == "bare":
            out.append((live_values()["acs_default_binding"], e[1], i))
            i += 1
        elif e[0] == "pair":
            out.append((e[3], e[2], i))
            i += 1
        else:
            out.append((e[3], e[2], int(e[4])))
    return out


def sp_md(entity_id, ra=None, acs=None):
    x = world.sp_descriptor(entity_id, [("sp", None)], acs=publish(acs if acs is not None else default_acs(entity_id)))
    if ra is not None:
        ext = ('<md:Extensions><mdrpi:RegistrationInfo xmlns:mdrpi="urn:oasis:names:tc:SAML:metadata:rpi" '
               'registrationAuthority=%s/></md:Extensions>' % quoteattr(ra))
        x = x.replace("<md:SPSSODescriptor", ext + "<md:SPSSODescriptor", 1)
    return x


def py_policy(pol):
    """[[key, None | {"lifetime": [[unit, n]..] | None, "nameid_format": str | None}], ..] -> config dict."""
    if pol is None:
        return None
    out = {}
    for k, sec in pol:
        if sec is None:
            out[k] = None
            continue
        d = {}
        if sec.get("lifetime") is not None:
            d["lifetime"] = {u: n for u, n in sec["lifetime"]}
        if sec.get("nameid_format") is not None:
            d["nameid_format"] = sec["nameid_format"]
        if sec.get("other"):
            d["name_form"] = "urn:oasis:names:tc:SAML:2.0:attrname-format:uri"
        out[k] = d
    return out


_idp_cache = {}
_memo_installed = False


def _memo_keys():
    """Parsing a PEM private key costs ~50 ms (RSA consistency check) and happens for every entity built and
    every signature made; the parser is a pure function of the file content, so it is memoised for the run."""
    global _memo_installed
    if _memo_installed:
        return
    import cryptography.hazmat.primitives.serialization as ser

    orig, memo = ser.load_pem_private_key, {}

    def load_pem_private_key(data, password=None, *a, **kw):
        k = (bytes(data), password)
        if a or kw or k not in memo:
            key = orig(data, password, *a, **kw)
            if a or kw:
                return key
            memo[k] = key
        return memo[k]

    ser.load_pem_private_key = load_pem_private_key
    _memo_installed = True


def get_idp(case):
    cfg = case["cfg"]
    s = case["spside"]
    acs_of = {s["me"]: s["acs"]} if s is not None and s.get("acs") is not None else {}
    key = json.dumps([cfg, case["ra"], case["args"]["sp"], acs_of], sort_keys=True)
    idp = _idp_cache.get(key)
    if idp is None:
        over = {}
        for k_case, k_conf in (("sr", "idp_sign_response"), ("sa", "idp_sign_assertion"), ("domain", "idp_domain"),
                               ("salg", "idp_signing_algorithm"), ("dalg", "idp_digest_algorithm")):
            if cfg[k_case] is not None:
                over[k_conf] = cfg[k_case]
        over["idp_policy"] = py_policy(cfg["pol"])
        mds = [sp_md(e, case["ra"] if e == case["args"]["sp"] else None, acs_of.get(e)) for e in REQUESTERS]
        idp = world.make_idp(metadata_xml=mds, **over)
        if len(_idp_cache) > 64:
            _idp_cache.clear()
        _idp_cache[key] = idp
    idp.ident.db = {}
    return idp


# ------------------------------------------------------------------------------ the independent reader
NS_A = "{urn:oasis:names:tc:SAML:2.0:assertion}"
NS_P = "{urn:oasis:names:tc:SAML:2.0:protocol}"
NS_D = "{http://www.w3.org/2000/09/xmldsig#}"


class Malformed(Exception):
    pass


def _iso(s):
    import calendar
    import time

    if s is None:
        raise Malformed("time missing")
    try:
        return calendar.timegm(time.strptime(s, "%Y-%m-%dT%H:%M:%SZ"))
    except ValueError:
        raise Malformed("time %r" % s)


def _one(el, tag, optional=False):
    l = el.findall(tag)
    if len(l) > 1 or (not l and not optional):
        raise Malformed("%d x %s" % (len(l), tag))
    return l[0] if l else None


def _only_children(el, allowed):
    for ch in el:
        if ch.tag not in allowed:
            raise Malformed("unexpected %s in %s" % (ch.tag, el.tag))


def _signature(xml_bytes, el, elem_name):
    """None = the element carries no signature; (sig alg, digest alg) = it carries one enveloped signature over
    itself which verifies under the IdP certificate (stand-in); anything else is malformed."""
    sigs = el.findall(NS_D + "Signature")
    if not sigs:
        return None
    if len(sigs) > 1:
        raise Malformed("two signatures")
    si = _one(sigs[0], NS_D + "SignedInfo")
    ref = _one(si, NS_D + "Reference")
    if ref.get("URI") != "#" + (el.get("ID") or ""):
        raise Malformed("signature reference %r" % ref.get("URI"))
    alg = _one(si, NS_D + "SignatureMethod").get("Algorithm")
    dig = _one(ref, NS_D + "DigestMethod").get("Algorithm")
    m = env.standin()
    opts = {"id_attrs": [("ID", elem_name)], "node_id": el.get("ID"), "pubkey_cert": fixtures.cert_path("idp"),
            "enabled_key_data": ["raw-x509-cert"], "files": []}
    try:
        out, _, _ = m.do_verify(opts, xml_bytes)
    except m.XErr as e:
        raise Malformed("signature check: %s" % e)
    if out is None:
        raise Malformed("signature does not verify")
    return [alg, dig]


def read_response(xml_text):
    """Abstract record of a Response, using xml.etree only."""
    xml_bytes = xml_text.encode("utf-8") if isinstance(xml_text, str) else xml_text
    root = ET.fromstring(xml_bytes)
    if root.tag != NS_P + "Response":
        raise Malformed("root %s" % root.tag)
    _only_children(root, {NS_A + "Issuer", NS_D + "Signature", NS_P + "Status", NS_A + "Assertion"})
    if root.get("Version") != "2.0":
        raise Malformed("version")
    st = _one(root, NS_P + "Status")
    if _one(st, NS_P + "StatusCode").get("Value") != "urn:oasis:names:tc:SAML:2.0:status:Success" or len(st) != 1:
        raise Malformed("status")
    r = {"r_issuer": _one(root, NS_A + "Issuer").text, "r_irt": root.get("InResponseTo"),
         "r_dest": root.get("Destination"), "r_issue": _iso(root.get("IssueInstant")),
         "s_response": _signature(xml_bytes, root, render.R_ELEM)}
    a = _one(root, NS_A + "Assertion")
    _only_children(a, {NS_A + "Issuer", NS_D + "Signature", NS_A + "Subject", NS_A + "Conditions",
                       NS_A + "AuthnStatement", NS_A + "AttributeStatement"})
    if a.get("Version") != "2.0" or _iso(a.get("IssueInstant")) != r["r_issue"]:
        raise Malformed("assertion header")
    r["i_issuer"] = _one(a, NS_A + "Issuer").text
    r["s_assertion"] = _signature(xml_bytes, a, render.A_ELEM)
    subj = _one(a, NS_A + "Subject")
    _only_children(subj, {NS_A + "NameID", NS_A + "SubjectConfirmation"})
    n = _one(subj, NS_A + "NameID")
    r["nid"] = {"format": n.get("Format"), "spnq": n.get("SPNameQualifier"), "nq": n.get("NameQualifier")}
    r["nid_text"] = n.text or ""
    sc = _one(subj, NS_A + "SubjectConfirmation")
    r["i_method"] = sc.get("Method")
    scd = _one(sc, NS_A + "SubjectConfirmationData")
    if set(scd.keys()) - {"NotOnOrAfter", "Recipient", "InResponseTo"} or len(scd):
        raise Malformed("confirmation data %r" % sorted(scd.keys()))
    r["i_recipient"], r["i_irt"], r["i_nooa_sc"] = scd.get("Recipient"), scd.get("InResponseTo"), _iso(scd.get("NotOnOrAfter"))
    c = _one(a, NS_A + "Conditions")
    _only_children(c, {NS_A + "AudienceRestriction"})
    r["i_nb"], r["i_nooa_cond"] = _iso(c.get("NotBefore")), _iso(c.get("NotOnOrAfter"))
    r["i_aud"] = [[(x.text or "") for x in ar.findall(NS_A + "Audience")] for ar in c.findall(NS_A + "AudienceRestriction")]
    au = _one(a, NS_A + "AuthnStatement", optional=True)
    if au is None:
        r["i_authn"] = None
    else:
        if au.get("SessionNotOnOrAfter") is not None or _iso(au.get("AuthnInstant")) != r["r_issue"]:
            raise Malformed("authn statement")
        ctx = _one(au, NS_A + "AuthnContext", optional=True)
        if ctx is None:
            r["i_authn"] = [None, None]
        else:
            cr = _one(ctx, NS_A + "AuthnContextClassRef", optional=True)
            aa = _one(ctx, NS_A + "AuthenticatingAuthority", optional=True)
            r["i_authn"] = [cr.text if cr is not None else None, aa.text if aa is not None else None]
    ats = _one(a, NS_A + "AttributeStatement", optional=True)
    attrs = {}
    if ats is not None:
        for at in ats:
            if at.tag != NS_A + "Attribute":
                raise Malformed("attribute statement child %s" % at.tag)
            k = at.get("FriendlyName") or at.get("Name")
            if k in attrs:
                raise Malformed("attribute twice")
            attrs[k] = [(v.text or "") for v in at.findall(NS_A + "AttributeValue")]
    r["attrs"] = sorted([k, v] for k, v in attrs.items())
    return r


# ------------------------------------------------------------------------------ process time zone
class in_zone:
    """Run a block with the process time zone set to a POSIX TZ string (None = leave it alone); restored after."""

    def __init__(self, tz):
        self.tz = tz

    def __enter__(self):
        import time

        self.old = os.environ.get("TZ")
        if self.tz is not None:
            os.environ["TZ"] = self.tz
            time.tzset()

    def __exit__(self, *exc):
        import time

        if self.tz is not None:
            if self.old is None:
                os.environ.pop("TZ", None)
            else:
                os.environ["TZ"] = self.old
            time.tzset()
        return False


_zo = {}


def zone_offset(tz, t):
    """Seconds east of UTC of the wall clock of zone tz at instant t (libc: tm_gmtoff)."""
    import time

    if (tz, t) not in _zo:
        with in_zone(tz):
            _zo[(tz, t)] = int(time.localtime(t).tm_gmtoff)
    return _zo[(tz, t)]


def local_clock():
    """LOCAL extension of env.VClock (env.py is shared, read-only; same as harness/c07.py:local_clock): its datetime
    stand-in answers now() without a zone with the UTC wall time, which hides a change from utcnow() to now() from
    the time-zone dimension.  Here now() / today() without a zone are what they really are: the wall time of the
    process time zone at the virtual instant (fromtimestamp and time.localtime already follow TZ)."""
    import saml2.time_util as tu

    if getattr(tu.datetime, "_c09_local", False):
        return
    clock = spaccept.CLOCK

    class LocalVDateTime(tu.datetime):
        _c09_local = True

        @classmethod
        def now(cls, tz=None):
            return cls.fromtimestamp(clock.now, tz)

        @classmethod
        def today(cls):
            return cls.fromtimestamp(clock.now)

    tu.datetime = LocalVDateTime


def case_tz(case):
    tz = case.get("tz") or {}
    return tz.get("idp"), tz.get("sp")


# ------------------------------------------------------------------------------ observe
def _farg_dict(f):
    if f is None:
        return None
    if f == "empty":
        return {}
    sc = {}
    if f["method"] is not None:
        sc["method"] = f["method"]
    scd = {}
    if f["irt"] is not None:
        scd["in_response_to"] = f["irt"]
    if f["recipient"] is not None:
        scd["recipient"] = f["recipient"]
    if scd:
        sc["subject_confirmation_data"] = scd
    return {"assertion": {"subject": {"subject_confirmation": sc}}}


def sp_over(case):
    s = case["spside"]
    acs = s["acs"] if s.get("acs") is not None else default_acs(s["me"])
    over = {"entityid": s["me"], "metadata_xml": [world.default_idp_md(), world.default_other_md()],
            "sp_endpoints": {"assertion_consumer_service": [acs_spec(e) for e in acs],
                             "single_logout_service": [(world.SP_SLO_REDIRECT, REDIRECT)]}}
    for k, ck in (("wr", "sp_want_response_signed"), ("wa", "sp_want_assertions_signed"),
                  ("wor", "sp_want_assertions_or_response_signed")):
        if s[k] is not None:
            over[ck] = s[k]
    if s["atd"] is not None:
        over["accepted_time_diff"] = s["atd"]
    if s["allow_unsolicited"]:
        over["sp_allow_unsolicited"] = True
    return over


def observe(case):
    env.install_standin()
    spaccept.CLOCK.install()
    local_clock()
    _memo_keys()
    tz_idp, tz_sp = case_tz(case)
    try:
        with in_zone(tz_idp):
            out, xml = _observe_idp(case)
        if xml is not None and case["spside"] is not None:
            with in_zone(tz_sp):
                _observe_sp(case, xml, out)
        return out
    finally:
        spaccept.CLOCK.set(NOW)


def _observe_idp(case):
    """-> (observation, XML of the Response or None); runs inside the issuing process's time zone."""
    from saml2 import SAMLError
    from saml2.assertion import Policy
    from saml2.saml import NameID
    from saml2.samlp import NameIDPolicy

    a = case["args"]
    spaccept.CLOCK.set(case["now"])
    idp = get_idp(case)
    for k, st in enumerate(case["stored"]):
        idp.ident.store(a["userid"], NameID(format=st["format"], sp_name_qualifier=st["spnq"],
                                             name_qualifier=st["nq"], text="stored-%d" % k))
    kw = {}
    if a["nip"] is not None:
        kw["name_id_policy"] = NameIDPolicy(format=a["nip"]["format"], sp_name_qualifier=a["nip"]["spnq"])
    if a["name_id"] is not None:
        g = a["name_id"]
        kw["name_id"] = NameID(format=g["format"], sp_name_qualifier=g["spnq"], name_qualifier=g["nq"], text="given-1")
    if a["authn"] is not None:
        kw["authn"] = {k: v for k, v in (("class_ref", a["authn"][0]), ("authn_auth", a["authn"][1])) if v is not None}
    for k in ("issuer", "sign_response", "sign_assertion", "sign_alg", "digest_alg"):
        if a[k] is not None:
            kw[k] = a[k]
    if a["pol"] is not None:
        kw["release_policy"] = Policy(py_policy(a["pol"]), mds=idp.metadata)
    if a["farg"] is not None:
        kw["farg"] = _farg_dict(a["farg"])
    ident = {k: list(v) for k, v in a["ident"]}
    out = {"k": "issued"}
    try:
        resp = idp.create_authn_response(ident, a["irt"], a["dest"], a["sp"], userid=a["userid"], **kw)
    except SAMLError as e:
        return ({"k": "error", "e": "ENameId"} if type(e) is SAMLError else {"k": "other", "why": "exc:" + type(e).__name__}), None
    except Exception as e:  # noqa
        return ({"k": "error", "e": "EAlg"} if type(e) is Exception else {"k": "other", "why": "exc:" + type(e).__name__}), None
    xml = str(resp)
    try:
        out.update(read_response(xml))
    except Malformed as e:
        return {"k": "other", "why": "malformed:%s" % e}, None
    t = out.pop("nid_text")
    if t == "given-1":
        out["src"] = "given"
    elif t.startswith("stored-"):
        out["src"] = int(t[len("stored-"):])
    elif len(t) >= 64 and all(c in "0123456789abcdef" for c in t[:64]):
        out["src"] = "fresh"
    else:
        return {"k": "other", "why": "name id text"}, None
    return out, xml


def _observe_sp(case, xml, out):
    """the same XML shown to a real service provider, inside the receiving process's time zone."""
    s = case["spside"]
    sp = spaccept.get_sp(sp_over(case))
    spaccept.CLOCK.set(s["now"])
    outstanding = {k: v for k, v in s["outstanding"]}
    binding = s["binding"]
    enc = render.b64(xml) if binding == POST else render.deflate_b64(xml)
    o = spaccept.observe(sp, xml, binding, outstanding, encoded=enc)
    if o["exc"] is None and o["ava"] is not None and o["nooa"] is not None and o["name_id"] is not None:
        out["sp"] = {"ava": sorted([k, list(v)] for k, v in o["ava"].items()), "nooa": o["nooa"],
                     "came_from": o["came_from"]}
    else:
        out["sp"] = None
        out["sp_exc"] = o["exc"]


# ------------------------------------------------------------------------------ Coq terms
def abbr_strings():
    """Strings that occur in (nearly) every case get a name in coq/gen/C09Abbrev.v: Coq parses a string literal
    character by character, which dominated the evaluation time.  The list is static (independent of the seed)."""
    t = live_values()
    out = []
    for x in ([IDP, POST, REDIRECT, RA, AFF, NF_T, NF_P, NF_E, NF_U, AC_PW, AC_PPT, SCM_SV, MD5, DMD5, render.SCM_BEARER,
               "https://idp.example.org/authority", "https://elsewhere.example.org/acs", world.OTHER_ID,
               "https://nobody.example.org/", "https://a.example.org", "/came/from", "req-1", "req-2", "other-req",
               "default", "example.org", "a@example.org"]
              + list(REQUESTERS) + [u for v in REQUESTERS.values() for u in v] + t["sig_allowed"] + t["digest_allowed"]
              + [u + x for v in REQUESTERS.values() for u in v for x in ("-b", "-c")] + [world.SP_SLO_REDIRECT]
              + ["weeks", "days", "hours", "minutes", "seconds", "milliseconds", "microseconds"] + ATTR_NAMES
              + [v for v in UNI if all(0x20 <= ord(c) <= 0x7E for c in v)]):
        if x not in out:
            out.append(x)
    return out


_ABBR = None


def abbr():
    global _ABBR
    if _ABBR is None:
        _ABBR = {x: "z%d" % i for i, x in enumerate(abbr_strings())}
    return _ABBR


def cs(x):
    a = abbr().get(x)
    return Raw(a) if a is not None else Raw(common.cq_str(x))


def cso(x):
    if x is None:
        return Raw("None")
    if isinstance(x, bool):
        return Raw("(Some %s)" % cq(x))
    if isinstance(x, int):
        return Raw("(Some %s)" % cq(x))
    return Raw("(Some %s)" % cs(x))


def cq_cfgv(v):
    if v is None:
        return Raw("Unset")
    if isinstance(v, bool):
        return Raw("(CB %s)" % cq(v))
    return Raw("(CS %s)" % cs(v))


def cq_optv(v):
    if v is None:
        return Raw("C01.Model.Unset")
    if isinstance(v, bool):
        return Raw("(C01.Model.B %s)" % cq(v))
    assert v == "true"
    return Raw("C01.Model.StrTrue")


def cq_pol(pol):
    out = []
    for k, sec in (pol or []):
        if sec is None:
            out.append(Raw("(%s, None)" % cs(k)))
        else:
            lt = sec.get("lifetime")
            lts = "None" if lt is None else "(Some %s)" % cq([(cs(u), n) for u, n in lt])
            out.append(Raw("(%s, Some (mk_sec %s %s %s))" % (cs(k), lts, cso(sec.get("nameid_format")), cq(bool(sec.get("other"))))))
    return cq(out)


def cq_nid(n):
    return Raw("(mk_nid %s %s %s)" % (cso(n["format"]), cso(n["spnq"]), cso(n["nq"])))


def cq_attrs(av):
    return cq([(cs(k), [cs(x) for x in v]) for k, v in av])


def cq_pairopt(p):
    return "None" if p is None else "(Some (%s, %s))" % (cso(p[0]), cso(p[1]))


def cq_algs(p):
    return "None" if p is None else "(Some (%s, %s))" % (cs(p[0]), cs(p[1]))


def cq_acs(acs):
    out = []
    for e in acs:
        if e[0] == "bare":
            out.append("ABare %s" % cs(e[1]))
        elif e[0] == "pair":
            out.append("APair %s %s" % (cs(e[2]), cs(e[3])))
        else:
            out.append("AIndexed %s %s %s" % (cs(e[2]), cs(e[3]), cs(str(e[4]))))
    return "[%s]" % "; ".join(out)


def coq_input(case):
    c, a = case["cfg"], case["args"]
    cfg = "(mk_cfg %s %s %s %s %s %s %s)" % (cs(IDP), cq_cfgv(c["sr"]), cq_cfgv(c["sa"]), cso(c["salg"]),
                                               cso(c["dalg"]), cq_pol(c["pol"]), cso(c["domain"]))
    nip = "None" if a["nip"] is None else "(Some (mk_nip %s %s))" % (cso(a["nip"]["format"]), cso(a["nip"]["spnq"]))
    nameid = "None" if a["name_id"] is None else "(Some %s)" % cq_nid(a["name_id"])
    pol = "None" if a["pol"] is None else "(Some %s)" % cq_pol(a["pol"])
    if a["farg"] is None or a["farg"] == "empty":
        fa = "None"
    else:
        fa = "(Some (mk_farg %s %s %s))" % (cso(a["farg"]["method"]), cso(a["farg"]["irt"]), cso(a["farg"]["recipient"]))
    args = "(mk_args %s %s %s %s %s %s %s %s %s %s %s %s %s %s)" % (
        cq_attrs(a["ident"]), cso(a["irt"]), cs(a["dest"]), cs(a["sp"]), nip, nameid, cq_pairopt(a["authn"]),
        cso(a["issuer"]), cso(a["sign_response"]), cso(a["sign_assertion"]), cso(a["sign_alg"]),
        cso(a["digest_alg"]), pol, fa)
    return "(mk_in %s %s %s %s %s %s)" % (cfg, args, cso(case["ra"]), cq([cq_nid(n) for n in case["stored"]]), cq(case["now"]),
                                         cq(zone_offset(case_tz(case)[0], case["now"])))


def coq_outcome(obs):
    if obs["k"] == "error":
        return "(Error %s)" % obs["e"]
    if obs["k"] == "other":
        # a sentinel record that neither the model nor the spec can match
        z = "(mk_issued %s None None 0%%Z EmptyString [] None None None 0%%Z 0%%Z 0%%Z (mk_nid None None None) Given None [] None None)"
        return "(Issued %s)" % (z % cs("<<" + obs["why"] + ">>"))
    src = {"given": "Given", "fresh": "Fresh"}.get(obs["src"]) or "(Reused %d)" % obs["src"]
    return "(Issued (mk_issued %s %s %s %s %s %s %s %s %s %s %s %s %s %s %s %s %s %s))" % (
        cs(obs["r_issuer"] or ""), cso(obs["r_irt"]), cso(obs["r_dest"]), cq(obs["r_issue"]), cs(obs["i_issuer"] or ""),
        cq([[cs(y) for y in x] for x in obs["i_aud"]]), cso(obs["i_method"]), cso(obs["i_recipient"]), cso(obs["i_irt"]),
        cq(obs["i_nb"]), cq(obs["i_nooa_cond"]), cq(obs["i_nooa_sc"]), cq_nid(obs["nid"]), src, cq_pairopt(obs["i_authn"]),
        cq_attrs(obs["attrs"]), cq_algs(obs["s_response"]), cq_algs(obs["s_assertion"]))


def coq_case(case, obs):
    s = case["spside"]
    if s is None or obs["k"] != "issued":
        sp = "None"
    else:
        specs = cq_acs(s["acs"] if s.get("acs") is not None else default_acs(s["me"]))
        side = "(mk_sp %s %s %s %s %s %s %s %s %s %s %s %s)" % (
            cs(s["me"]), cs(IDP), specs, cs(s["binding"]), cq_optv(s["wr"]), cq_optv(s["wa"]), cq_optv(s["wor"]),
            cso(s["atd"]), cq(bool(s["allow_unsolicited"])), cq([(cs(k), cs(v)) for k, v in s["outstanding"]]), cq(s["now"]),
            cq(zone_offset(case_tz(case)[1], s["now"])))
        o = obs.get("sp")
        so = "None" if o is None else "(Some (%s, %s, %s))" % (cq_attrs(o["ava"]), cq(o["nooa"]), cso(o["came_from"]))
        sp = "(Some (%s, %s))" % (side, so)
    return "(%s, %s, %s)" % (coq_input(case), coq_outcome(obs), sp)


def explain_term(term):
    return "C09.Corr.explain (%s)" % term


# ------------------------------------------------------------------------------ generator
DEFAULT_POL = [["default", {"lifetime": [["minutes", 15]], "nameid_format": None, "other": True}]]


def mk_cfg(sr=None, sa=None, salg=None, dalg=None, pol="default", domain=None):
    return {"sr": sr, "sa": sa, "salg": salg, "dalg": dalg, "pol": copy.deepcopy(DEFAULT_POL) if pol == "default" else pol,
            "domain": domain}


def mk_args(**kw):
    a = {"ident": [["mail", ["a@example.org"]]], "irt": "req-1", "dest": world.SP_ACS_POST, "sp": world.SP_ID,
         "userid": "user-1", "nip": None, "name_id": None, "authn": [AC_PW, None], "issuer": None,
         "sign_response": None, "sign_assertion": None, "sign_alg": None, "digest_alg": None, "pol": None, "farg": None}
    a.update(kw)
    return a


def mk_spside(me=world.SP_ID, wr=None, wa=None, wor=None, dt=60, atd=None, allow_unsolicited=False,
              outstanding=(("req-1", "/came/from"),), binding=POST, now=NOW, acs=None):
    """acs = the requester's assertion_consumer_service specifications as configured (None = the usual two pairs)"""
    return {"me": me, "wr": wr, "wa": wa, "wor": wor, "atd": atd, "allow_unsolicited": allow_unsolicited,
            "outstanding": [list(x) for x in outstanding], "binding": binding, "now": now + dt, "acs": acs}


def mk_case(tag, cfg=None, args=None, ra=None, stored=(), now=NOW, spside=None, tz=(None, None)):
    return {"tag": tag, "cfg": cfg or mk_cfg(), "args": args or mk_args(), "ra": ra, "stored": list(stored), "now": now,
            "spside": spside, "tz": {"idp": tz[0], "sp": tz[1]}}


def nid(fmt, spnq, nq=IDP):
    return {"format": fmt, "spnq": spnq, "nq": nq}


WANTS = [(None, None, None), (False, None, None), (False, True, None), (None, True, None), (False, False, True),
         ("true", "true", None), (False, False, False)]


def gen_lattice(rng, thorough):
    """sign_response x sign_assertion, argument x configuration: 3*7*3*7 = 441 cells, each also shown to an SP."""
    out = []
    for sr_a in ARGV:
        for sr_c in CFGV:
            for sa_a in ARGV:
                for sa_c in CFGV:
                    w = rng.choice(WANTS)
                    out.append(mk_case("lattice", mk_cfg(sr=sr_c, sa=sa_c), mk_args(sign_response=sr_a, sign_assertion=sa_a),
                                       spside=mk_spside(wr=w[0], wa=w[1], wor=w[2])))
    return out


STORES = [
    [],
    [nid(NF_T, world.SP_ID)],
    [nid(NF_E, world.SP_ID), nid(NF_P, world.SP_ID)],
    [nid(NF_U, AFF), nid(NF_T, AFF), nid(NF_P, world.SP_ID, None)],
]
NID_POLS = [
    None,
    [["default", {"lifetime": None, "nameid_format": NF_P}]],
    [[world.SP_ID, {"lifetime": None, "nameid_format": NF_U}], ["default", {"lifetime": None, "nameid_format": NF_P}]],
    [[AFF, {"lifetime": None, "nameid_format": NF_E}], ["default", {"lifetime": [["minutes", 5]], "nameid_format": None}]],
]


def gen_nameid(rng, thorough):
    out = []
    nips = [None] + [{"format": f, "spnq": q} for f in (None, "", NF_T, NF_P, NF_E, NF_U) for q in (None, AFF, world.SP_ID)]
    nips.append({"format": None, "spnq": ""})
    for nip in nips:
        for st in STORES:
            for pol in NID_POLS:
                for given in (None, nid(NF_P, world.SP_ID)) if thorough else (None,):
                    dom = rng.choice([None, "example.org"])
                    out.append(mk_case("nameid", mk_cfg(pol=copy.deepcopy(pol), domain=dom),
                                       mk_args(nip=copy.deepcopy(nip), name_id=given), stored=copy.deepcopy(st)))
    for nip in (None, {"format": NF_T, "spnq": None}, {"format": None, "spnq": AFF}):
        for g in (nid(NF_P, world.SP_ID), nid(None, None, None), nid(NF_E, AFF, "x")):
            out.append(mk_case("nameid-given", mk_cfg(), mk_args(nip=copy.deepcopy(nip), name_id=g),
                               stored=copy.deepcopy(STORES[2]), spside=mk_spside(wr=False)))
    # e-mail identifiers need a domain
    for dom in (None, "", "example.org"):
        for via in ("nip", "pol"):
            a = mk_args(nip={"format": NF_E, "spnq": None}) if via == "nip" else mk_args()
            pol = [["default", {"lifetime": None, "nameid_format": NF_E}]] if via == "pol" else "default"
            out.append(mk_case("nameid-email", mk_cfg(pol=pol, domain=dom), a))
    return out


LT = {"s": [["minutes", 7]], "r": [["seconds", 90], ["minutes", 1]], "d": [["hours", 2]], "e": [["days", 1], ["seconds", 1]]}


def _sec(kind, which):
    if kind == "absent":
        return "absent"
    if kind == "none":
        return None
    if kind == "empty":
        return {"lifetime": None, "nameid_format": None}
    if kind == "other":
        return {"lifetime": None, "nameid_format": None, "other": True}
    fm = {"s": NF_P, "r": NF_U, "d": NF_E, "e": NF_T}[which]
    return {"lifetime": copy.deepcopy(LT[which]) if kind in ("both", "life") else None,
            "nameid_format": fm if kind in ("both", "fmt") else None}


def gen_policy(rng, thorough):
    out = []
    kinds4 = ("absent", "none", "both", "empty")
    kinds6 = ("absent", "none", "both", "empty", "life", "fmt", "other")
    cells = [(a, b, c, d, True) for a in kinds4 for b in kinds4 for c in kinds4 for d in kinds4]
    cells += [(a, "absent", c, d, False) for a in kinds4 for c in kinds4 for d in kinds4]
    all6 = [(a, b, c, d, r) for a in kinds6 for b in kinds6 for c in kinds6 for d in kinds6 for r in (True, False)]
    extra = all6 if thorough else rng.sample(all6, 120)
    sp = "https://sp2.example.org/metadata"
    for i, (ks, kr, kd, ke, with_ra) in enumerate(cells + extra):
        pol = []
        for key, kind, which in ((sp, ks, "s"), (RA, kr, "r"), ("default", kd, "d"), ("", ke, "e")):
            s = _sec(kind, which)
            if s != "absent":
                pol.append([key, s])
        rng.shuffle(pol)
        by_arg = i % 3 == 1
        other = [["default", {"lifetime": [["weeks", 1]], "nameid_format": NF_U}]]
        cfg = mk_cfg(pol=other if by_arg else pol, domain="example.org")
        args = mk_args(sp=sp, dest=REQUESTERS[sp][0], pol=pol if by_arg else None)
        out.append(mk_case("policy", cfg, args, ra=RA if with_ra else None))
    # an unconfigured policy and an empty one
    out.append(mk_case("policy", mk_cfg(pol=None), mk_args()))
    out.append(mk_case("policy", mk_cfg(pol=[]), mk_args()))
    out.append(mk_case("policy", mk_cfg(), mk_args(pol=[])))
    return out


def gen_farg(rng, thorough):
    out = []
    for m in (None, world_bearer(), SCM_SV):
        for i in (None, "other-req", ""):
            for r in (None, "https://elsewhere.example.org/acs", ""):
                for irt in (None, "req-1"):
                    for dest in ("", world.SP_ACS_POST):
                        if not thorough and rng.random() < 0.5 and (m, i, r) != (None, None, None):
                            continue
                        # the acceptance models cover bearer confirmation only
                        side = mk_spside(wr=False, allow_unsolicited=rng.random() < 0.3) if m != SCM_SV else None
                        out.append(mk_case("farg", mk_cfg(), mk_args(irt=irt, dest=dest, farg={"method": m, "irt": i, "recipient": r}),
                                           spside=side))
    for irt in (None, "req-1"):
        for dest in ("", world.SP_ACS_POST, world.SP_ACS_REDIRECT, "https://elsewhere.example.org/acs"):
            out.append(mk_case("farg-none", mk_cfg(), mk_args(irt=irt, dest=dest), spside=mk_spside(wr=False)))
            out.append(mk_case("farg-none", mk_cfg(), mk_args(irt=irt, dest=dest, farg="empty"),
                               spside=mk_spside(wr=False, allow_unsolicited=True)))
    return out


def world_bearer():
    return render.SCM_BEARER


def gen_algs(rng, thorough, tables):
    out = []
    sig = tables["sig_allowed"]
    dig = [d for d in tables["digest_allowed"] if "ripemd" not in d]
    for sr, sa in ((True, False), (False, True), (True, True)):
        for a in [None, ""] + sig + [MD5]:
            for c in (None, SHA256, MD5):
                out.append(mk_case("sigalg", mk_cfg(salg=c), mk_args(sign_response=sr, sign_assertion=sa, sign_alg=a),
                                   spside=mk_spside(wr=False) if rng.random() < 0.5 else None))
        for a in [None, ""] + dig + [DMD5]:
            for c in (None, DSHA512, DMD5):
                out.append(mk_case("digalg", mk_cfg(dalg=c), mk_args(sign_response=sr, sign_assertion=sa, digest_alg=a),
                                   spside=mk_spside(wr=False) if rng.random() < 0.5 else None))
    return out


def gen_sp(rng, thorough):
    """the receiving side: want_* lattice x what was signed; clock x lifetime x slack; correlation; addressing."""
    out = []
    for wr in OPTV:
        for wa in OPTV:
            for wor in OPTV:
                for sr, sa in ((None, None), (True, None), (None, True), (True, True)):
                    out.append(mk_case("sp-wants", mk_cfg(), mk_args(sign_response=sr, sign_assertion=sa),
                                       spside=mk_spside(wr=wr, wa=wa, wor=wor)))
    lifes = {"15m": ([["minutes", 15]], 900), "2d": ([["days", 2]], 172800), "0": ([["seconds", 0]], 0),
             "neg": ([["seconds", -5]], -5), "frac": ([["milliseconds", 2500]], 2), "1d": ([["hours", 24]], 86400)}
    for name, (lt, secs) in lifes.items():
        dts = sorted({-2, -1, 0, 1, secs - 1, secs, secs + 1, 86399, 86400, 86401, secs + 60, secs + 61, -60, -61})
        for dt in dts:
            for atd in (None, 0, 60):
                if not thorough and atd == 0 and rng.random() < 0.7:
                    continue
                pol = [["default", {"lifetime": lt, "nameid_format": None}]]
                out.append(mk_case("sp-clock", mk_cfg(pol=pol), mk_args(sign_response=True),
                                   spside=mk_spside(dt=dt, atd=atd)))
    for outstanding in ((), (("req-1", "/a"),), (("req-0", "/b"), ("req-1", "/c")), (("req-2", "/d"),)):
        for au in (False, True):
            for irt in (None, "req-1", "req-2"):
                out.append(mk_case("sp-corr", mk_cfg(), mk_args(sign_response=True, irt=irt),
                                   spside=mk_spside(outstanding=outstanding, allow_unsolicited=au)))
    # requester / consumer URL / SP identity mismatches
    ids = list(REQUESTERS)
    for sp in ids:
        for me in ids:
            for dest in (REQUESTERS[me][0], REQUESTERS[me][1], REQUESTERS[sp][0]):
                out.append(mk_case("sp-addr", mk_cfg(), mk_args(sign_response=True, sp=sp, dest=dest), spside=mk_spside(me=me)))
    for iss in (None, "", world.OTHER_ID, "https://nobody.example.org/"):
        for sr in (True, None):
            out.append(mk_case("sp-issuer", mk_cfg(), mk_args(sign_response=sr, issuer=iss), spside=mk_spside(wr=False)))
    for au in (None, "empty", [AC_PW, None], [AC_PPT, "https://idp.example.org/authority"], [None, "https://a.example.org"],
               ["", None], ["", ""], [AC_PW, ""]):
        out.append(mk_case("sp-authn", mk_cfg(), mk_args(sign_response=True, authn=au), spside=mk_spside()))
    return out


UNI = ["a@example.org", "Åsa Öberg", "名前", "x y", "ÿ", "staff", "member", "O'Neil & <Sons>", "€ 100", "q\"uote",
       "née", "~tilde~", "0", "München"]


def rand_ident(rng):
    names = rng.sample(ATTR_NAMES, rng.randint(1, 5))
    av = []
    for n in sorted(names):
        k = rng.choice([1, 1, 2, 3])
        vals = rng.sample(UNI, k)
        if rng.random() < 0.3:
            vals[0] = "".join(rng.choice("abcXYZ09-_.@åßπ") for _ in range(rng.randint(1, 12)))
        av.append([n, vals])
    return av


def rand_lifetime(rng):
    units = ["weeks", "days", "hours", "minutes", "seconds", "milliseconds", "microseconds"]
    ks = rng.sample(units, rng.randint(0, 3))
    rngs = {"weeks": (0, 2), "days": (-1, 3), "hours": (-2, 30), "minutes": (-10, 120), "seconds": (-100, 5000),
            "milliseconds": (-5000, 100000), "microseconds": (-3000000, 9000000)}
    return [[k, rng.randint(*rngs[k])] for k in ks]


def gen_random(rng, n):
    out = []
    fmts = [None, "", NF_T, NF_P, NF_E, NF_U]
    for _ in range(n):
        sp = rng.choice(list(REQUESTERS))
        post, red = REQUESTERS[sp]
        pol = []
        for key in rng.sample([sp, RA, "default", "", AFF], rng.randint(0, 4)):
            r = rng.random()
            pol.append([key, None if r < 0.15 else {"lifetime": rand_lifetime(rng) if rng.random() < 0.7 else None,
                                                     "nameid_format": rng.choice(fmts[2:]) if rng.random() < 0.5 else None,
                                                     "other": rng.random() < 0.5}])
        by_arg = rng.random() < 0.3
        cfg = mk_cfg(sr=rng.choice(CFGV), sa=rng.choice(CFGV), salg=rng.choice([None, None, SHA256]),
                     dalg=rng.choice([None, None, DSHA512]), pol=DEFAULT_POL if by_arg else pol,
                     domain=rng.choice([None, "example.org", "example.org"]))
        nip = None if rng.random() < 0.4 else {"format": rng.choice(fmts), "spnq": rng.choice([None, None, AFF, sp])}
        stored = [nid(rng.choice(fmts[2:]), rng.choice([sp, sp, AFF]), rng.choice([IDP, IDP, None]))
                  for _ in range(rng.choice([0, 0, 0, 1, 2]))]
        farg = None if rng.random() < 0.8 else {"method": None, "irt": rng.choice([None, "req-9"]),
                                                "recipient": rng.choice([None, red])}
        args = mk_args(ident=rand_ident(rng), irt=rng.choice(["req-1", "req-1", "id-" + "%08x" % rng.getrandbits(32), None]),
                       dest=rng.choice([post, post, red]), sp=sp, userid="user-%d" % rng.randint(1, 3), nip=nip,
                       name_id=None if rng.random() < 0.9 else nid(rng.choice(fmts[2:]), sp),
                       authn=rng.choice([[AC_PW, None], [AC_PPT, "https://idp.example.org/authority"], [AC_PW, None], None]),
                       issuer=None if rng.random() < 0.95 else IDP,
                       sign_response=rng.choice(ARGV), sign_assertion=rng.choice(ARGV),
                       sign_alg=rng.choice([None, None, None, SHA256, MD5]), digest_alg=rng.choice([None, None, None, DSHA512]),
                       pol=pol if by_arg else None, farg=farg)
        now = NOW + rng.randint(-10 ** 7, 10 ** 7)
        w = rng.choice(WANTS)
        spside = None
        if rng.random() < 0.7:
            irt = args["irt"]
            spside = mk_spside(me=sp, wr=w[0], wa=w[1], wor=w[2], dt=rng.choice([0, 1, 30, 600, 3599, 3600, 5000, 90000]),
                               atd=rng.choice([None, None, 120]), allow_unsolicited=rng.random() < 0.2,
                               outstanding=((irt, "/ctx/%d" % rng.randint(0, 9)),) if irt and rng.random() < 0.85 else (),
                               binding=POST, now=now)
        out.append(mk_case("random", cfg, args, ra=rng.choice([None, RA]), stored=stored, now=now, spside=spside))
    return out


def gen_zone(rng, thorough):
    """the process time zone: zone of the issuing process x zone of the receiving process (the same, the starting
    zone, or one on the other side of UTC) x lifetime (configured / the default hour / zero / beyond the one-day
    issue-instant bound), at instants in winter, in summer, around the daylight-saving switches and the date line,
    the SP clock at the edges of the window; plus every zone with every lifetime unit on the issuing side alone."""
    out = []
    lifes = [([["minutes", 15]], 900), (None, 3600), ([["seconds", 0]], 0), ([["days", 2]], 172800),
             ([["hours", -1]], -3600)]
    nows = [NOW, SUMMER, CET_BACK - 1, CET_BACK + 1800, US_BACK - 600, US_FWD - 1, NOW + 6400, 1704067199, 1709164800]
    for zi in ZONES:
        others = [zi, None, "EST5EDT,M3.2.0,M11.1.0" if zone_offset(zi, NOW) > 0 else "<+1030>-10:30<+11>-11,M10.1.0,M4.1.0"]
        for k, zs in enumerate(others):
            if zs == zi and k > 0:
                zs = "JST-9"
            for lt, secs in lifes:
                dts = sorted({0, 1, secs - 1, secs, secs + 1, min(secs, 86400) - 1, 86400, 86401, -1})
                picks = [(rng.choice(nows), rng.choice(dts)) for _ in range(12 if thorough else 2)]
                for now, dt in picks:
                    pol = [["default", {"lifetime": lt, "nameid_format": None}]]
                    out.append(mk_case("zone", mk_cfg(pol=pol), mk_args(sign_response=True), now=now,
                                       spside=mk_spside(dt=dt, atd=rng.choice([None, None, 60]), now=now), tz=(zi, zs)))
        for unit, n in (("weeks", 1), ("days", 1), ("hours", 5), ("hours", 14), ("minutes", 345), ("seconds", 20700),
                        ("milliseconds", 1500), ("microseconds", 999999)):
            pol = [[world.SP_ID, {"lifetime": [[unit, n]], "nameid_format": None}]]
            out.append(mk_case("zone-idp", mk_cfg(pol=pol), mk_args(sign_assertion=rng.choice(ARGV)),
                               now=rng.choice(nows) + rng.randint(-86400, 86400), tz=(zi, None)))
    return out


# ---- the requester's consumer endpoints as configured ----------------------------------------------------
def acs_urls(me):
    """(P1, R1, P2, R2): the two usual consumer URLs of a requester and a second one per binding"""
    post, red = REQUESTERS[me]
    return post, red, post + "-b", red + "-b"


def _pair(u, b, seq="tuple"):
    return ["pair", seq, u, b]


def _tri(u, b, i, seq="tuple"):
    return ["triple", seq, u, b, i]


def acs_shapes(me):
    """name -> endpoint specifications: every documented spelling (bare URL / (URL, binding) / (URL, binding, index);
    tuple or list; index an int or its decimal text, 0, not consecutive, not in list order), one or several
    consumer URLs per binding, one binding only, and the mixtures of spellings."""
    p1, r1, p2, r2 = acs_urls(me)
    return {
        "pairs": [_pair(p1, POST), _pair(r1, REDIRECT)],
        "pairs-list": [_pair(p1, POST, "list"), _pair(r1, REDIRECT, "list")],
        "pairs-many": [_pair(p1, POST), _pair(r1, REDIRECT), _pair(p2, POST), _pair(r2, REDIRECT, "list")],
        "triples": [_tri(r1, REDIRECT, 1), _tri(p1, POST, 2), _tri(p2, POST, 3)],
        "triples-list": [_tri(p1, POST, "7", "list"), _tri(p2, POST, 8, "list"), _tri(r1, REDIRECT, 0, "list")],
        "triples-many": [_tri(p2, POST, 12), _tri(r2, REDIRECT, "3", "list"), _tri(r1, REDIRECT, 2), _tri(p1, POST, 1, "list"),
                         _tri(p1 + "-c", POST, 40), _tri(r1 + "-c", REDIRECT, 41)],
        "pair+triple": [_pair(p1, POST), _tri(p2, POST, 5), _tri(r1, REDIRECT, "6", "list")],
        "triple-post-only": [_tri(p1, POST, 1)],
        "pair-redirect-only": [_pair(r1, REDIRECT)],
        "bare": [["bare", p1]],
        "bare-two": [["bare", p1], ["bare", p2]],
        "bare+pair-other-binding": [["bare", p1], _pair(r1, REDIRECT)],
        "bare+pair-same-binding": [["bare", p1], _pair(p2, POST)],
        "triple+bare+pair": [_tri(p2, POST, 1), ["bare", p1], _pair(r1, REDIRECT, "list")],
        "bare-and-pair-same-url": [["bare", p1], _pair(p1, POST), _pair(r1, REDIRECT)],
        "same-url-both-bindings": [_pair(p1, POST), _tri(p1, REDIRECT, 2)],
    }


# spellings under which a requester still publishes its two usual consumer URLs (used to respell older families)
RESPELL = ("pairs-list", "pairs-many", "triples", "triples-list", "triples-many", "pair+triple", "bare-and-pair-same-url")


def gen_acs(rng, thorough):
    """the requester's consumer endpoints as configured x the consumer URL the provider chooses (every URL the
    requester configures, the two usual ones, its logout URL, a foreign one) x the binding the Response travels on."""
    out = []
    ids = list(REQUESTERS)
    k = 0
    for name in acs_shapes(world.SP_ID):
        for me in (ids if thorough else [ids[k % len(ids)]]):
            acs = acs_shapes(me)[name]
            p1, r1, _, _ = acs_urls(me)
            dests = []
            for d in [e[1] if e[0] == "bare" else e[2] for e in acs] + [p1, r1, world.SP_SLO_REDIRECT,
                                                                       "https://elsewhere.example.org/acs"]:
                if d not in dests:
                    dests.append(d)
            for dest in dests:
                for binding in (POST, REDIRECT):
                    sr, sa = rng.choice([(True, None), (True, None), (None, True), (True, True)])
                    # signature demands the Response meets: the addressing decides the verdict in this family
                    w = rng.choice([w for w in WANTS if (sr or w[0] is False) and (sa or w[1] in (None, False))])
                    out.append(mk_case("acs", mk_cfg(), mk_args(sign_response=sr, sign_assertion=sa, sp=me, dest=dest),
                                       spside=mk_spside(me=me, wr=w[0], wa=w[1], wor=w[2], binding=binding,
                                                        acs=copy.deepcopy(acs))))
        k += 1
    return out


def spread_acs(cases, ar):
    """the families made before this dimension existed keep their cases; a seeded part of those that are shown to a
    service provider gets that provider's usual two consumer URLs written in another spelling (own PRNG, drawn after
    everything else, so that the cases themselves stay what they were)."""
    share = {"random": 0.5, "sp-addr": 0.4, "sp-wants": 0.25, "lattice": 0.2}
    for c in cases:
        s = c["spside"]
        if s is None or c["tag"] == "acs":
            continue
        if ar.random() < share.get(c["tag"], 0.15):
            s["acs"] = copy.deepcopy(acs_shapes(s["me"])[ar.choice(RESPELL)])


def spread_zones(cases, zr):
    """the families made before the time-zone dimension existed keep their cases; a seeded part of them is moved out of
    the starting zone (own PRNG, drawn after everything else, so that the cases themselves stay what they were)."""
    share = {"random": 0.75, "sp-clock": 0.6}
    for c in cases:
        if c["tag"] in ("zone", "zone-idp"):
            continue
        if zr.random() < share.get(c["tag"], 0.15):
            zi = zr.choice(ZONES[1:])
            c["tz"] = {"idp": zi, "sp": zr.choice([zi, zi, None] + ZONES[1:])}


def generate(ctx):
    rng = ctx.rng
    t = live_values()
    cases = []
    cases += gen_lattice(rng, ctx.thorough)
    cases += gen_nameid(rng, ctx.thorough)
    cases += gen_policy(rng, ctx.thorough)
    cases += gen_farg(rng, ctx.thorough)
    cases += gen_algs(rng, ctx.thorough, t)
    cases += gen_sp(rng, ctx.thorough)
    cases += gen_random(rng, 1500 if ctx.thorough else 200)
    cases += gen_zone(rng, ctx.thorough)
    import random

    spread_zones(cases, random.Random(rng.getrandbits(64)))
    # the dimension added in round 6 draws after everything older (the older cases stay what they were)
    acs_cases = gen_acs(rng, ctx.thorough)
    spread_zones(acs_cases, random.Random(rng.getrandbits(64)))
    spread_acs(cases, random.Random(rng.getrandbits(64)))
    cases += acs_cases
    for c in cases:
        if c["args"]["authn"] == "empty":
            c["args"]["authn"] = [None, None]
            c["args"]["authn_empty"] = True
    return cases


# ------------------------------------------------------------------------------ evidence
def nontrivial(case, obs):
    a, c = case["args"], case["cfg"]
    if obs["k"] != "issued":
        return ("refused", obs.get("e") or obs.get("why"), a["sign_response"], repr(c["sr"]))
    pol = a["pol"] if a["pol"] is not None else c["pol"]
    polshape = tuple(sorted((("sp" if k == a["sp"] else k), None if s is None else (s["lifetime"] is not None, s["nameid_format"]))
                            for k, s in (pol or [])))
    spv = None
    if case["spside"] is not None:
        spv = ("accepted" if obs.get("sp") else "rejected:%s" % obs.get("sp_exc"))
    key = (a["sign_response"], repr(c["sr"]), a["sign_assertion"], repr(c["sa"]), obs["src"], obs["nid"]["format"],
           None if a["nip"] is None else (a["nip"]["format"], a["nip"]["spnq"] == a["sp"], a["nip"]["spnq"] is None),
           polshape, case["ra"] is not None, a["pol"] is not None,
           None if not isinstance(a["farg"], dict) else tuple(v is not None for v in a["farg"].values()),
           a["sign_alg"], c["salg"], a["digest_alg"], c["dalg"], a["irt"] is None, a["dest"] == "", spv,
           _sign(zone_offset(case_tz(case)[0], case["now"])),
           None if case["spside"] is None else _sign(zone_offset(case_tz(case)[1], case["spside"]["now"])),
           acs_key(case))
    return key


def acs_key(case):
    """spelling of the requester's consumer endpoints, how the chosen URL is written there, arrival binding"""
    s = case["spside"]
    if s is None:
        return None
    acs = s["acs"] if s.get("acs") is not None else default_acs(s["me"])
    d = case["args"]["dest"]
    how = sorted({(e[0], None if e[0] == "bare" else e[1], None if e[0] == "bare" else e[3] == s["binding"])
                  for e in acs if (e[1] if e[0] == "bare" else e[2]) == d})
    return (tuple((e[0], None if e[0] == "bare" else e[1]) for e in acs), tuple(how), s["binding"] == POST)


def _sign(n):
    return (n > 0) - (n < 0)


def histogram(cases, observed):
    h = {"by_tag": {}, "outcome": {}, "signed": {}, "nameid_source": {}, "nameid_format": {}, "sp": {}, "attrs_per_identity": {},
         "lifetime_seconds": {}, "zone_issuer_hours": {}, "zone_receiver_hours": {}, "acs_spelling": {},
         "arrival_binding": {}}
    for c, o in zip(cases, observed):
        if c["spside"] is not None:
            acs = c["spside"].get("acs")
            k = "usual two pairs" if acs is None else "+".join(sorted({e[0] if e[0] == "bare" else "%s(%s)" % (e[0], e[1]) for e in acs}))
            h["acs_spelling"][k] = h["acs_spelling"].get(k, 0) + 1
            b = c["spside"]["binding"].rsplit(":", 1)[-1]
            h["arrival_binding"][b] = h["arrival_binding"].get(b, 0) + 1
        h["by_tag"][c["tag"]] = h["by_tag"].get(c["tag"], 0) + 1
        z = "%+.2f" % (zone_offset(case_tz(c)[0], c["now"]) / 3600.0) if case_tz(c)[0] is not None else "start"
        h["zone_issuer_hours"][z] = h["zone_issuer_hours"].get(z, 0) + 1
        if c["spside"] is not None:
            z = "%+.2f" % (zone_offset(case_tz(c)[1], c["spside"]["now"]) / 3600.0) if case_tz(c)[1] is not None else "start"
            h["zone_receiver_hours"][z] = h["zone_receiver_hours"].get(z, 0) + 1
        k = o["k"] if o["k"] != "error" else "error:" + o["e"]
        if o["k"] == "other":
            k = "other:" + o["why"]
        h["outcome"][k] = h["outcome"].get(k, 0) + 1
        if o["k"] != "issued":
            continue
        s = ("R" if o["s_response"] else "-") + ("A" if o["s_assertion"] else "-")
        h["signed"][s] = h["signed"].get(s, 0) + 1
        src = o["src"] if isinstance(o["src"], str) else "reused"
        h["nameid_source"][src] = h["nameid_source"].get(src, 0) + 1
        f = str(o["nid"]["format"]).rsplit(":", 1)[-1]
        h["nameid_format"][f] = h["nameid_format"].get(f, 0) + 1
        n = str(len(c["args"]["ident"]))
        h["attrs_per_identity"][n] = h["attrs_per_identity"].get(n, 0) + 1
        d = o["i_nooa_cond"] - o["i_nb"]
        b = "<0" if d < 0 else "0" if d == 0 else "<=900" if d <= 900 else "<=3600" if d <= 3600 else "<=86400" if d <= 86400 else ">1d"
        h["lifetime_seconds"][b] = h["lifetime_seconds"].get(b, 0) + 1
        if c["spside"] is not None:
            v = "accepted" if o.get("sp") else "rejected:%s" % o.get("sp_exc")
            h["sp"][v] = h["sp"].get(v, 0) + 1
    return h
