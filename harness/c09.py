"""C09 — issued assertions are scoped to the requester and accepted end to end.

Every case drives the REAL saml2.server.Server.create_authn_response (fresh identifier store,
virtual clock), reads the produced Response with an independent reader (xml.etree only, below) and
verifies the signatures it carries through the stand-in; where the case names a service provider
setting, the same XML is handed to a real Saml2Client built from the same metadata."""
import ast
import copy
import json
import os
import xml.etree.ElementTree as ET
from xml.sax.saxutils import quoteattr

from harness import common, env, fixtures, render, spaccept, world
from harness.common import Raw, cq, cq_opt

PID = "C09"
PARALLEL = 6
IMPORTS = "From Verif Require Import C09.Model C09.Spec C09.Corr."
CASE_TYPE = "C09.Corr.case"
RUNNER = "C09.Corr.run"
FINDING_CLASSES = {1: "C09-F1", 2: "C09-F2"}
RULE = ("complete lattice sign_response x sign_assertion given as argument (None/True/False) x as configuration "
        "(unset/True/False/'true'/'false'/''/'yes') = 441 cells on a fixed request; complete product NameIDPolicy "
        "format(6) x SPNameQualifier(3) x supplied name_id(2) x stored identifiers(4) x policy shape(4); complete "
        "product of the 8 policy-section shapes (requester / registration authority / default / '' present, absent "
        "or None) x lifetime given or not; update_farg preset lattice 2^3 x in_response_to(2) x destination(2); "
        "signing / digest algorithm by argument x configuration x default over the live allowed lists plus one "
        "non-allowed value; plus seeded random requests (identity: 1-5 attributes, multi-valued, unicode; 3 "
        "requesters; lifetimes over all seven timedelta units).  Every produced Response is read by the "
        "independent reader, its signatures verified through the stand-in, and (where an SP setting is part of "
        "the case: want_* options, clock offset, outstanding request) fed to a real Saml2Client.  non-trivial = "
        "distinct (option cell, name-id path, policy path, farg shape, algorithm source, SP verdict)")
TRUSTED = ["xmlsec1 stand-in (harness/standin/xmlsec1.py)", "independent reader + abstraction in harness/c09.py",
           "SP acceptance models C01/C04/C05/C06 (each tied to the code by its own check)"]
ASSUMPTIONS = [
    "no encryption (encrypt_assertion / pefim / encrypted advice are C16's), status=None, session_not_on_or_after=None",
    "release filtering is C10's and the wire mapping C17's: the policy carries no attribute restrictions, the "
    "requester declares no RequestedAttribute, identity keys are names of the bundled uri attribute map, values "
    "are non-empty strings without surrounding whitespace",
    "the issue time is a whole second (virtual clock); lifetime units are integers under timedelta keyword names",
    "a release_policy argument is a Policy built over the IdP's own metadata store",
    "an SPNameQualifier other than the requester is not itself an entity with registration info",
    "the signature algorithms used are those the stand-in implements (no RIPEMD160 digest)",
    "a signature made with the IdP key verifies under the certificate in the same metadata (C03's ground)",
]

SERVER_PY = os.path.join(env.SRC, "saml2", "server.py")
ASSERTION_PY = os.path.join(env.SRC, "saml2", "assertion.py")


# ------------------------------------------------------------------------------ translator
def _find_func(tree, cls, name):
    for node in ast.walk(tree):
        if isinstance(node, ast.ClassDef) and node.name == cls:
            for fn in node.body:
                if isinstance(fn, ast.FunctionDef) and fn.name == name:
                    return fn
    raise RuntimeError("%s.%s not found" % (cls, name))


def live_tables():
    """param_defaults of Server.gather_authn_response_args and the defaults of Policy.get_lifetime /
    get_nameid_format, read from the live source by AST (fail closed); algorithm lists and constants
    from the live modules."""
    env.check_repo_import()
    with open(SERVER_PY) as f:
        tree = ast.parse(f.read())
    fn = _find_func(tree, "Server", "gather_authn_response_args")
    pd = None
    for st in ast.walk(fn):
        if isinstance(st, ast.Assign) and len(st.targets) == 1 and isinstance(st.targets[0], ast.Name) \
                and st.targets[0].id == "param_defaults":
            pd = ast.literal_eval(st.value)
    if not isinstance(pd, dict):
        raise RuntimeError("param_defaults not found in Server.gather_authn_response_args")
    with open(ASSERTION_PY) as f:
        atree = ast.parse(f.read())

    def get_default(fname, attr):
        fn = _find_func(atree, "Policy", fname)
        for st in ast.walk(fn):
            if isinstance(st, ast.Call) and isinstance(st.func, ast.Attribute) and st.func.attr == "get" \
                    and st.args and isinstance(st.args[0], ast.Constant) and st.args[0].value == attr:
                d = st.args[2] if len(st.args) > 2 else [k.value for k in st.keywords if k.arg == "default"][0]
                return d
        raise RuntimeError("default of Policy.%s not found" % fname)

    life = ast.literal_eval(get_default("get_lifetime", "lifetime"))
    if not (isinstance(life, dict) and all(isinstance(v, int) for v in life.values())):
        raise RuntimeError("unexpected default lifetime %r" % (life,))
    nfd = get_default("get_nameid_format", "nameid_format")
    import saml2.saml as S
    import saml2.xmldsig as ds

    if isinstance(nfd, ast.Attribute) and isinstance(nfd.value, ast.Name) and nfd.value.id == "saml":
        nf_default = getattr(S, nfd.attr)
    elif isinstance(nfd, ast.Constant):
        nf_default = nfd.value
    else:
        raise RuntimeError("unexpected default nameid_format expression")
    d = ds.DefaultSignature()
    return {
        "param_defaults": pd, "lifetime_default": life, "nameid_format_default": nf_default,
        "default_sign_alg": d.get_sign_alg(), "default_digest_alg": d.get_digest_alg(),
        "sig_allowed": [l for _, l in ds.SIG_ALLOWED_ALG], "digest_allowed": [l for _, l in ds.DIGEST_ALLOWED_ALG],
        "SCM_BEARER": S.SCM_BEARER, "NAMEID_FORMAT_PERSISTENT": S.NAMEID_FORMAT_PERSISTENT,
        "NAMEID_FORMAT_TRANSIENT": S.NAMEID_FORMAT_TRANSIENT, "NAMEID_FORMAT_EMAILADDRESS": S.NAMEID_FORMAT_EMAILADDRESS,
    }


def regenerate_tables(ctx):
    t = live_tables()
    pd = t["param_defaults"]
    L = ["(* GENERATED by harness/c09.py from saml2/server.py (gather_authn_response_args param_defaults),",
         "   saml2/assertion.py (Policy.get_lifetime / get_nameid_format defaults), saml2.xmldsig and saml2.saml",
         "   (live values) — do not edit *)",
         "From Coq Require Import String List ZArith.", "Import ListNotations.", "Open Scope string_scope.", ""]
    for k in ("sign_response", "sign_assertion", "best_effort", "encrypt_assertion", "encrypted_advice_attributes"):
        if not isinstance(pd.get(k), bool):
            raise RuntimeError("param_defaults[%s] missing or not a bool" % k)
        L.append("Definition %s_default : bool := %s." % (k, cq(pd[k])))
    L.append("Definition param_default_names : list string := %s." % cq(list(pd.keys())))
    L.append("Definition param_default_is_none : list string := %s." % cq([k for k, v in pd.items() if v is None]))
    L.append("Definition lifetime_default : list (string * Z) := %s." % cq([(k, v) for k, v in t["lifetime_default"].items()]))
    for k in ("nameid_format_default", "default_sign_alg", "default_digest_alg"):
        L.append("Definition %s : string := %s." % (k, cq(t[k])))
    for k in ("sig_allowed", "digest_allowed"):
        L.append("Definition %s : list string := %s." % (k, cq(t[k])))
    for k in ("SCM_BEARER", "NAMEID_FORMAT_PERSISTENT", "NAMEID_FORMAT_TRANSIENT", "NAMEID_FORMAT_EMAILADDRESS"):
        L.append("Definition %s : string := %s." % (k, cq(t[k])))
    changed = common.write_if_changed(os.path.join(common.GEN, "C09Tables.v"), "\n".join(L) + "\n")
    return {"file": "coq/gen/C09Tables.v", "param_defaults": {k: repr(v) for k, v in pd.items()},
            "lifetime_default": t["lifetime_default"], "changed": changed, "obligations": 1, "discharged": 1}
