"""Shared machinery of every check: Coq build / proof status, case writer,
sharded coqc runner, decision, evidence, replays.  See DESIGN.md sections 2 and 4."""
import concurrent.futures
import fcntl
import hashlib
import json
import os
import random
import re
import subprocess
import sys
import time

VERIF = os.path.dirname(os.path.dirname(os.path.abspath(__file__)))
COQDIR = os.path.join(VERIF, "coq")
THEORIES = os.path.join(COQDIR, "theories")
WORK = os.path.join(VERIF, "work")
EVID = os.path.join(VERIF, "evidence")
if os.path.realpath(os.environ.get("VERIF_REPO", "/repo")) != "/repo":
    # mutation self-tests run against a scratch copy: their evidence must not replace /repo's
    EVID = os.path.join(VERIF, "work", "evidence-scratch")
REPLAYS = os.path.join(VERIF, "out", "replays")
KNOWN = os.path.join(VERIF, "known_findings.json")
COQC_TIMEOUT = 600
FORBIDDEN = re.compile(
    r"\b(Admitted|admit|Axiom|Axioms|Parameter|Parameters|Conjecture|Conjectures|Abort All|bypass_check)\b"
    r"|Unset\s+Guard|Unset\s+Positivity|Unset\s+Universe|type-in-type|impredicative-set|Admit\s+Obligations")
# axioms of Coq's own standard library that a proof may depend on (named in DESIGN.md section 5)
ALLOWED_AXIOMS = {
    "functional_extensionality_dep", "propositional_extensionality", "proof_irrelevance", "classic",
    "Eqdep.Eq_rect_eq.eq_rect_eq", "JMeq_eq", "constructive_definite_description",
}


# ---------------------------------------------------------------------------- Coq terms
class Raw(str):
    """A Coq term given verbatim."""


def cq_str(s):
    b = s.encode("utf-8") if isinstance(s, str) else bytes(s)
    if all(0x20 <= c <= 0x7E for c in b):
        return '"' + b.decode("ascii").replace('"', '""') + '"'
    return "(sb [" + ";".join(str(c) for c in b) + "]%N)"


def cq(v):
    if isinstance(v, Raw):
        return str(v)
    if isinstance(v, bool):
        return "true" if v else "false"
    if isinstance(v, int):
        return "(%d)%%Z" % v
    if isinstance(v, (str, bytes)):
        return cq_str(v)
    if v is None:
        return "None"
    if isinstance(v, tuple):
        return "(" + ", ".join(cq(x) for x in v) + ")"
    if isinstance(v, list):
        return "[" + "; ".join(cq(x) for x in v) + "]"
    raise TypeError("cq: %r" % (v,))


def cq_opt(v):
    return "None" if v is None else "(Some %s)" % cq(v)


def cq_nat(n):
    return Raw("%d%%nat" % n)


# ---------------------------------------------------------------------------- Coq build
class _Lock:
    def __enter__(self):
        os.makedirs(WORK, exist_ok=True)
        self.f = open(os.path.join(WORK, ".coq.lock"), "w")
        fcntl.flock(self.f, fcntl.LOCK_EX)

    def __exit__(self, *a):
        fcntl.flock(self.f, fcntl.LOCK_UN)
        self.f.close()


def sh(cmd, cwd=None, timeout=COQC_TIMEOUT, env=None):
    try:
        p = subprocess.run(cmd, cwd=cwd, stdout=subprocess.PIPE, stderr=subprocess.STDOUT, timeout=timeout,
                           shell=isinstance(cmd, str), env=env)
        return p.returncode, p.stdout.decode("utf-8", "replace")
    except subprocess.TimeoutExpired as e:
        return 124, (e.stdout or b"").decode("utf-8", "replace") + "\nTIMEOUT"


def coq_make(targets=None, jobs=16):
    """Full .vo build of the project (or of the given .vo targets)."""
    with _Lock():
        if not os.path.exists(os.path.join(COQDIR, "Makefile")) or \
                os.path.getmtime(os.path.join(COQDIR, "Makefile")) < os.path.getmtime(os.path.join(COQDIR, "_CoqProject")):
            rc, out = sh(gen_makefile_cmd(), cwd=COQDIR)
            if rc:
                return rc, out
        else:
            # new .v files appear when a property is added: regenerate if the file list changed
            rc, out = sh(gen_makefile_cmd(), cwd=COQDIR)
        cmd = ["make", "-j%d" % jobs] + (targets or [])
        return sh(cmd, cwd=COQDIR, timeout=1800)


def gen_makefile_cmd():
    return "coq_makefile -f _CoqProject $(find theories gen -name '*.v' 2>/dev/null | sort) -o Makefile"


def coqc(path, cwd=None, timeout=COQC_TIMEOUT):
    cmd = ["coqc", "-R", THEORIES, "Verif", "-R", os.path.join(COQDIR, "gen"), "VerifGen",
           "-w", "-notation-overridden,-deprecated-syntactic-definition,-deprecated-hint-without-locality", path]
    return sh(cmd, cwd=cwd or os.path.dirname(path), timeout=timeout)


def scan_forbidden(paths):
    bad = []
    for p in paths:
        with open(p) as f:
            txt = f.read()
        # strip comments (non-nested approximation is enough: we do not nest)
        txt2 = re.sub(r"\(\*.*?\*\)", "", txt, flags=re.S)
        for m in FORBIDDEN.finditer(txt2):
            bad.append("%s: %s" % (os.path.relpath(p, VERIF), m.group(0)))
    return bad


def property_files(pid):
    d = os.path.join(THEORIES, pid)
    fs = sorted(os.path.join(d, f) for f in os.listdir(d) if f.endswith(".v"))
    base = os.path.join(THEORIES, "Base")
    fs += sorted(os.path.join(base, f) for f in os.listdir(base) if f.endswith(".v"))
    g = os.path.join(COQDIR, "gen")
    if os.path.isdir(g):
        fs += sorted(os.path.join(g, f) for f in os.listdir(g) if f.endswith(".v") and f.startswith(pid))
    return fs


def build_targets(pid):
    """.vo targets of a property: its Property and Corr files and every generated file of that property
    (tables, abbreviations, translated source) - the case files may import generated files directly."""
    ts = [os.path.relpath(os.path.join(THEORIES, pid, f), COQDIR) for f in ("Property.vo", "Corr.vo")]
    g = os.path.join(COQDIR, "gen")
    if os.path.isdir(g):
        ts += sorted("gen/" + f[:-2] + ".vo" for f in os.listdir(g) if f.endswith(".v") and f.startswith(pid))
    return ts


def check_proofs(pid):
    """Build the property's theory, recompile Property.v and inspect Print Assumptions.
    Returns dict(ok, obligations, discharged, theorems, axioms, log, failed)."""
    res = {"ok": False, "obligations": 0, "discharged": 0, "theorems": [], "axioms": [], "log": "", "failed": []}
    prop_v = os.path.join(THEORIES, pid, "Property.v")
    with open(prop_v) as f:
        src = f.read()
    src_nc = re.sub(r"\(\*.*?\*\)", "", src, flags=re.S)
    theorems = re.findall(r"^\s*Theorem\s+([A-Za-z0-9_']+)", src_nc, flags=re.M)
    prints = [x.rstrip(".") for x in re.findall(r"Print Assumptions\s+([A-Za-z0-9_'.]+)", src_nc)]
    res["theorems"] = theorems
    res["obligations"] = len(theorems)
    bad = scan_forbidden(property_files(pid))
    if bad:
        res["log"] = "forbidden constructs: " + "; ".join(bad)
        res["failed"] = ["forbidden:" + b for b in bad]
        return res
    missing = [t for t in theorems if t not in prints]
    if missing:
        res["log"] = "theorems without Print Assumptions: %s" % missing
        res["failed"] = missing
        return res
    rc, out = coq_make(build_targets(pid))
    if rc != 0:
        res["log"] = out[-4000:]
        m = re.findall(r'File "([^"]+)", line (\d+)', out)
        res["failed"] = ["%s:%s" % (os.path.relpath(f, COQDIR) if os.path.isabs(f) else f, l) for f, l in m] or ["build"]
        return res
    with _Lock():
        rc, out = coqc(prop_v, cwd=COQDIR)
    res["log"] = out[-4000:]
    if rc != 0:
        res["failed"] = ["Property.v"]
        return res
    # Print Assumptions output: either "Closed under the global context" or "Axioms:\n name : type ..."
    closed = out.count("Closed under the global context")
    axioms = []
    for blk in re.findall(r"Axioms:\n((?:.+\n?)+?)(?=\n\S|\Z)", out):
        for line in blk.splitlines():
            m = re.match(r"^([A-Za-z_][A-Za-z0-9_.']*)\s*:", line)
            if m:
                axioms.append(m.group(1))
    res["axioms"] = sorted(set(axioms))
    notallowed = [a for a in res["axioms"] if a.split(".")[-1] not in {x.split(".")[-1] for x in ALLOWED_AXIOMS}]
    n_ax_blocks = out.count("Axioms:")
    if closed + n_ax_blocks < len(prints) or notallowed:
        res["failed"] = ["assumptions:" + ",".join(notallowed or ["missing output"])]
        return res
    res["discharged"] = len(theorems)
    res["ok"] = True
    return res


# ---------------------------------------------------------------------------- case evaluation
CASE_HEADER = """From Coq Require Import String List ZArith Bool NArith.
From Verif Require Import Base.Str Base.Run.
%s
Import ListNotations.
Open Scope string_scope.
Definition cases : list (%s) := [
%s
].
Eval vm_compute in ((%s cases ++ [(length cases, 0%%nat)])%%list).
"""

PAIR = re.compile(r"\(\s*(\d+)(?:%nat)?\s*,\s*(\d+)(?:%nat)?\s*\)")


def eval_cases(pid, imports, case_type, runner, coq_cases, shard=400, tag="cases"):
    """coq_cases: list of Coq terms.  Returns (results, errors): results = list of (global index, code)."""
    wd = os.path.join(WORK, pid)
    os.makedirs(wd, exist_ok=True)
    for f in os.listdir(wd):
        if f.startswith(tag + "_"):
            os.unlink(os.path.join(wd, f))
    jobs = []
    for k in range(0, len(coq_cases), shard):
        chunk = coq_cases[k:k + shard]
        path = os.path.join(wd, "%s_%d.v" % (tag, k // shard))
        with open(path, "w") as f:
            f.write(CASE_HEADER % (imports, case_type, ";\n".join(chunk), runner))
        jobs.append((k, path))
    results, errors = [], []

    def one(job):
        k, path = job
        rc, out = coqc(path, cwd=wd)
        return k, path, rc, out

    with concurrent.futures.ThreadPoolExecutor(max_workers=16) as ex:
        for k, path, rc, out in ex.map(one, jobs):
            if rc != 0:
                errors.append({"shard": os.path.relpath(path, VERIF), "rc": rc, "out": out[-3000:]})
                continue
            m = re.search(r"=\s*(\[.*?\])\s*:\s*list", out, flags=re.S)
            if not m:
                errors.append({"shard": os.path.relpath(path, VERIF), "rc": rc, "out": out[-3000:]})
                continue
            pairs = [(int(i), int(c)) for i, c in PAIR.findall(m.group(1))]
            # sentinel (number of cases, 0) proves that the output was parsed completely
            n_here = min(shard, len(coq_cases) - k)
            if not pairs or pairs[-1] != (n_here, 0):
                errors.append({"shard": os.path.relpath(path, VERIF), "rc": rc, "out": "sentinel missing: " + out[-1500:]})
                continue
            for i, c in pairs[:-1]:
                results.append((k + i, c))
    return results, errors


def eval_terms(pid, imports, terms, tag="explain"):
    """Evaluate a few Coq terms (for replay explanations); returns raw output text."""
    wd = os.path.join(WORK, pid)
    os.makedirs(wd, exist_ok=True)
    path = os.path.join(wd, tag + ".v")
    with open(path, "w") as f:
        f.write("From Coq Require Import String List ZArith Bool NArith.\nFrom Verif Require Import Base.Str Base.Run.\n%s\n"
                "Import ListNotations.\nOpen Scope string_scope.\n" % imports)
        for t in terms:
            f.write("Eval vm_compute in (%s).\n" % t)
    rc, out = coqc(path, cwd=wd)
    return out[-6000:]


def write_if_changed(path, content):
    """Translator output: rewrite a generated .v only when its content changed (keeps make incremental)."""
    os.makedirs(os.path.dirname(path), exist_ok=True)
    try:
        with open(path) as f:
            if f.read() == content:
                return False
    except FileNotFoundError:
        pass
    with open(path, "w") as f:
        f.write(content)
    return True


GEN = os.path.join(COQDIR, "gen")


# ---------------------------------------------------------------------------- known findings
def load_known():
    """known_findings.json (the committed, canonical list) plus the per-property fragments
    findings/Cxx.json from which it is merged (tools/merge_findings.py); an entry marked fixed in the
    canonical file is never reopened by a fragment.  Nothing is written at run time."""
    out = {}
    if os.path.exists(KNOWN):
        with open(KNOWN) as f:
            for k in json.load(f).get("findings", []):
                out[k["id"]] = k
    fd = os.path.join(VERIF, "findings")
    if os.path.isdir(fd):
        for name in sorted(os.listdir(fd)):
            if not name.endswith(".json"):
                continue
            try:
                with open(os.path.join(fd, name)) as f:
                    frag = json.load(f)
            except Exception:
                continue
            for k in (frag.get("findings", []) if isinstance(frag, dict) else frag):
                if k.get("id") in out and out[k["id"]].get("status") == "fixed":
                    continue
                out[k["id"]] = k
    return list(out.values())


# ---------------------------------------------------------------------------- the generic driver
SEARCH_BUDGET_S = int(os.environ.get("VERIF_SEARCH_BUDGET", "240"))


def generic_search(mod, ctx, known, classes):
    """Alarm path only (a theorem, the translator or the correspondence broke, and no case of this run fails the
    spec): look for a concrete input on which the IMPLEMENTATION now violates the property.  The deep generator
    (thorough tier, two further seeds) is run in chunks against the real code and Coq evaluates the spec on
    each observed output, until a failing case is found or the wall-clock budget is used up.
    Returns (case, obs) or None."""
    pid = mod.PID
    t_end = time.time() + SEARCH_BUDGET_S
    for extra in (1, 2):
        sctx = Ctx(pid, "thorough", ctx.seed + extra)
        try:
            cases = mod.generate(sctx)
        except Exception:
            return None
        random.Random(ctx.seed + extra).shuffle(cases)
        for k in range(0, len(cases), 1600):
            if time.time() > t_end:
                return None
            chunk = cases[k:k + 1600]
            try:
                observed = observe_all(mod, chunk)
                terms = [mod.coq_case(c, o) for c, o in zip(chunk, observed)]
            except Exception:
                return None
            results, _errors = eval_cases(pid, mod.IMPORTS, mod.CASE_TYPE, mod.RUNNER, terms, shard=getattr(mod, "SHARD", 400),
                                          tag="search")
            for i, c in sorted(results):
                if c == 2:
                    return chunk[i], observed[i]
                if c >= 10:
                    ent = known.get((pid, c - 10))
                    if ent is None or ent.get("status") != "open":
                        return chunk[i], observed[i]
    return None


class Ctx:
    def __init__(self, pid, tier, seed):
        self.pid, self.tier, self.seed = pid, tier, seed
        self.rng = random.Random(seed)
        self.t0 = time.time()
        self.thorough = tier == "thorough"


def write_replay(pid, kind, payload):
    os.makedirs(REPLAYS, exist_ok=True)
    blob = json.dumps(payload, sort_keys=True, default=str)
    name = "%s-%s-%s.json" % (pid, kind, hashlib.sha1(blob.encode()).hexdigest()[:12])
    path = os.path.join(REPLAYS, name)
    with open(path, "w") as f:
        json.dump(payload, f, indent=1, sort_keys=True, default=str)
    return os.path.relpath(path, VERIF)


def observe_all(mod, cases):
    """Run the real code on every case; in parallel (fork) when the module allows it."""
    par = getattr(mod, "PARALLEL", 0)
    if par and len(cases) > 64:
        import multiprocessing

        with multiprocessing.get_context("fork").Pool(par) as pool:
            return pool.map(mod.observe, cases, chunksize=8)
    return [mod.observe(c) for c in cases]


def run_property(mod, ctx, replay_case=None):
    """mod provides: PID, IMPORTS, CASE_TYPE, RUNNER, generate(ctx), observe(case), coq_case(case, obs),
    nontrivial(case, obs) -> key|None, FINDING_CLASSES {k: finding id}, optional extra_obligations(ctx),
    TRUSTED (list), ASSUMPTIONS (list), RULE (str), optional explain_term(coq_case) -> Coq term."""
    pid = mod.PID
    lines = []
    violations = []
    known_seen = {}
    t0 = time.time()

    # 0. regenerated tables (translator), if any
    table_info = None
    translator_error = None
    if hasattr(mod, "regenerate_tables"):
        try:
            table_info = mod.regenerate_tables(ctx)
        except Exception as e:     # fail-closed: a table / function the translator cannot read is a broken obligation
            import traceback
            translator_error = "%s: %s" % (type(e).__name__, e)
            table_info = {"obligations": 1, "discharged": 0, "error": translator_error,
                          "trace": traceback.format_exc()[-1500:]}

    # 1. proof status
    proofs = check_proofs(pid)
    if translator_error:
        proofs["ok"] = False
        proofs["failed"] = ["translator: " + translator_error] + list(proofs.get("failed", []))
        proofs["discharged"] = 0
    elif table_info and table_info.get("untranslatable"):
        proofs["failed"] = ["translator: " + u for u in table_info["untranslatable"]] + list(proofs.get("failed", []))
    proof_broken = not proofs["ok"]

    # 1b. thorough tier: independent re-check of the compiled theory with coqchk (axioms listed)
    coqchk_info = None
    if ctx.thorough and proofs["ok"] and replay_case is None:
        rc, out = sh(["coqchk", "-o", "-silent", "-R", THEORIES, "Verif", "-R", os.path.join(COQDIR, "gen"), "VerifGen",
                      "Verif.%s.Property" % pid], cwd=COQDIR, timeout=1800)
        m = re.search(r"\* Axioms:(.*?)\n\s*\n\* Constants", out, flags=re.S)
        ax = m.group(1).strip() if m else "unparsed"
        unsafe = [l for l in ("type-in-type", "unsafe (co)fixpoints", "positivity is assumed")
                  if not re.search(re.escape(l) + r": <none>", out)]
        coqchk_info = {"rc": rc, "axioms": ax, "unsafe": unsafe}
        if rc != 0 or unsafe:
            proofs["ok"] = False
            proofs["failed"] = ["coqchk:" + (",".join(unsafe) or "rc=%d" % rc)]
            proofs["log"] = out[-2000:]
            proofs["discharged"] = 0
            proof_broken = True

    # 2. correspondence: run real code, evaluate model + spec in Coq
    if replay_case is not None:
        cases = [replay_case]
    else:
        cases = mod.generate(ctx)
    observed = observe_all(mod, cases)
    coq_terms = [mod.coq_case(c, o) for c, o in zip(cases, observed)]
    corr_unavailable = proof_broken and not os.path.exists(os.path.join(THEORIES, pid, "Corr.vo"))
    results, errors = ([], [])
    if not corr_unavailable:
        results, errors = eval_cases(pid, mod.IMPORTS, mod.CASE_TYPE, mod.RUNNER, coq_terms, shard=getattr(mod, "SHARD", 400))
    bad_model = sorted({i for i, c in results if c == 1})
    bad_spec = sorted({i for i, c in results if c == 2})
    bad_known = {}
    for i, c in results:
        if c >= 10:
            bad_known.setdefault(c - 10, []).append(i)

    # 3. decision
    known = {(k["property"], k.get("class")): k for k in load_known()}
    classes = getattr(mod, "FINDING_CLASSES", {})
    for k, idxs in sorted(bad_known.items()):
        ent = known.get((pid, k))
        if ent is not None and ent.get("status") == "open":
            known_seen[ent["id"]] = {"what": ent["what"], "count": len(idxs), "example": cases[idxs[0]],
                                     "observed": observed[idxs[0]]}
        else:
            bad_spec.extend(idxs)  # fixed or unlisted: a violation again
    bad_spec = sorted(set(bad_spec))

    def explain(i):
        if hasattr(mod, "explain_term"):
            return eval_terms(pid, mod.IMPORTS, [mod.explain_term(coq_terms[i])])
        return ""

    if bad_spec:
        # group by non-triviality key so that one defect is one line; replay = smallest case
        i = min(bad_spec, key=lambda j: len(json.dumps(cases[j], default=str)))
        case = cases[i]
        if hasattr(mod, "shrink"):
            case = mod.shrink(case, ctx)
        path = write_replay(pid, "spec", {
            "property": pid, "kind": "property-fails-on-implementation", "case": case, "observed": mod.observe(case),
            "coq_case": mod.coq_case(case, mod.observe(case)), "explain": explain(i),
            "failing_case_count": len(bad_spec), "seed": ctx.seed, "tier": ctx.tier})
        violations.append({"replay": path, "suffix": ""})
    elif bad_model or errors or proof_broken:
        # the property is no longer shown to hold: search for a failing input with the deep generator
        found = None
        if replay_case is None and hasattr(mod, "search") and not corr_unavailable:
            found = mod.search(ctx, [cases[i] for i in bad_model[:20]])
        if found is None and replay_case is None and not corr_unavailable:
            found = generic_search(mod, ctx, known, classes)
        if found is not None:
            case, obs = found
            path = write_replay(pid, "spec", {"property": pid, "kind": "property-fails-on-implementation (found by search)",
                                              "case": case, "observed": obs, "coq_case": mod.coq_case(case, obs),
                                              "seed": ctx.seed, "tier": ctx.tier})
            violations.append({"replay": path, "suffix": ""})
        else:
            what = []
            if proof_broken:
                what.append({"broken": "theorem", "names": proofs["failed"], "log": proofs["log"][-2000:]})
            if bad_model:
                i = bad_model[0]
                what.append({"broken": "correspondence corr:%s" % pid, "case": cases[i], "observed": observed[i],
                             "coq_case": coq_terms[i], "explain": explain(i), "disagreeing_cases": len(bad_model)})
            if errors:
                what.append({"broken": "correspondence evaluation corr:%s" % pid, "errors": errors[:3]})
            path = write_replay(pid, "unproved", {"property": pid, "kind": "no-longer-shown", "what": what,
                                                  "seed": ctx.seed, "tier": ctx.tier})
            violations.append({"replay": path, "suffix": " no-failing-input-found"})

    # 4. evidence
    keys = set()
    for c, o in zip(cases, observed):
        k = mod.nontrivial(c, o)
        if k is not None:
            keys.add(json.dumps(k, sort_keys=True, default=str))
    hist = {}
    if hasattr(mod, "histogram"):
        hist = mod.histogram(cases, observed)
    extra_obl = table_info.get("obligations", 0) if table_info else 0
    extra_dis = table_info.get("discharged", 0) if table_info else 0
    if table_info and proof_broken:
        extra_dis = 0
    samples = []
    for j in range(0, len(cases), max(1, len(cases) // 4))[:4] if cases else []:
        samples.append({"case": cases[j], "observed": observed[j], "coq": coq_terms[j][:600]})
    checker = "make -C coq theories/%s/Property.vo && coqc -R coq/theories Verif coq/theories/%s/Property.v (Print Assumptions) ; " \
              "coqc work/%s/cases_*.v (vm_compute: model =? impl, spec on impl output)" % (pid, pid, pid)
    ev = {
        "property_id": pid, "tier": ctx.tier, "seed": ctx.seed, "level": "proof",
        "coverage": {
            "obligations": proofs["obligations"] + extra_obl,
            "discharged": proofs["discharged"] + extra_dis,
            "checker_cmd": checker,
            "trusted_base": ["Coq 8.16.1 kernel + vm_compute (no native_compute)",
                             "Print Assumptions: " + ("Closed under the global context" if not proofs["axioms"] else
                                                      "axioms " + ", ".join(proofs["axioms"]))] + list(getattr(mod, "TRUSTED", [])),
            "theorems": proofs["theorems"],
            "evaluations": len(cases),
            "distinct_nontrivial": len(keys),
            "rule": getattr(mod, "RULE", ""),
            "samples": samples,
            "traces_validated_against_impl": len(cases) - len(bad_model),
            "model_disagreements": len(bad_model),
            "spec_failures": len(bad_spec),
            "known_findings_seen": sorted(known_seen),
            "input_distribution": hist,
            "tables": table_info,
            "coqchk": coqchk_info,
            "exhaustive": bool(getattr(mod, "EXHAUSTIVE", False)),
        },
        "assumptions": list(getattr(mod, "ASSUMPTIONS", [])),
        "wall_s": round(time.time() - t0, 2),
        "violations": len(violations),
    }
    if replay_case is None:
        os.makedirs(EVID, exist_ok=True)
        with open(os.path.join(EVID, pid + ".json"), "w") as f:
            json.dump(ev, f, indent=1, sort_keys=True, default=str)
    for fid, info in sorted(known_seen.items()):
        print("KNOWN-FINDING: property=%s %s [%s, %d case(s)]" % (pid, info["what"], fid, info["count"]))
    for v in violations:
        print("VIOLATION property=%s replay=%s%s" % (pid, v["replay"], v["suffix"]))
    print("%s %s: %d cases, %d theorem(s) checked, %d model disagreement(s), %d spec failure(s), %.1fs" % (
        pid, ctx.tier, len(cases), proofs["discharged"], len(bad_model), len(bad_spec), time.time() - t0))
    return 1 if violations else 0
