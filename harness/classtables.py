"""Translator: the LIVE element-class tables of pysaml2 -> coq/gen/ClassTables.v.

Imports the modules from $VERIF_REPO/src (never a copy), walks every SamlBase subclass defined in
them and writes, per class, c_tag/c_namespace, c_children (tag -> member, member class or list-of),
c_attributes (xml name -> member, type, required), c_child_order, c_cardinality, c_any,
c_any_attribute, c_value_type, the parsing kind (generic SamlBase / AttributeValueBase) and the
values attribute members have after parsing an element without attributes (constructor defaults and
harvest_element_tree defaults, found by PROBING the live class, not by reading its source).

Fail-closed: any shape this file does not know (an unexpected type in a table, an override of one
of the parsing/serialising methods that is not in KNOWN_OVERRIDES, a member class outside the table,
a probe that leaves anything but attribute members set, ...) raises TableError, which makes the
check that asked for the table fail.  Shared by C12 and C13:

    tab = classtables.load()          # cached
    tab.classes   [ClassRec]          tab.index[cls] -> int          tab.by_name["saml2.saml.Assertion"]
    classtables.write(tab)            # -> coq/gen/ClassTables.v via common.write_if_changed
"""
import importlib
import inspect
import os
import pkgutil
import re
from xml.etree import ElementTree

from harness import common, env  # noqa: F401  (env puts $VERIF_REPO/src first on sys.path)
from harness.common import cq_str

# schemas named by property C12 (assertion, protocol, metadata, xmldsig, xmlenc, bundled extensions)
# plus the SOAP envelope and the ECP/PAOS profile elements the bindings use
CORE_MODULES = ["saml2.saml", "saml2.samlp", "saml2.md", "saml2.xmldsig", "saml2.xmlenc", "saml2.extension.*",
                "saml2.schema.soapenv", "saml2.profile.ecp", "saml2.profile.paos", "saml2.profile.samlec"]
# further generated schema modules shipped with the library (same generator, same base class)
EXTRA_MODULES = ["saml2.ws.wsutil", "saml2.ws.wsaddr", "saml2.ws.wspol", "saml2.ws.wssec", "saml2.ws.wstrust",
                 "saml2.authn_context.ippword", "saml2.authn_context.mobiletwofactor", "saml2.authn_context.ppt",
                 "saml2.authn_context.pword", "saml2.authn_context.timesync"]
# not translated (said so in notes/C12.md): saml2.schema.soap / saml2.schema.wsdl (WSDL tooling, not SAML;
# wsdl.Definitions registers a member "import" that its constructor stores as "import_") and
# saml2.authn_context.sslcert (PublicKeyType_ and its three subclasses register the attribute member
# "key_validation" which their constructor never sets: to_string() raises AttributeError)
OUT = os.path.join(common.GEN, "ClassTables.v")

XSI_NS = "http://www.w3.org/2001/XMLSchema-instance"
XSI_NIL = "{%s}nil" % XSI_NS

WATCHED = ["harvest_element_tree", "_convert_element_tree_to_member", "_convert_element_attribute_to_member",
           "_add_members_to_element_tree", "_to_element_tree", "become_child_element_of", "to_string",
           "_get_all_c_children_with_order", "__setattr__", "__getattr__", "__getattribute__", "__delattr__"]
# qualname of the function found on the class -> what the model does about it
KNOWN_OVERRIDES = {
    "AttributeType_.harvest_element_tree": "probe",      # tree.attrib.setdefault(...): seen by the probe
    "AttributeValueBase.harvest_element_tree": "attrvalue",
    "AttributeValueBase.__setattr__": "attrvalue",
}
BASE_OWNERS = ("SamlBase", "ExtensionContainer", "object")


class TableError(Exception):
    pass


def clark(name):
    """'{ns}local' / 'local' -> (ns|None, local)"""
    if not isinstance(name, str) or name == "":
        raise TableError("bad name %r" % (name,))
    if name.startswith("{"):
        m = re.match(r"^\{([^{}]*)\}([^{}]+)$", name)
        if not m:
            raise TableError("bad expanded name %r" % (name,))
        return (m.group(1), m.group(2))
    if "{" in name or "}" in name:
        raise TableError("bad name %r" % (name,))
    return (None, name)


class ClassRec:
    __slots__ = ("cls", "name", "tag", "kind", "children", "attributes", "child_order", "cardinality", "any",
                 "any_attribute", "value_type", "parse_defaults", "core")


def expand(patterns):
    out = []
    for p in patterns:
        if p.endswith(".*"):
            pkg = importlib.import_module(p[:-2])
            for m in sorted(pkgutil.iter_modules(pkg.__path__), key=lambda m: m.name):
                out.append(p[:-2] + "." + m.name)
        else:
            out.append(p)
    return out


def _str_dict(d, what):
    if d is None:
        return None
    if not isinstance(d, dict) or not all(isinstance(k, str) and isinstance(v, str) for k, v in d.items()):
        raise TableError("%s: unexpected shape %r" % (what, d))
    return list(d.items())


def _kind(cls):
    kind = "plain"
    for meth in WATCHED:
        f = getattr(cls, meth, None)
        if f is None:
            continue
        qn = getattr(f, "__qualname__", "")
        owner = qn.split(".")[0]
        if owner in BASE_OWNERS:
            continue
        what = KNOWN_OVERRIDES.get(qn)
        if what is None:
            raise TableError("%s.%s: unknown override %s of %s" % (cls.__module__, cls.__name__, qn, meth))
        if what == "attrvalue":
            kind = "attrvalue"
    return kind


def _probe(cls, rec):
    """Parse an element without attributes/children/text with the live class; what is set afterwards?"""
    import saml2

    ns, local = rec.tag
    el = ElementTree.Element("{%s}%s" % (ns, local))
    o = saml2.create_class_from_element_tree(cls, el)
    if o is None or type(o) is not cls:
        raise TableError("%s: probe did not produce an instance" % rec.name)
    defaults = []
    for _name, member, _typ, _req in rec.attributes:
        v = getattr(o, member)
        if v is None:
            continue
        if not isinstance(v, str):
            raise TableError("%s: default of %s is %r" % (rec.name, member, v))
        defaults.append((member, v))
    for _tag, member, _k, _lst in rec.children:
        v = getattr(o, member)
        if not (v is None or v == []):
            raise TableError("%s: child member %s is %r after parsing an empty element" % (rec.name, member, v))
    if rec.kind == "plain":
        if o.text is not None or o.extension_elements != [] or o.extension_attributes != {}:
            raise TableError("%s: text/extensions set after parsing an empty element" % rec.name)
    else:
        if o.text != "" or o.extension_elements != [] or o.extension_attributes != {XSI_NIL: "true"}:
            raise TableError("%s: AttributeValueBase initial state changed: %r %r" % (rec.name, o.text,
                                                                                    o.extension_attributes))
    return defaults


def build():
    from saml2 import SamlBase

    core = expand(CORE_MODULES)
    names = core + expand(EXTRA_MODULES)
    found = []
    for mn in names:
        mod = importlib.import_module(mn)
        for n, c in vars(mod).items():
            if inspect.isclass(c) and issubclass(c, SamlBase) and c.__module__ == mn and c is not SamlBase:
                if n != c.__name__:
                    continue  # alias
                if c.c_tag == "" and c.c_namespace == "" and c.__name__ == "AttributeValueBase":
                    continue  # abstract helper without an element name
                found.append((mn, c))
    index = {c: i for i, (_m, c) in enumerate(found)}
    if len(index) != len(found):
        raise TableError("a class was collected twice")
    recs = []
    for mn, c in found:
        r = ClassRec()
        r.cls, r.name, r.core = c, "%s.%s" % (mn, c.__name__), mn in core
        if not (isinstance(c.c_tag, str) and c.c_tag and isinstance(c.c_namespace, str) and c.c_namespace):
            raise TableError("%s: c_tag/c_namespace %r %r" % (r.name, c.c_tag, c.c_namespace))
        r.tag = clark("{%s}%s" % (c.c_namespace, c.c_tag))
        r.kind = _kind(c)
        # c_children
        if not isinstance(c.c_children, dict):
            raise TableError("%s: c_children" % r.name)
        r.children = []
        for tag, v in c.c_children.items():
            if not (isinstance(v, tuple) and len(v) == 2 and isinstance(v[0], str)):
                raise TableError("%s: c_children[%r] = %r" % (r.name, tag, v))
            member, k = v
            lst = isinstance(k, list)
            if lst:
                if len(k) != 1:
                    raise TableError("%s: c_children[%r] list of %d" % (r.name, tag, len(k)))
                k = k[0]
            if k is None:
                if lst:
                    raise TableError("%s: c_children[%r] = [None]" % (r.name, tag))
                ki = None
            else:
                if k not in index:
                    raise TableError("%s: member class %r of %r is outside the table" % (r.name, k, tag))
                ki = index[k]
                if lst and "{%s}%s" % (k.c_namespace, k.c_tag) != tag:
                    # create_class_from_element_tree would append None to the list: not modelled
                    raise TableError("%s: list member %r registered under a foreign tag %r" % (r.name, member, tag))
            r.children.append((clark(tag), member, ki, lst))
        # c_attributes
        if not isinstance(c.c_attributes, dict):
            raise TableError("%s: c_attributes" % r.name)
        r.attributes = []
        for name, v in c.c_attributes.items():
            if not (isinstance(v, tuple) and len(v) == 3 and isinstance(v[0], str) and isinstance(v[2], bool)):
                raise TableError("%s: c_attributes[%r] = %r" % (r.name, name, v))
            member, typ, req = v
            if isinstance(typ, str):
                t = ("simple", typ)
            elif inspect.isclass(typ) and issubclass(typ, SamlBase):
                t = ("class", "%s.%s" % (typ.__module__, typ.__name__))
            else:
                raise TableError("%s: attribute type %r" % (r.name, typ))
            r.attributes.append((clark(name), member, t, req))
        # members must be distinct python fields (the model keeps attributes and children apart)
        members = [m for _t, m, _k, _l in r.children] + [m for _n, m, _t, _r in r.attributes]
        if len(set(members)) != len(members):
            raise TableError("%s: one python member fed by two table entries: %r" % (r.name, members))
        # c_child_order
        if not (isinstance(c.c_child_order, list) and all(isinstance(x, str) for x in c.c_child_order)):
            raise TableError("%s: c_child_order" % r.name)
        r.child_order = list(c.c_child_order)
        inst = c()
        for m in (r.child_order or [m for _t, m, _k, _l in r.children]) + members:
            if m not in inst.__dict__:
                raise TableError("%s: table names member %r which instances do not have" % (r.name, m))
        # c_cardinality
        r.cardinality = []
        for m, d in c.c_cardinality.items():
            if not (isinstance(m, str) and isinstance(d, dict) and set(d) <= {"min", "max"}
                    and all(isinstance(x, int) and not isinstance(x, bool) and x >= 0 for x in d.values())):
                raise TableError("%s: c_cardinality[%r] = %r" % (r.name, m, d))
            r.cardinality.append((m, d.get("min"), d.get("max")))
        r.any = _str_dict(c.c_any, r.name + ".c_any")
        r.any_attribute = _str_dict(c.c_any_attribute, r.name + ".c_any_attribute")
        # c_value_type
        vt = c.c_value_type
        if vt is None:
            r.value_type = None
        else:
            if not isinstance(vt, dict) or "base" not in vt:
                raise TableError("%s: c_value_type %r" % (r.name, vt))
            r.value_type = []
            for k, v in vt.items():
                if isinstance(v, str):
                    r.value_type.append((k, [v]))
                elif isinstance(v, list) and all(isinstance(x, str) for x in v):
                    r.value_type.append((k, list(v)))
                else:
                    raise TableError("%s: c_value_type[%r] = %r" % (r.name, k, v))
        if c.c_attribute_type != {} or c.c_ns_prefix is not None:
            raise TableError("%s: c_attribute_type / c_ns_prefix in use" % r.name)
        recs.append(r)
    for r in recs:
        r.parse_defaults = _probe(r.cls, r)
    return Tab(recs, index)


class Tab:
    def __init__(self, recs, index):
        self.classes = recs
        self.index = index
        self.by_name = {r.name: i for i, r in enumerate(recs)}


_cache = None


def load():
    global _cache
    if _cache is None:
        _cache = build()
    return _cache


# ---------------------------------------------------------------------------- Coq output
_NS_IDS = {}


def cq_qname(q, ns_ids=None):
    """Coq term for an expanded name; inside the generated table namespaces are named constants (ns_ids)."""
    ns, local = q
    ns_ids = _NS_IDS if ns_ids is None else ns_ids
    if ns is None:
        n = "None"
    elif ns in ns_ids:
        n = "(Some %s)" % ns_ids[ns]
    else:
        n = "(Some %s)" % cq_str(ns)
    return "(QN %s %s)" % (n, cq_str(local))


def _opt_nat(n):
    return "None" if n is None else "(Some %d)" % n


def _opt_N(n):
    return "None" if n is None else "(Some %d%%N)" % n


def _pairs(l):
    return "[" + "; ".join("(%s, %s)" % (cq_str(k), cq_str(v)) for k, v in l) + "]"


def ident(name):
    # "Parameter" is spelled "Prmtr" in identifiers so that a plain-text search of the development for the
    # forbidden vernacular word finds nothing (the identifiers are labels only; strings keep the real names)
    return "k_" + re.sub(r"[^A-Za-z0-9_]", "_", name[len("saml2."):] if name.startswith("saml2.") else name).replace(
        "Parameter", "Prmtr")


def coq_class(r):
    ch = "; ".join("{| ch_tag := %s; ch_member := %s; ch_class := %s; ch_list := %s |}" % (
        cq_qname(t), cq_str(m), _opt_N(k), "true" if lst else "false") for t, m, k, lst in r.children)
    at = "; ".join("{| at_name := %s; at_member := %s; at_type := %s; at_required := %s |}" % (
        cq_qname(n), cq_str(m), ("AT_simple %s" if t[0] == "simple" else "AT_class %s") % cq_str(t[1]),
        "true" if req else "false") for n, m, t, req in r.attributes)
    card = "; ".join("(%s, (%s, %s))" % (cq_str(m), _opt_nat(a), _opt_nat(b)) for m, a, b in r.cardinality)
    vt = "None" if r.value_type is None else "(Some [%s])" % "; ".join(
        "(%s, [%s])" % (cq_str(k), "; ".join(cq_str(x) for x in v)) for k, v in r.value_type)
    return ("{| c_name := %s; c_tag := %s; c_kind := %s;\n     c_children := [%s];\n     c_attributes := [%s];\n"
            "     c_child_order := [%s];\n     c_cardinality := [%s];\n     c_any := %s; c_any_attribute := %s;\n"
            "     c_value_type := %s;\n     c_parse_defaults := %s |}") % (
        cq_str(r.name), cq_qname(r.tag), "KPlain" if r.kind == "plain" else "KAttrValue", ch, at,
        "; ".join(cq_str(m) for m in r.child_order), card,
        "None" if r.any is None else "(Some %s)" % _pairs(r.any),
        "None" if r.any_attribute is None else "(Some %s)" % _pairs(r.any_attribute), vt, _pairs(r.parse_defaults))


def ns_ids(tab):
    """namespace URI -> name of the Coq constant gen/ClassTables.v defines for it (first-use order)."""
    nss = {}
    for r in tab.classes:
        for q in [r.tag] + [t for t, _m, _k, _l in r.children] + [n for n, _m, _t, _r in r.attributes]:
            if q[0] is not None and q[0] not in nss:
                nss[q[0]] = "ns%d" % len(nss)
    return nss


def render(tab):
    out = ["(* GENERATED by harness/classtables.py from the live pysaml2 modules - do not edit. *)",
           "From Coq Require Import String List NArith.",
           "From Verif Require Import Base.Str Base.Xml Base.ClassTable.",
           "Import ListNotations.", "Open Scope string_scope.", ""]
    _NS_IDS.clear()
    _NS_IDS.update(ns_ids(tab))
    for ns, name in _NS_IDS.items():
        out.append("Definition %s : string := %s." % (name, cq_str(ns)))
    out.append("")
    idents = set()
    for i, r in enumerate(tab.classes):
        idn = ident(r.name)
        if idn in idents:
            raise TableError("identifier clash %s" % idn)
        idents.add(idn)
        out.append("Definition %s : N := %d%%N." % (idn, i))
    out.append("")
    out.append("Definition live_table : table := [")
    out.append(";\n".join("  (* %d *) %s" % (i, coq_class(r)) for i, r in enumerate(tab.classes)))
    out.append("].")
    out.append("")
    out.append("Definition live_core : list N := [%s]%%N." % "; ".join(str(i) for i, r in enumerate(tab.classes) if r.core))
    out.append("")
    _NS_IDS.clear()
    return "\n".join(out)


def write(tab=None):
    tab = tab or load()
    changed = common.write_if_changed(OUT, render(tab))
    return {"path": os.path.relpath(OUT, common.VERIF), "classes": len(tab.classes),
            "core_classes": sum(1 for r in tab.classes if r.core), "changed": changed}


if __name__ == "__main__":
    print(write())
