"""C13 — everything the library emits is valid against the official SAML schemas.

Three parties per case:
  * the REAL builders (Saml2Client / Server / Entity create_*, metadata.entity_descriptor ...) produce a
    document;
  * the ORACLE: the XSD documents shipped in saml2/data/schemas, applied by xmlschema through
    saml2.xml.schema.validate (the library's own validator object) and through an extended validator
    that also knows the other shipped extension schemas; plus saml2.validate.valid_instance;
  * Coq: valid_doc live_table on the same document abstracted to a tree by an independent reader
    (xml.etree only), and — for the builders that are under the theorem — the model's tree.
spec      = the oracle accepts the real output (else VIOLATION with that call as replay)
agreement = Coq's structural verdict equals the oracle's, the model's tree equals the real one, and a
            document with one injected structural defect that the oracle rejects is rejected by Coq too.
"""
import copy
import importlib
import inspect
import os
import pkgutil
import re
import xml.etree.ElementTree as ET

from harness import common, env, fixtures, world
from harness.common import Raw, cq, cq_opt
from harness.common import cq_str as _cq_str

# Strings that recur in almost every case are written once per case file (Definition v<n>) and referred to by
# name: Coq spends most of its time reading string literals.  The vocabulary is fixed (module constants).
_VOCAB = {}
_VOCAB_ORDER = []


def _vocab_add(s_):
    if isinstance(s_, str) and len(s_) >= 12 and s_ not in _VOCAB and all(0x20 <= ord(c) <= 0x7E for c in s_):
        _VOCAB[s_] = "v%d" % len(_VOCAB)
        _VOCAB_ORDER.append(s_)


def cq_str(s_):
    v = _VOCAB.get(s_) if isinstance(s_, str) else None
    return v if v is not None else _cq_str(s_)


PID = "C13"
PARALLEL = 12
SHARD = 190            # cases per coqc file: the cost is parsing the case files, 16 of them run side by side
IMPORTS_BASE = "From Verif Require Import C13.Model C13.Builders C13.Extra C13.Farg C13.Release C13.Corr.\nFrom VerifGen Require Import C13Tables."
IMPORTS = IMPORTS_BASE
CASE_TYPE = "C13.Corr.case"
RUNNER = "C13.Corr.run"

OUT = os.path.join(common.GEN, "C13Tables.v")
XSI = "http://www.w3.org/2001/XMLSchema-instance"


# =============================================================================== translator
class TableError(Exception):
    pass


MODULES = ["saml2.saml", "saml2.samlp", "saml2.md", "saml2.xmldsig", "saml2.xmlenc", "saml2.extension.*",
           "saml2.schema.soapenv", "saml2.profile.ecp", "saml2.profile.paos", "saml2.profile.samlec"]

# c_attributes type strings / c_value_type bases -> lexical type of C13/Model.v.  A name that is not listed
# makes the translator fail (fail-closed): a new type must be given a lexical form deliberately.
LEX = {
    "string": "LAny", "anyURI": "LAny", "None": "LAny", "": "LAny", "anyType": "LAny", "xsd:string": "LAny",
    "md:entityIDType": "LAny", "mdui:listOfStrings": "LAny", "duration": "LAny", "QName": "LAny",
    "boolean": "LBoolean", "dateTime": "LDateTime", "datetime": "LDateTime", "ID": "LNCName", "NCName": "LNCName",
    "nonNegativeInteger": "LNonNeg", "positiveInteger": "LPosInt", "unsignedShort": "LUShort",
    "unsignedByte": "LUByte", "integer": "LInteger", "base64Binary": "LBase64",
}
NOT_CHECKED = ["duration", "QName", "list types", "maxlen facets", "anyURI (every string is in its lexical space)"]


def _expand(patterns):
    out = []
    for p in patterns:
        if p.endswith(".*"):
            pkg = importlib.import_module(p[:-2])
            for m in sorted(pkgutil.iter_modules(pkg.__path__), key=lambda m: m.name):
                out.append(p[:-2] + "." + m.name)
        else:
            out.append(p)
    return out


def _clark(name):
    if not isinstance(name, str) or not name:
        raise TableError("bad name %r" % (name,))
    if name.startswith("{"):
        m = re.match(r"^\{([^{}]*)\}([^{}]+)$", name)
        if not m:
            raise TableError("bad expanded name %r" % (name,))
        return (m.group(1), m.group(2))
    if "{" in name or "}" in name:
        raise TableError("bad name %r" % (name,))
    return ("", name)


def _lex_of_value_type(vt, what):
    if not isinstance(vt, dict) or "base" not in vt or not set(vt) <= {"base", "enumeration", "member", "maxlen"}:
        raise TableError("%s: c_value_type %r" % (what, vt))
    if "enumeration" in vt:
        en = vt["enumeration"]
        if not (isinstance(en, list) and all(isinstance(x, str) for x in en)) or vt["base"] not in ("string", "xsd:string"):
            raise TableError("%s: enumeration %r" % (what, vt))
        return "(LEnum %s)" % cq(list(en))
    if vt["base"] == "list" or "maxlen" in vt:
        return "LAny"
    if vt["base"] not in LEX:
        raise TableError("%s: unknown base type %r" % (what, vt["base"]))
    return LEX[vt["base"]]


def _wild_max(d):
    """maxOccurs of the wildcard: absent = 1, "unbounded" = None"""
    if d is None or "maxOccurs" not in d:
        return 1
    if d["maxOccurs"] == "unbounded":
        return None
    return int(d["maxOccurs"])


def _wild(d, what):
    if d is None:
        return "WNone"
    if not isinstance(d, dict) or not set(d) <= {"namespace", "processContents", "minOccurs", "maxOccurs"}:
        raise TableError("%s: wildcard %r" % (what, d))
    if d.get("processContents") != "lax":
        raise TableError("%s: wildcard processContents %r" % (what, d))
    if d.get("minOccurs", "0") not in ("0",) and "minOccurs" in d:
        raise TableError("%s: wildcard minOccurs %r" % (what, d))
    ns = d.get("namespace")
    if ns == "##any":
        return "WAny"
    if ns == "##other":
        return "WOther"
    raise TableError("%s: wildcard namespace %r" % (what, d))


class Rec:
    pass


# What the generated classes do NOT say although the schema they were generated from does (hand-written,
# checked against the schema documents by the correspondence: real outputs and injected defects):
#  * wildcard content that is not recorded in c_any: (namespace rule, minimum number of wildcard children)
SUPPLEMENT_ANY = {
    "samlp.ExtensionsType_": ("WOther", 1), "samlp.Extensions": ("WOther", 1),
    "md.ExtensionsType_": ("WOther", 1), "md.Extensions": ("WOther", 1),
    "schema.soapenv.Header_": ("WAny", 0), "schema.soapenv.Header": ("WAny", 0),
    "schema.soapenv.Body_": ("WAny", 0), "schema.soapenv.Body": ("WAny", 0),
    # saml:AttributeValue is xs:anyType: any children (AttributeConverter.to_eptid_value puts a saml:NameID there), any
    # attributes; children with a global declaration are validated against it (lax)
    "saml.AttributeValue": ("WAny", 0),
}
#  * a wildcard that stands inside a repeated choice of the schema (saml:Advice) may occur any number of times
#    although c_any carries no maxOccurs
SUPPLEMENT_ANY_UNBOUNDED = ["saml.AdviceType_", "saml.Advice"]
SUPPLEMENT_ANYATTR = {
    "schema.soapenv.Header_": "WOther", "schema.soapenv.Header": "WOther",
    "schema.soapenv.Body_": "WOther", "schema.soapenv.Body": "WOther",
    "schema.soapenv.Envelope_": "WOther", "schema.soapenv.Envelope": "WOther",
    "saml.AttributeValue": "WAny",
}
#  * ds:KeyInfoType registers the member encrypted_key but writes its cardinality under the key "key_info":
#    without this entry the member would count as "exactly one"
#  * the eIDAS RequestedAttribute class leaves isRequired untyped ("None") although the builder computes it with
#    str(...).lower(): the lexical form the schema demands (xs:boolean) is restored
SUPPLEMENT_ATTR_TYPE = {
    ("extension.requested_attributes.RequestedAttributeType_", "isRequired"): "LBoolean",
    ("extension.requested_attributes.RequestedAttribute", "isRequired"): "LBoolean",
}
SUPPLEMENT_CARD = {"encrypted_key": {"min": 0}}
SUPPLEMENT_CARD_BASE = "saml2.xmldsig.KeyInfoType_"


FOREIGN_KEYS = []
SUPPLEMENTS_USED = set()


_tab = None


def load_table():
    """The live classes -> list of Rec (name, cls, tag, elem, parts, attrs, text, any, anyattr)."""
    global _tab
    if _tab is not None:
        return _tab
    env.check_repo_import()
    from saml2 import SamlBase

    found = []
    for mn in _expand(MODULES):
        mod = importlib.import_module(mn)
        for n, c in vars(mod).items():
            if inspect.isclass(c) and issubclass(c, SamlBase) and c.__module__ == mn and c is not SamlBase:
                if n != c.__name__:
                    continue
                if c.__name__ == "AttributeValueBase" and not c.c_tag:
                    continue
                found.append(c)
    index = {c: i for i, c in enumerate(found)}
    if len(index) != len(found):
        raise TableError("a class was collected twice")
    recs = []
    for c in found:
        r = Rec()
        r.cls = c
        r.name = "%s.%s" % (c.__module__[len("saml2."):], c.__name__)
        if not (isinstance(c.c_tag, str) and c.c_tag and isinstance(c.c_namespace, str) and c.c_namespace):
            raise TableError("%s: c_tag/c_namespace %r %r" % (r.name, c.c_tag, c.c_namespace))
        r.tag = (c.c_namespace, c.c_tag)
        r.elem = not c.__name__.endswith("_")
        # members
        if not isinstance(c.c_children, dict) or not isinstance(c.c_cardinality, dict):
            raise TableError("%s: c_children / c_cardinality" % r.name)
        by_member = {}
        for tag, v in c.c_children.items():
            if not (isinstance(v, tuple) and len(v) == 2 and isinstance(v[0], str)):
                raise TableError("%s: c_children[%r] = %r" % (r.name, tag, v))
            member, k = v
            lst = isinstance(k, list)
            if lst:
                if len(k) != 1:
                    raise TableError("%s: c_children[%r]" % (r.name, tag))
                k = k[0]
            if k is not None and k not in index:
                raise TableError("%s: member class %r outside the table" % (r.name, k))
            if member in by_member:
                raise TableError("%s: member %s fed by two tags" % (r.name, member))
            etag = _clark(tag)
            if k is not None and (k.c_namespace, k.c_tag) != etag:
                # serialisation writes the member class's own name (xmlenc registers EncryptedKey under a
                # mistyped key in ds.KeyInfo): the particle is what is WRITTEN
                FOREIGN_KEYS.append((r.name, member, tag))
                etag = (k.c_namespace, k.c_tag)
            by_member[member] = (etag, None if k is None else index[k], lst)
        order = list(c.c_child_order) if c.c_child_order else [v[0] for v in c.c_children.values()]
        if sorted(order) != sorted(by_member) or len(set(order)) != len(order):
            raise TableError("%s: c_child_order %r does not enumerate the members %r" % (r.name, order, sorted(by_member)))
        for m, d in c.c_cardinality.items():
            if not (isinstance(d, dict) and set(d) <= {"min", "max"}
                    and all(isinstance(x, int) and not isinstance(x, bool) and x >= 0 for x in d.values())):
                raise TableError("%s: c_cardinality[%r] = %r" % (r.name, m, d))
        r.parts = []
        is_keyinfo = any("%s.%s" % (b.__module__, b.__name__) == SUPPLEMENT_CARD_BASE for b in c.__mro__)
        for m in order:
            tag, k, lst = by_member[m]
            card = c.c_cardinality.get(m, {})
            if m not in c.c_cardinality and is_keyinfo and m in SUPPLEMENT_CARD:
                card = SUPPLEMENT_CARD[m]
                SUPPLEMENTS_USED.add("cardinality %s.%s" % (r.name, m))
            mn_ = card.get("min", 1)
            mx = card.get("max", None if lst else 1)
            if not lst and mx is not None and mx > 1:
                raise TableError("%s: single member %s with max %r" % (r.name, m, mx))
            r.parts.append((tag, k, mn_, mx, m))
        # attributes
        r.attrs = []
        r.ids = []              # attributes of type xs:ID: their values are unique within a document
        for name, v in c.c_attributes.items():
            if not (isinstance(v, tuple) and len(v) == 3 and isinstance(v[0], str) and isinstance(v[2], bool)):
                raise TableError("%s: c_attributes[%r] = %r" % (r.name, name, v))
            member, typ, req = v
            if isinstance(typ, str):
                if typ not in LEX:
                    raise TableError("%s: attribute %s has unknown type %r" % (r.name, name, typ))
                lx = LEX[typ]
                if typ == "ID":
                    r.ids.append(_clark(name))
            elif inspect.isclass(typ) and issubclass(typ, SamlBase):
                lx = _lex_of_value_type(typ.c_value_type, "%s.%s" % (r.name, name)) if typ.c_value_type else "LAny"
            else:
                raise TableError("%s: attribute type %r" % (r.name, typ))
            if (r.name, name) in SUPPLEMENT_ATTR_TYPE:
                if lx != "LAny":
                    raise TableError("%s.%s is typed now, drop it from SUPPLEMENT_ATTR_TYPE" % (r.name, name))
                lx = SUPPLEMENT_ATTR_TYPE[(r.name, name)]
                SUPPLEMENTS_USED.add("attribute type %s.%s" % (r.name, name))
            r.attrs.append((_clark(name), lx, req, member))
        r.text = "TElemOnly" if c.c_value_type is None else "(TLex %s)" % _lex_of_value_type(c.c_value_type, r.name)
        r.any = _wild(c.c_any, r.name + ".c_any")
        r.anymin = 0
        r.anymax = _wild_max(c.c_any)
        if r.name in SUPPLEMENT_ANY_UNBOUNDED:
            if r.any == "WNone":
                raise TableError("%s has no c_any any more, drop it from SUPPLEMENT_ANY_UNBOUNDED" % r.name)
            r.anymax = None
            SUPPLEMENTS_USED.add("wildcard repeated %s" % r.name)
        r.anyattr = _wild(c.c_any_attribute, r.name + ".c_any_attribute")
        if r.name in SUPPLEMENT_ANY:
            if r.any != "WNone":
                raise TableError("%s: the class now has c_any, drop it from SUPPLEMENT_ANY" % r.name)
            r.any, r.anymin = SUPPLEMENT_ANY[r.name]
            r.anymax = None
            SUPPLEMENTS_USED.add("wildcard %s" % r.name)
        if r.name in SUPPLEMENT_ANYATTR:
            if r.anyattr != "WNone":
                raise TableError("%s: the class now has c_any_attribute, drop it from SUPPLEMENT_ANYATTR" % r.name)
            r.anyattr = SUPPLEMENT_ANYATTR[r.name]
            SUPPLEMENTS_USED.add("attribute wildcard %s" % r.name)
        recs.append(r)
    missing = [n for n in list(SUPPLEMENT_ANY) + list(SUPPLEMENT_ANYATTR) if n not in {r.name for r in recs}]
    if missing:
        raise TableError("supplemented classes are gone: %r" % missing)
    _tab = recs
    return recs


def class_index(name):
    for i, r in enumerate(load_table()):
        if r.name == name:
            return i
    raise TableError("no class %s" % name)


_NS = {}


def ns_ids():
    if not _NS:
        for r in load_table():
            for q in [r.tag] + [p[0] for p in r.parts] + [a[0] for a in r.attrs]:
                if q[0] and q[0] not in _NS:
                    _NS[q[0]] = "ns%d" % len(_NS)
    return _NS


def cq_q(q):
    ns, local = q
    n = ns_ids().get(ns)
    return "(Q %s %s)" % (n if n else cq_str(ns), cq_str(local))


def kname(name):
    return "k_" + re.sub(r"[^A-Za-z0-9_]", "_", name)


def render_table():
    saved = dict(_VOCAB)
    _VOCAB.clear()          # the generated table is self-contained: no per-run vocabulary names in it
    try:
        return _render_table()
    finally:
        _VOCAB.update(saved)


def _render_table():
    recs = load_table()
    L = ["(* GENERATED by harness/c13.py from the live pysaml2 element classes - do not edit. *)",
         "From Coq Require Import String List.", "From Verif Require Import Base.Str C13.Model.",
         "Import ListNotations.", "Open Scope string_scope.", ""]
    for ns, i in ns_ids().items():
        L.append("Definition %s : string := %s." % (i, cq_str(ns)))
    L.append("")
    seen = set()
    for i, r in enumerate(recs):
        k = kname(r.name)
        if k in seen:
            raise TableError("identifier clash %s" % k)
        seen.add(k)
        L.append("Definition %s : nat := %d." % (k, i))
    L.append("")
    rows = []
    for i, r in enumerate(recs):
        parts = "; ".join("P %s %s %d %s" % (cq_q(t), "None" if k is None else "(Some %d)" % k, mn,
                                             "None" if mx is None else "(Some %d)" % mx) for t, k, mn, mx, _m in r.parts)
        attrs = "; ".join("A %s %s %s" % (cq_q(n), lx, "true" if req else "false") for n, lx, req, _m in r.attrs)
        rows.append("  (* %d *) {| ci_name := %s; ci_tag := %s; ci_elem := %s;\n     ci_parts := [%s];\n     ci_attrs := [%s];\n"
                    "     ci_text := %s; ci_any := %s; ci_anymin := %d; ci_anymax := %s; ci_anyattr := %s |}" % (
                        i, cq_str(r.name), cq_q(r.tag), "true" if r.elem else "false", parts, attrs, r.text, r.any, r.anymin,
                        "None" if r.anymax is None else "(Some %d)" % r.anymax, r.anyattr))
    L.append("Definition live_table : table := [")
    L.append(";\n".join(rows))
    L.append("].")
    L.append("")
    L.append("(* per class (same order): the attributes declared with type xs:ID *)")
    L.append("Definition live_ids : list (list qname) := [")
    L.append(";\n".join("  (* %d *) [%s]" % (i, "; ".join(cq_q(n) for n in r.ids)) for i, r in enumerate(recs)))
    L.append("].")
    L.append("")
    L.append("(* the built-in attribute maps (saml2.attributemaps, loaded by ac_factory() when no attribute_map_dir is")
    L.append("   configured), in loading order: (name_format, (_to, _fro)) with the keys as from_dict lower-cases them *)")
    L.append("Definition builtin_convs_raw : list (string * (list (string * string) * list (string * string))) := [")
    L.append(";\n".join("  " + conv_raw(c) for c in builtin_converters()))
    L.append("].")
    return "\n".join(L) + "\n"


def builtin_converters():
    from saml2.attribute_converter import ac_factory

    return ac_factory()


def conv_raw(c):
    """an AttributeConverter -> Coq (name_format, (_to, _fro)); fail-closed on anything that is not str -> str"""
    def tab(d):
        d = d or {}
        for k, v in d.items():
            if not isinstance(k, str) or not isinstance(v, str):
                raise TableError("attribute map entry %r: %r is not str -> str" % (k, v))
        return "[%s]" % "; ".join("(%s, %s)" % (_cq_str(k), _cq_str(v)) for k, v in d.items())
    if not isinstance(c.name_format, str):
        raise TableError("attribute map identifier %r" % (c.name_format,))
    return "(%s, (%s, %s))" % (_cq_str(c.name_format), tab(c._to), tab(c._fro))


def source2_items():
    """What translator v2 (harness/py2coq2.py) re-translates from the source text on every run: the two loops of
    create_requested_attribute_node.  The two element constructors are spec calls (an object with the keyword
    arguments as fields); C13/Source2.v proves the translated function equal to Builders.ra_resolve_all for ALL
    attribute dictionaries and ALL converter lists."""
    from harness import py2coq2

    def requested_attribute(a, kw):
        extra = sorted(set(kw) - {"is_required", "name_format", "friendly_name", "name"})
        if a or extra or len(kw) != 4:
            raise py2coq2.Untranslatable("RequestedAttribute(%d positional; keywords %s)" % (len(a), sorted(kw)))
        return ('(PObj [("__class__", PStr "RequestedAttribute"); ("name", %s); ("name_format", %s); ("friendly_name", %s); '
                '("is_required", %s)])' % (kw["name"], kw["name_format"], kw["friendly_name"], kw["is_required"]))

    def requested_attributes(a, kw):
        if a or sorted(kw) != ["extension_elements"]:
            raise py2coq2.Untranslatable("RequestedAttributes(%d positional; keywords %s)" % (len(a), sorted(kw)))
        return '(PObj [("__class__", PStr "RequestedAttributes"); ("extension_elements", %s)])' % kw["extension_elements"]

    return [(os.path.join(env.SRC, "saml2", "client_base.py"), "create_requested_attribute_node",
             {"name": "src2_create_requested_attribute_node", "params": ["requested_attrs", "attribute_converters"],
              "calls": {"RequestedAttribute": requested_attribute, "RequestedAttributes": requested_attributes}})]


def regenerate_tables(ctx):
    from harness import py2coq2

    changed = common.write_if_changed(OUT, render_table())
    recs = load_table()
    # translator v2: create_requested_attribute_node as it reads NOW -> coq/gen/C13Src2.v (a function that can no
    # longer be translated becomes a poisoned definition: its theorem stops checking)
    src2 = py2coq2.regenerate(os.path.join(common.GEN, "C13Src2.v"), source2_items())
    return {"file": "coq/gen/C13Tables.v", "classes": len(recs), "changed": changed or bool(src2.get("changed")),
            "builtin_attribute_maps": len(builtin_converters()),
            "source2": src2, "untranslatable": list(src2["untranslatable"]),
            "members": sum(len(r.parts) for r in recs), "attributes": sum(len(r.attrs) for r in recs),
            "lexical_types_not_checked": NOT_CHECKED, "members_registered_under_a_foreign_key": FOREIGN_KEYS,
            "under_theorem": UNDER_THEOREM, "correspondence_only": CORRESPONDENCE_ONLY,
            "supplements_to_the_class_tables": sorted(SUPPLEMENTS_USED),
            # table obligations are the table_* theorems of Property.v (counted there); the translated function is one more
            "obligations": src2["obligations"], "discharged": src2["discharged"]}


# =============================================================================== independent reader
class LossyAbstraction(Exception):
    pass


_B64_RUN = re.compile(r"^[A-Za-z0-9+/]+={0,2}$")


def shorten_b64(text):
    """Long base64 payloads (certificates, signature and cipher values) are cut to their first eight and
    their last group of four characters.  The base64Binary lexical check depends only on the alphabet,
    on the length modulo 4 and on where '=' stands, all of which the cut preserves; anything that is
    not a pure, group-aligned base64 run is left as it is."""
    if len(text) <= 96:
        return text
    t = "".join(text.split())
    if len(t) % 4 != 0 or not _B64_RUN.match(t):
        return text
    return t[:32] + t[-4:]


XSI_TYPE_ATTR = "{%s}type" % XSI


def resolve_qname(value, scope):
    """The QName in an attribute VALUE (xsi:type) against the namespace bindings in scope, innermost last:
    "{uri}local" when the prefix (or, for an unprefixed name, a default namespace) is bound; otherwise the
    value as written - which then names no type."""
    v = value.strip(" \t\r\n")
    if ":" in v:
        p, local = v.split(":", 1)
    else:
        p, local = "", v
    for pfx, uri in reversed(scope):
        if pfx == p:
            return "{%s}%s" % (uri, local) if uri else value
    return value


def read_tree(xml):
    """XML text -> nested [ (ns, local), [((ns, local), value)...], text, [kids] ] using xml.etree only.
    Namespace declarations are not part of the tree; the one place where the emitted documents depend on them
    beyond element / attribute names - the QName value of xsi:type - is resolved here (resolve_qname)."""
    import io

    if isinstance(xml, str):
        xml = xml.encode("utf-8")
    scope, resolved, root = [], {}, None
    for ev, item in ET.iterparse(io.BytesIO(xml), events=("start", "start-ns", "end-ns")):
        if ev == "start-ns":
            scope.append(item)
        elif ev == "end-ns":
            scope.pop()
        else:
            if root is None:
                root = item
            if XSI_TYPE_ATTR in item.attrib:
                resolved[item] = resolve_qname(item.attrib[XSI_TYPE_ATTR], scope)

    def conv(el):
        if not isinstance(el.tag, str):
            raise LossyAbstraction("comment / processing instruction in output")
        if el.tail is not None and el.tail.strip(" \t\r\n") != "":
            raise LossyAbstraction("character data after a child element")
        attrs = sorted((_clark(k), resolved[el] if k == XSI_TYPE_ATTR else v) for k, v in el.attrib.items())
        return [list(_clark(el.tag)), [[list(k), v] for k, v in attrs], shorten_b64(el.text or ""), [conv(k) for k in el]]

    return conv(root)


def cq_tree(t):
    tag, attrs, text, kids = t
    return "(Node %s [%s] %s [%s])" % (
        cq_q(tuple(tag)), "; ".join("(%s, %s)" % (cq_q(tuple(k)), cq_str(v)) for k, v in attrs), cq_str(text),
        "; ".join(cq_tree(k) for k in kids))


def tree_size(t):
    return 1 + sum(tree_size(k) for k in t[3])


# =============================================================================== the real library
TRANSIENT = "urn:oasis:names:tc:SAML:2.0:nameid-format:transient"
PERSISTENT = "urn:oasis:names:tc:SAML:2.0:nameid-format:persistent"
EMAIL = "urn:oasis:names:tc:SAML:1.1:nameid-format:emailAddress"
NF_URI = "urn:oasis:names:tc:SAML:2.0:attrname-format:uri"
AC_PASSWORD = "urn:oasis:names:tc:SAML:2.0:ac:classes:Password"
AC_PPT = "urn:oasis:names:tc:SAML:2.0:ac:classes:PasswordProtectedTransport"
SP_ACS_PAOS = "https://sp.example.org/acs/paos"
IDP_SSO_SOAP = "https://idp.example.org/sso/soap"
NOW = 1700000000

_clock = None
_entities = {}
_validators = {}


# What the library hands to the xmlsec binary during one builder call (statement to sign / encrypt): the
# stand-in's losses are compensated from this record only (see compensate_standin).
_TO_XMLSEC = []


def _install_xmlsec_input_recorder():
    import saml2.sigver as sv

    if getattr(sv.make_temp, "_c13_recorder", False):
        return
    real = sv.make_temp

    def make_temp(content, *a, **kw):
        try:
            txt = content.decode("utf-8", "replace") if isinstance(content, bytes) else str(content)
            if XS_NS in txt:
                _TO_XMLSEC.append(txt)
        except Exception:
            pass
        return real(content, *a, **kw)

    make_temp._c13_recorder = True
    sv.make_temp = make_temp


def setup():
    global _clock
    if _clock is None:
        env.install_standin()
        _install_xmlsec_input_recorder()
        _clock = env.VClock(NOW).install()
    _clock.set(NOW)


def _idp_md():
    return world.idp_descriptor(
        world.IDP_ID, [("idp", "signing"), ("idpenc", "encryption")],
        sso=[(world.BINDING_HTTP_REDIRECT, world.IDP_SSO_REDIRECT), (world.BINDING_HTTP_POST, world.IDP_SSO_POST),
             (world.BINDING_SOAP, IDP_SSO_SOAP)])


# the KeyDescriptors the service provider publishes (cfg "_sp_keys"): what Entity.has_encrypt_cert_in_metadata /
# _encrypt_assertion find for it.  A KeyDescriptor without `use` serves both purposes.
SP_KEYS = {
    "both": [("sp", "signing"), ("sp", "encryption")],
    "signing": [("sp", "signing")],                                   # nothing to encrypt for
    "nouse": [("sp", None)],                                          # one KeyDescriptor, no use attribute
    "none": [],                                                       # no KeyDescriptor at all
    "two-enc": [("sp", "signing"), ("spenc2", "encryption"), ("sp", "encryption")],
    "enc-only": [("sp", "encryption")],
}
SP_KEYS_ENC = {"both": True, "signing": False, "nouse": True, "none": False, "two-enc": True, "enc-only": True}


def _sp_keys_of(cfg):
    return cfg.get("_sp_keys") or ("both" if cfg.get("_sp_enc_in_md", True) else "signing")


def _sp_md(keys="both", acs_extra=""):
    return world.sp_descriptor(world.SP_ID, SP_KEYS[keys], acs=[(world.BINDING_HTTP_POST, world.SP_ACS_POST, 1),
                                                                (world.BINDING_HTTP_REDIRECT, world.SP_ACS_REDIRECT, 2),
                                                                (world.BINDING_PAOS, SP_ACS_PAOS, 3)], acs_extra=acs_extra)


def _requested_attributes_md(l):
    """[[name, friendly name, is required], ...] -> an md:AttributeConsumingService of the SP's descriptor"""
    if not l:
        return ""
    from xml.sax.saxutils import quoteattr

    return ('<md:AttributeConsumingService index="1"><md:ServiceName xml:lang="en">verif sp</md:ServiceName>%s'
            "</md:AttributeConsumingService>" % "".join(
                '<md:RequestedAttribute Name=%s NameFormat=%s%s%s/>' % (
                    quoteattr(n), quoteattr(NF_URI), " FriendlyName=%s" % quoteattr(f) if f else "",
                    "" if r is None else ' isRequired="%s"' % ("true" if r else "false")) for n, f, r in l))


# verify_encrypt_cert_advice / verify_encrypt_cert_assertion of the configuration are callables (cfg "_verify_adv" /
# "_verify_ass" name one)
def _verifier_accept(cert):
    return True


def _verifier_reject(cert):
    return False


VERIFIERS = {"accept": _verifier_accept, "reject": _verifier_reject}


def sp_conf(cfg):
    """cfg: abstract SP options -> configuration dict."""
    sec = {
        "endpoints": {
            "assertion_consumer_service": [(world.SP_ACS_POST, world.BINDING_HTTP_POST),
                                           (world.SP_ACS_REDIRECT, world.BINDING_HTTP_REDIRECT),
                                           (SP_ACS_PAOS, world.BINDING_PAOS)],
            "single_logout_service": [(world.SP_SLO_REDIRECT, world.BINDING_HTTP_REDIRECT),
                                      (world.SP_SLO_POST, world.BINDING_HTTP_POST), (world.SP_SLO_SOAP, world.BINDING_SOAP)],
        },
        "idp": [world.IDP_ID],
    }
    conf = {
        "entityid": world.SP_ID,
        "service": {"sp": sec},
        "key_file": fixtures.key_path("sp"), "cert_file": fixtures.cert_path("sp"),
        "xmlsec_binary": env.STANDIN_PATH, "metadata": {"inline": [_idp_md()]}, "delete_tmpfiles": True,
        "encryption_keypairs": [{"key_file": fixtures.key_path("sp"), "cert_file": fixtures.cert_path("sp")}],
    }
    for k, v in cfg.items():
        if k == "_maps":
            conf["attribute_map_dir"] = map_dir(v)      # an attribute_map_dir of the harness's own (MAPSETS)
        elif k.startswith("_"):
            continue
        elif k.startswith("sp_"):
            sec[k[3:]] = copy.deepcopy(v)
        else:
            conf[k] = copy.deepcopy(v)
    return conf


# ------------------------------------------------------------------------------- attribute maps of the harness's own
# Three small maps A, B, C.  Friendly name "f<S>" / name "urn:n:<S>" is known to exactly the maps whose letter is in S,
# every map answers with a value of its own ("urn:a:fAB", "frAB.a"), so the output shows which map was asked.  Keys in
# mixed case test the lower-casing at load time and at look-up time.  A map set names the maps and their loading order
# (ac_factory loads the files of the directory in sorted order); "x" is A given with "fro" only (from_dict derives _to).
NF_C = "urn:example:verif:attrname-format:c"
_SUBSETS = ["A", "B", "C", "AB", "AC", "BC", "ABC"]


def _map_dict(letter):
    fmt = {"A": NF_URI, "B": "urn:oasis:names:tc:SAML:2.0:attrname-format:basic", "C": NF_C}[letter]
    lo = letter.lower()
    to = {"f" + s: "urn:%s:f%s" % (lo, s) for s in _SUBSETS if letter in s}
    fro = {"urn:n:" + s: "fr%s.%s" % (s, lo) for s in _SUBSETS if letter in s}
    to["MixedCase" + letter] = "urn:%s:Mixed" % lo
    fro["URN:N:Upper" + letter] = "frUpper.%s" % lo
    return {"identifier": fmt, "to": to, "fro": fro}


MAPSETS = {"abc": "ABC", "cba": "CBA", "bac": "BAC", "acb": "ACB", "a": "A", "ab": "AB", "bc": "BC", "xb": "xB"}


def map_dir(name):
    """the directory of map set `name` (written on first use; module names are unique per set because
    attribute_converter imports the files as top-level modules and Python caches modules by name)"""
    import tempfile

    letters = MAPSETS[name]
    d = os.path.join(tempfile.gettempdir(), "verif-c13-maps-%d" % os.getuid(), name)
    os.makedirs(d, exist_ok=True)
    for i, letter in enumerate(letters):
        if letter == "x":
            m = _map_dict("A")
            del m["to"]
        else:
            m = _map_dict(letter)
        text = "# written by harness/c13.py (map set %s)\nMAP = %r\n" % (name, m)
        f = os.path.join(d, "c13map_%s_%d.py" % (name, i))
        try:
            with open(f) as fh:
                same = fh.read() == text
        except OSError:
            same = False
        if not same:
            tmp = "%s.%d.tmp" % (f, os.getpid())
            with open(tmp, "w") as fh:
                fh.write(text)
            os.replace(tmp, f)
    return d


def idp_conf(cfg):
    sec = {
        "endpoints": {
            "single_sign_on_service": [(world.IDP_SSO_REDIRECT, world.BINDING_HTTP_REDIRECT),
                                       (world.IDP_SSO_POST, world.BINDING_HTTP_POST)],
            "single_logout_service": [(world.IDP_SLO_SOAP, world.BINDING_SOAP),
                                      (world.IDP_SLO_REDIRECT, world.BINDING_HTTP_REDIRECT),
                                      (world.IDP_SLO_POST, world.BINDING_HTTP_POST)],
        },
        "policy": {"default": {"lifetime": {"minutes": 15}, "attribute_restrictions": None, "name_form": NF_URI}},
        "name": "verif idp",
    }
    conf = {
        "entityid": world.IDP_ID,
        "service": {"idp": sec},
        "key_file": fixtures.key_path("idp"), "cert_file": fixtures.cert_path("idp"),
        "xmlsec_binary": env.STANDIN_PATH,
        "metadata": {"inline": [_sp_md(_sp_keys_of(cfg), _requested_attributes_md(cfg.get("_sp_requested")))]},
        "delete_tmpfiles": True,
    }
    for k, attr in (("_verify_adv", "verify_encrypt_cert_advice"), ("_verify_ass", "verify_encrypt_cert_assertion")):
        if cfg.get(k):
            sec[attr] = VERIFIERS[cfg[k]]
    for k, v in cfg.items():
        if k.startswith("_"):
            continue
        if k.startswith("idp_"):
            sec[k[4:]] = copy.deepcopy(v)
        elif k.startswith("svc_"):
            conf["service"][k[4:]] = copy.deepcopy(v)
        else:
            conf[k] = copy.deepcopy(v)
    return conf


def _freeze(x):
    import json

    return json.dumps(x, sort_keys=True, default=str)


def get_sp(cfg, fresh=False):
    setup()
    key = "sp" + _freeze(cfg)
    if fresh or key not in _entities:
        from saml2.client import Saml2Client
        from saml2.config import SPConfig

        c = SPConfig()
        c.load(sp_conf(cfg))
        _entities[key] = Saml2Client(config=c)
    return _entities[key]


def get_idp(cfg, fresh=False):
    setup()
    key = "idp" + _freeze(cfg)
    if fresh or key not in _entities:
        from saml2.config import IdPConfig
        from saml2.server import Server

        c = IdPConfig()
        c.load(idp_conf(cfg))
        _entities[key] = Server(config=c)
    return _entities[key]


# ------------------------------------------------------------------------------- the oracle
EXTRA_SCHEMAS = {
    "urn:oasis:names:tc:SAML:metadata:ui": "sstc-saml-metadata-ui-v1.0.xsd",
    "urn:oasis:names:tc:SAML:metadata:attribute": "sstc-metadata-attr.xsd",
    "urn:oasis:names:tc:SAML:metadata:algsupport": "sstc-saml-metadata-algsupport-v1.0.xsd",
    "urn:oasis:names:tc:SAML:protocol:ext:req-attr": "sstc-req-attr-ext.xsd",
    "urn:oasis:names:tc:SAML:2.0:profiles:SSO:ecp": "saml-schema-ecp-2.0.xsd",
    "urn:mace:shibboleth:metadata:1.0": "saml-subject-id-attr-v1.0.xsd",
}


def extended_validator():
    """The shipped XSD documents, including the extension schemas the default validator does not load."""
    if "ext" not in _validators:
        import saml2.xml.schema as sx
        from xmlschema import XMLSchema

        base = sx._schema_validator_default
        d = os.path.dirname(inspect.getfile(sx._data_schemas))
        locations = dict(getattr(base, "locations", {}) or {})
        # same documents as the library's validator ...
        loc = {}
        for ns, urls in locations.items():
            loc[ns] = urls[0] if isinstance(urls, (list, tuple)) else urls
        if not loc:
            raise RuntimeError("could not read the library validator's schema locations")
        for ns, f in EXTRA_SCHEMAS.items():
            p = os.path.join(d, f)
            if not os.path.exists(p):
                raise RuntimeError("shipped schema %s is gone" % f)
            loc[ns] = p
        src = os.path.join(d, "saml-schema-protocol-2.0.xsd")
        _validators["ext"] = XMLSchema(src, validation="strict", locations=loc, base_url=src, allow="sandbox",
                                       use_fallback=False)
    return _validators["ext"]


XS_NS = "http://www.w3.org/2001/XMLSchema"
_XS_DECL = re.compile(r'xmlns:([A-Za-z_][A-Za-z0-9_.-]*)="http://www\.w3\.org/2001/XMLSchema"')


def compensate_standin(doc, handed_over=None):
    """The xmlsec1 stand-in re-serialises with ElementTree, which drops namespace declarations that are only
    used inside attribute VALUES (xsi:type="xs:string"); the real xmlsec1 (libxml2) keeps them.  A prefix bound
    to the XML-Schema namespace is declared again on the root element if and only if (1) the library wrote
    that declaration into a text it handed to the xmlsec binary during this call (recorded by the make_temp
    hook), (2) the document uses the prefix in an attribute value and (3) no longer declares it.  A document
    that never went through the stand-in, and a prefix the library did not declare, are left alone: a missing
    declaration is then the library's and is judged by the oracle."""
    if handed_over is None:
        handed_over = _TO_XMLSEC
    written = set()
    for txt in handed_over:
        written.update(_XS_DECL.findall(txt))
    return _redeclare(doc, written)


def _redeclare(doc, prefixes):
    """declare the given XML-Schema prefixes on the root element where the document uses but does not declare them"""
    here = set(_XS_DECL.findall(doc))
    add = [p for p in sorted(set(prefixes) - here) if re.search(r'="%s:[A-Za-z]' % re.escape(p), doc)]
    if not add:
        return doc, False
    start = doc.find("?>") + 2 if doc.startswith("<?xml") else 0
    m = re.search(r"<([A-Za-z0-9_.-]+:)?[A-Za-z0-9_.-]+", doc[start:])
    off = start + m.end()
    return doc[:off] + "".join(' xmlns:%s="%s"' % (p, XS_NS) for p in add) + doc[off:], True


def oracle(doc):
    """-> (default validator accepts, extended validator accepts, short reason)"""
    import saml2.xml.schema as sx

    why = ""
    try:
        sx.validate(doc)
        ok1 = True
    except sx.XMLSchemaError as e:
        ok1 = False
        why = str(e.args[0].get("error"))[:300] if e.args and isinstance(e.args[0], dict) else str(e)[:300]
    try:
        extended_validator().validate(doc)
        ok2 = True
    except Exception as e:  # xmlschema's validation / parse errors
        ok2 = False
        why = why or str(e)[:300]
    return ok1, ok2, re.sub(r"\s+", " ", why)


def instance_valid(obj_or_doc):
    """saml2.validate.valid_instance on the object (for a signed text: on the object parsed from it)."""
    import saml2
    from saml2 import validate as V

    try:
        obj = obj_or_doc
        if isinstance(obj, (str, bytes)):
            root = ET.fromstring(obj if isinstance(obj, bytes) else obj.encode("utf-8"))
            q = _clark(root.tag)
            cls = None
            for r in load_table():
                if r.elem and r.tag == q:
                    cls = r.cls
                    break
            if cls is None:
                return None
            obj = saml2.create_class_from_xml_string(cls, obj_or_doc)
            if obj is None:
                return False
        return bool(V.valid_instance(obj))
    except (V.NotValid, V.MustValueError, V.ShouldValueError, V.OutsideCardinality):
        return False
    except Exception:
        return None   # the validator itself broke: recorded, not a verdict


# ------------------------------------------------------------------------------- argument construction
def mk_name_id(d):
    from saml2 import saml

    if d is None:
        return None
    return saml.NameID(text=d.get("text"), format=d.get("format"), sp_name_qualifier=d.get("spnq"),
                       name_qualifier=d.get("nq"), sp_provided_id=d.get("spid"))


def mk_subject(d):
    from saml2 import saml

    if d is None:
        return None
    scs = []
    for sc in d.get("confirmations", []):
        scd = None
        if sc.get("data") is not None:
            x = sc["data"]
            scd = saml.SubjectConfirmationData(recipient=x.get("recipient"), not_on_or_after=x.get("nooa"),
                                               in_response_to=x.get("irt"), address=x.get("address"))
        scs.append(saml.SubjectConfirmation(method=sc.get("method", saml.SCM_BEARER), subject_confirmation_data=scd))
    return saml.Subject(name_id=mk_name_id(d.get("name_id")), base_id=mk_base_id(d.get("base_id")),
                        encrypted_id=mk_encrypted_id(d.get("encrypted_id")), subject_confirmation=scs or None)


def mk_base_id(q):
    from saml2 import saml

    return saml.BaseID(name_qualifier=q) if q else None


def mk_encrypted_id(flag, cls=None):
    """an EncryptedID (or NewEncryptedID) as a caller holds it: EncryptedData with a cipher value, optionally a key"""
    from saml2 import saml, xmlenc

    if not flag:
        return None
    ed = xmlenc.EncryptedData(type="http://www.w3.org/2001/04/xmlenc#Element",
                              encryption_method=xmlenc.EncryptionMethod(algorithm="http://www.w3.org/2001/04/xmlenc#aes128-cbc")
                              if flag == "method" else None,
                              cipher_data=xmlenc.CipherData(cipher_value=xmlenc.CipherValue(text="AAECAwQFBgcICQ==")))
    return (cls or saml.EncryptedID)(encrypted_data=ed)


def mk_scoping(d):
    from saml2 import samlp

    if d is None:
        return None
    idpl = None
    if d.get("idps") is not None:
        idpl = samlp.IDPList(idp_entry=[samlp.IDPEntry(provider_id=e.get("id"), name=e.get("name"), loc=e.get("loc"))
                                        for e in d["idps"]],
                             get_complete=samlp.GetComplete(text=d["get_complete"]) if d.get("get_complete") else None)
    return samlp.Scoping(proxy_count=d.get("proxy_count"), idp_list=idpl,
                         requester_id=[samlp.RequesterID(text=r) for r in d.get("requesters", [])] or None)


def mk_rac(d):
    from saml2 import saml, samlp

    if d is None:
        return None
    return samlp.RequestedAuthnContext(
        authn_context_class_ref=[saml.AuthnContextClassRef(text=x) for x in d.get("class_refs", [])] or None,
        authn_context_decl_ref=[saml.AuthnContextDeclRef(text=x) for x in d.get("decl_refs", [])] or None,
        comparison=d.get("comparison"))


def mk_extensions(d):
    """Extensions element with foreign-namespace content."""
    from saml2 import samlp
    from saml2.extension import mdui, sp_type

    if d is None:
        return None
    e = samlp.Extensions()
    for x in d:
        if x == "sptype":
            e.add_extension_element(sp_type.SPType(text="public"))
        elif x == "uiinfo":
            e.add_extension_element(mdui.UIInfo(display_name=[mdui.DisplayName(text="n", lang="en")]))
        else:
            import saml2

            e.extension_elements.append(saml2.ExtensionElement("Hint", namespace="urn:example:ext", text=x,
                                                               attributes={"level": "1"}))
    return e


def mk_name_id_policy(d):
    from saml2 import samlp

    if d is None:
        return None
    return samlp.NameIDPolicy(format=d.get("format"), allow_create=d.get("allow_create"), sp_name_qualifier=d.get("spnq"))


def mk_conditions(d):
    from saml2 import saml

    if d is None:
        return None
    return saml.Conditions(not_before=d.get("nb"), not_on_or_after=d.get("nooa"),
                           audience_restriction=[saml.AudienceRestriction(audience=[saml.Audience(text=a) for a in r])
                                                 for r in d.get("audiences", [])] or None,
                           one_time_use=[saml.OneTimeUse()] if d.get("otu") else None)


def mk_assertion(d):
    """A small Assertion as a caller of create_authz_decision_query_using_assertion would hold."""
    from saml2 import saml

    return saml.Assertion(id=d.get("id", "id-asrt1"), version="2.0", issue_instant=d.get("instant", "2023-11-14T22:13:20Z"),
                          issuer=saml.Issuer(text=world.IDP_ID), subject=mk_subject(d.get("subject")))


BINDINGS = {"post": world.BINDING_HTTP_POST, "redirect": world.BINDING_HTTP_REDIRECT, "paos": world.BINDING_PAOS,
            "soap": world.BINDING_SOAP, "artifact": world.BINDING_HTTP_ARTIFACT}


# ------------------------------------------------------------------------------- the builders (real calls)
def b_authn_request(case):
    a = case["a"]
    sp = get_sp(case["cfg"])
    kw = dict(a.get("kw", {}))
    for k, f in (("name_id_policy", mk_name_id_policy), ("requested_authn_context_obj", mk_rac), ("conditions", mk_conditions),
                 ("subject", mk_subject)):
        if k in kw:
            v = f(kw.pop(k))
            kw[k.replace("_obj", "")] = v
    args = {}
    for k in ("vorg", "nameid_format", "service_url_binding", "message_id", "consent", "sign", "sign_prepare",
              "allow_create", "requested_attributes"):
        if k in a:
            args[k] = a[k]
    if "binding" in a:
        args["binding"] = BINDINGS[a["binding"]]
    if "service_url_binding" in args:
        args["service_url_binding"] = BINDINGS[args["service_url_binding"]]
    if a.get("scoping") is not None:
        args["scoping"] = mk_scoping(a["scoping"])
    if a.get("extensions") is not None:
        args["extensions"] = mk_extensions(a["extensions"])
    return sp.create_authn_request(a["dest"], **args, **kw)[1]


def dec_spec(v):
    """value of one entry of the `attribute` dictionary as written in a case: a str, None or a list stand for
    themselves; a Python TUPLE (value, type) is written {"t": [value, type]} (a tuple would come back from a
    replay file as a list, and do_attributes treats the two differently)"""
    if isinstance(v, dict):
        return tuple(v["t"])
    return v


def dec_attribute(l):
    """[[key, spec], ...] -> the dictionary handed to create_attribute_query (key: str, or list = tuple)"""
    if l is None:
        return None
    return {(tuple(k) if isinstance(k, list) else k): dec_spec(v) for k, v in l}


def b_attribute_query(case):
    a = case["a"]
    sp = get_sp(case["cfg"])
    attribute = dec_attribute(a.get("attribute"))
    kw = dict(a.get("kw", {}))
    nid = a.get("name_id")
    if isinstance(nid, dict):
        nid = mk_name_id(nid)
    return sp.create_attribute_query(a["dest"], name_id=nid, attribute=attribute, message_id=a.get("message_id", 0),
                                     consent=a.get("consent"), extensions=mk_extensions(a.get("extensions")),
                                     sign=a.get("sign"), sign_prepare=a.get("sign_prepare"), **kw)[1]


def mk_actions(l):
    from saml2 import saml

    return [saml.Action(text=t, namespace=ns) for t, ns in l]


def b_authz_decision_query(case):
    a = case["a"]
    sp = get_sp(case["cfg"])
    from saml2 import saml

    ev = None
    if a.get("evidence") is not None:
        ev = saml.Evidence(assertion_id_ref=[saml.AssertionIDRef(text=x) for x in a["evidence"]])
    return sp.create_authz_decision_query(a["dest"], mk_actions(a["actions"]), evidence=ev, resource=a.get("resource"),
                                          subject=mk_subject(a.get("subject")), message_id=a.get("message_id", 0),
                                          consent=a.get("consent"), extensions=mk_extensions(a.get("extensions")),
                                          sign=a.get("sign"))[1]


def b_authz_decision_query_using_assertion(case):
    a = case["a"]
    sp = get_sp(case["cfg"])
    return sp.create_authz_decision_query_using_assertion(
        a["dest"], mk_assertion(a["assertion"]), action=a.get("action"), resource=a.get("resource"),
        subject=mk_subject(a.get("subject")), message_id=a.get("message_id", 0), consent=a.get("consent"),
        extensions=mk_extensions(a.get("extensions")), sign=a.get("sign"))[1]


def b_authn_query(case):
    a = case["a"]
    sp = get_sp(case["cfg"])
    kw = {}
    if "session_index" in a:
        kw["session_index"] = a["session_index"]
    return sp.create_authn_query(mk_subject(a["subject"]), a.get("dest"), authn_context=mk_rac(a.get("rac")),
                                 message_id=a.get("message_id", 0), consent=a.get("consent"),
                                 extensions=mk_extensions(a.get("extensions")), sign=a.get("sign"), **kw)[1]


def b_name_id_mapping_request(case):
    a = case["a"]
    sp = get_sp(case["cfg"])
    from saml2 import saml

    return sp.create_name_id_mapping_request(mk_name_id_policy(a["policy"]), name_id=mk_name_id(a.get("name_id")),
                                             base_id=mk_base_id(a.get("base_id")),
                                             encrypted_id=mk_encrypted_id(a.get("encrypted_id")),
                                             destination=a.get("dest"), message_id=a.get("message_id", 0),
                                             consent=a.get("consent"), extensions=mk_extensions(a.get("extensions")),
                                             sign=a.get("sign"))[1]


def b_ecp_authn_request(case):
    a = case["a"]
    sp = get_sp(case["cfg"])
    return sp.create_ecp_authn_request(world.IDP_ID, relay_state=a.get("relay_state", ""), sign=a.get("sign"),
                                       **a.get("kw", {}))[1]


def _entity(case):
    return get_sp(case["cfg"]) if case["a"].get("who", "sp") == "sp" else get_idp(case["cfg"])


def b_logout_request(case):
    a = case["a"]
    ent = _entity(case)
    si = a.get("session_indexes")
    if si is not None and a.get("si_objects"):
        from saml2.samlp import SessionIndex

        si = [SessionIndex(text=x) for x in si]
    return ent.create_logout_request(a["dest"], a.get("issuer_entity_id", world.IDP_ID), subject_id=a.get("subject_id"),
                                     name_id=mk_name_id(a.get("name_id")), reason=a.get("reason"), expire=a.get("expire"),
                                     message_id=a.get("message_id", 0), consent=a.get("consent"),
                                     extensions=mk_extensions(a.get("extensions")), sign=a.get("sign"),
                                     session_indexes=si)[1]


def _a_logout_request(who="sp"):
    from saml2 import samlp, saml

    issuer = world.SP_ID if who == "sp" else world.IDP_ID
    return samlp.LogoutRequest(id="id-req7", version="2.0", issue_instant="2023-11-14T22:13:20Z",
                               issuer=saml.Issuer(text=issuer), name_id=saml.NameID(text="abc"))


def _status(d):
    from saml2 import s_utils, samlp

    if d is None:
        return None
    if d.get("kind") == "factory":
        return s_utils.status_message_factory(d["message"], d["code"], d.get("fro", samlp.STATUS_RESPONDER))
    if d.get("kind") == "error":
        return s_utils.error_status_factory((d["code"], d.get("message")))
    return s_utils.success_status_factory()


def _issuer_obj(text):
    """create_logout_response & co. hand `issuer` to the response class as it is: it has to be an Issuer"""
    from saml2 import saml

    return None if text is None else saml.Issuer(text=text, format=saml.NAMEID_FORMAT_ENTITY)


def b_logout_response(case):
    a = case["a"]
    ent = _entity(case)
    req = _a_logout_request("idp" if a.get("who", "sp") == "sp" else "sp")
    bindings = [BINDINGS[b] for b in a["bindings"]] if a.get("bindings") is not None else None
    return ent.create_logout_response(req, bindings, status=_status(a.get("status")), sign=a.get("sign"),
                                      issuer=_issuer_obj(a.get("issuer")))


BUILTIN_EXCEPTIONS = ["Exception", "ValueError", "KeyError", "OSError", "RuntimeError", "TypeError", "AttributeError"]


def exception_table():
    """names of the exception classes s_utils.EXCEPTION2STATUS knows, read from the live table"""
    import saml2.s_utils as su

    return sorted(k.__name__ for k in su.EXCEPTION2STATUS)


def exc_class(name):
    """"X": the class X of the live table / of saml2.s_utils / a built-in; "sub:X": a subclass of X defined by the
    caller (an application's own exception)"""
    import builtins

    import saml2.s_utils as su

    if name.startswith("sub:"):
        base = exc_class(name[4:])
        return type("Application" + base.__name__, (base,), {})
    for k in su.EXCEPTION2STATUS:
        if k.__name__ == name:
            return k
    if hasattr(su, name):
        return getattr(su, name)
    return getattr(builtins, name)


def b_error_response(case):
    a = case["a"]
    ent = _entity(case)
    info = a["info"]
    if info["kind"] == "tuple":
        inf = (info["code"], info.get("message"))
    else:
        import saml2.s_utils as su
        from saml2 import saml

        cls = exc_class(info["exc"])
        if info.get("ctx") is not None:
            inf = cls(info["ctx"])
        elif "message" in info and info["message"] is not None:
            inf = cls(info["message"])
        else:
            inf = cls()
    return ent.create_error_response(a.get("in_response_to"), a.get("dest"), inf, sign=a.get("sign"), issuer=a.get("issuer"))


def b_artifact_resolve(case):
    a = case["a"]
    ent = _entity(case)
    return ent.create_artifact_resolve(a["artifact"], a["dest"], a.get("sessid", 0), consent=a.get("consent"),
                                       extensions=mk_extensions(a.get("extensions")), sign=a.get("sign"))[1]


def b_artifact_response(case):
    a = case["a"]
    ent = _entity(case)
    from saml2 import samlp, saml

    req = samlp.ArtifactResolve(id="id-ar9", version="2.0", issue_instant="2023-11-14T22:13:20Z",
                                issuer=saml.Issuer(text=world.SP_ID), artifact=samlp.Artifact(text=a["artifact"]))
    inner_case = {"cfg": case["cfg"], "a": dict(a.get("inner", {"dest": world.IDP_SSO_REDIRECT}), who=a.get("who", "sp"))}
    kind = a.get("inner_kind", "authn_request")
    if kind == "authn_request":
        inner = b_authn_request({"cfg": case["cfg"] if a.get("who", "sp") == "sp" else {}, "a": {"dest": world.IDP_SSO_REDIRECT}})
    elif kind == "logout_request":
        inner = _a_logout_request()
    else:
        inner = b_error_response({"cfg": case["cfg"], "a": {"who": a.get("who", "sp"), "in_response_to": "id-1",
                                                           "dest": world.SP_ACS_POST,
                                                           "info": {"kind": "tuple", "code": "urn:x", "message": "m"}}})
    ent.artifact[a["artifact"]] = inner
    return ent.create_artifact_response(req, a["artifact"], status=_status(a.get("status")), sign=a.get("sign"),
                                        issuer=_issuer_obj(a.get("issuer")))


def b_manage_name_id_request(case):
    a = case["a"]
    ent = _entity(case)
    from saml2 import samlp

    return ent.create_manage_name_id_request(
        a["dest"], message_id=a.get("message_id", 0), consent=a.get("consent"),
        extensions=mk_extensions(a.get("extensions")), sign=a.get("sign"), name_id=mk_name_id(a.get("name_id")),
        encrypted_id=mk_encrypted_id(a.get("encrypted_id")),
        new_id=samlp.NewID(text=a["new_id"]) if a.get("new_id") is not None else None,
        new_encrypted_id=mk_encrypted_id(a.get("new_encrypted_id"), samlp.NewEncryptedID),
        terminate=samlp.Terminate() if a.get("terminate") else None)[1]


def b_manage_name_id_response(case):
    a = case["a"]
    ent = _entity(case)
    from saml2 import samlp, saml

    req = samlp.ManageNameIDRequest(id="id-mni3", version="2.0", issue_instant="2023-11-14T22:13:20Z",
                                    issuer=saml.Issuer(text=world.SP_ID if a.get("who") == "idp" else world.IDP_ID),
                                    name_id=saml.NameID(text="abc"), terminate=samlp.Terminate())
    bindings = [BINDINGS[b] for b in a["bindings"]] if a.get("bindings") is not None else [world.BINDING_SOAP]
    return ent.create_manage_name_id_response(req, bindings, status=_status(a.get("status")), sign=a.get("sign"),
                                              issuer=_issuer_obj(a.get("issuer")))


def _authn(d):
    if d is None:
        return None
    out = {}
    for k in ("class_ref", "authn_auth", "decl_ref", "authn_instant", "subject_locality"):
        if d.get(k) is not None:
            out[k] = d[k]
    return out


def _identity(d):
    return {k: v for k, v in d} if d is not None else None


def _cert(name):
    with open(fixtures.cert_path(name)) as f:
        return f.read()


# ---- the farg argument tree (Server.update_farg): JSON form -> the Python object handed to the builder.
#      {"__inst__": [kind, spec]} stands for an element instance of the caller
_FARG_AT_CALL = [False, None]      # [a farg was passed, its state right before the (last) call]: read by coq_fa


def _farg_inst(kind, spec):
    import saml2.xmldsig as ds_
    from saml2 import saml

    if kind == "name_id":
        return mk_name_id(spec)
    if kind == "key_info":
        return ds_.KeyInfo(key_name=[ds_.KeyName(text=spec)])
    if kind == "encrypted_id":
        return mk_encrypted_id(True)
    if kind == "scd":
        return saml.SubjectConfirmationData(address=spec)
    raise ValueError(kind)


def dec_farg(x):
    if isinstance(x, dict):
        if "__inst__" in x:
            return _farg_inst(*x["__inst__"])
        return {k: dec_farg(v) for k, v in x.items()}
    if isinstance(x, list):
        return [dec_farg(v) for v in x]
    return x


def _with_farg(a, call):
    """call(in_response_to, **kw) with the case's farg; "reuse": n > 1 = the SAME farg object handed to n calls in a
    row on one server (earlier requests id-prev1..), the last call is the one observed"""
    _FARG_AT_CALL[:] = [False, None]
    if "farg" not in a:
        return call(a.get("in_response_to"))
    farg = dec_farg(a["farg"])
    for i in range(1, a.get("reuse", 1)):
        call("id-prev%d" % i, farg=farg)
    _FARG_AT_CALL[:] = [True, copy.deepcopy(farg)]
    return call(a.get("in_response_to"), farg=farg)


def _authn_response_kwargs(a):
    kw = {}
    for k in ("userid", "sign_response", "sign_assertion", "encrypt_assertion", "encrypt_assertion_self_contained",
              "encrypted_advice_attributes", "pefim", "session_not_on_or_after", "issuer", "best_effort"):
        if k in a:
            kw[k] = a[k]
    if a.get("name_id") is not None:
        kw["name_id"] = mk_name_id(a["name_id"])
    if a.get("name_id_policy") is not None:
        kw["name_id_policy"] = mk_name_id_policy(a["name_id_policy"])
    if a.get("authn") is not None:
        kw["authn"] = _authn(a["authn"])
    if a.get("encrypt_cert_assertion"):
        kw["encrypt_cert_assertion"] = _cert(a["encrypt_cert_assertion"])
    if a.get("encrypt_cert_advice"):
        kw["encrypt_cert_advice"] = _cert(a["encrypt_cert_advice"])
    if a.get("status") is not None:
        kw["status"] = _status(a["status"])
    return kw


def b_authn_response(case):
    a = case["a"]
    idp = get_idp(case["cfg"], fresh=True)
    meth = idp.create_authn_request_response if a.get("via") == "request_response" else idp.create_authn_response
    kw = _authn_response_kwargs(a)
    if a.get("via") == "request_response":
        for k in list(kw):
            if k not in ("userid", "name_id", "name_id_policy", "authn", "issuer", "sign_response", "sign_assertion",
                         "session_not_on_or_after"):
                del kw[k]
    return _with_farg(a, lambda irt, **f: meth(_identity(a["identity"]), irt, a.get("dest"), a.get("sp_entity_id", world.SP_ID),
                                               **dict(kw, **f)))


def b_setup_assertion(case):
    """Server.setup_assertion called directly (the documented way to get at the Assertion): emits a bare Assertion"""
    a = case["a"]
    idp = get_idp(case["cfg"], fresh=True)
    policy = idp.config.getattr("policy", "idp")
    return _with_farg(a, lambda irt, **f: idp.setup_assertion(
        _authn(a.get("authn")), world.SP_ID, irt, a.get("dest"), mk_name_id(a.get("name_id")), policy, idp._issuer(), None,
        _identity(a["identity"]), False, False, **f))


def b_ecp_authn_response(case):
    a = case["a"]
    idp = get_idp(case["cfg"], fresh=True)
    kw = _authn_response_kwargs(a)
    for k in list(kw):
        if k not in ("userid", "name_id", "name_id_policy", "authn", "issuer", "sign_response", "sign_assertion"):
            del kw[k]
    return idp.create_ecp_authn_request_response(a.get("acs_url", world.SP_ACS_POST), _identity(a["identity"]),
                                                 a.get("in_response_to"), a.get("dest"), world.SP_ID, **kw)


def b_attribute_response(case):
    a = case["a"]
    idp = get_idp(case["cfg"], fresh=True)
    kw = {}
    for k in ("userid", "sign_response", "sign_assertion", "issuer"):
        if k in a:
            kw[k] = a[k]
    if a.get("name_id") is not None:
        kw["name_id"] = mk_name_id(a["name_id"])
    if a.get("status") is not None:
        kw["status"] = _status(a["status"])
    # create_attribute_response hands its surplus keyword arguments to Entity._response as they are
    for k in ("encrypt_assertion", "encrypt_assertion_self_contained", "encrypted_advice_attributes"):
        if k in a:
            kw[k] = a[k]
    for k in ("encrypt_cert_assertion", "encrypt_cert_advice"):
        if a.get(k):
            kw[k] = _cert(a[k])
    if a.get("attributes") is not None:     # the Attribute elements of the query: restrict what is released
        from saml2 import saml

        kw["attributes"] = [saml.Attribute(name=n, attribute_value=[saml.AttributeValue(text=v) for v in vs])
                            for n, vs in a["attributes"]]
    return _with_farg(a, lambda irt, **f: idp.create_attribute_response(_identity(a["identity"]), irt, a.get("dest"), world.SP_ID,
                                                                        **dict(kw, **f)))


def b_name_id_mapping_response(case):
    a = case["a"]
    idp = get_idp(case["cfg"], fresh=True)
    return idp.create_name_id_mapping_response(name_id=mk_name_id(a.get("name_id")), in_response_to=a.get("in_response_to"),
                                               sign_response=a.get("sign"), status=_status(a.get("status")))


def _idp_with_session(case):
    """An IdP that has issued one assertion (so that the session database knows it)."""
    a = case["a"]
    idp = get_idp(case["cfg"], fresh=True)
    resp = None
    # "sessions": one authn dictionary per earlier sign-on of the same subject at this IdP (default: one)
    for i, authn in enumerate(a["sessions"] if a.get("sessions") is not None
                              else [{"class_ref": AC_PASSWORD, "authn_auth": world.IDP_ID}]):
        resp = idp.create_authn_response({"givenName": ["Anna"]}, "id-prev" if i == 0 else "id-prev%d" % i,
                                         world.SP_ACS_POST, world.SP_ID,
                                         name_id=mk_name_id({"text": "subj-1", "format": PERSISTENT}),
                                         authn=_authn(authn), sign_assertion=a.get("sign_assertion"))
    return idp, resp


def b_assertion_id_request_response(case):
    a = case["a"]
    idp, resp = _idp_with_session(case)
    t = read_tree(str(resp))
    aid = [k for k in t[3] if k[0][1] == "Assertion"][0]
    aid = dict((tuple(k), v) for k, v in aid[1])[("", "ID")]
    return idp.create_assertion_id_request_response(aid, sign=a.get("sign"))


def b_authn_query_response(case):
    a = case["a"]
    idp, _resp = _idp_with_session(case)
    subj = mk_subject({"name_id": {"text": "subj-1" if a.get("known", True) else "nobody", "format": PERSISTENT}})
    return idp.create_authn_query_response(subj, session_index=a.get("session_index"),
                                           requested_context=mk_rac(a.get("rac")),
                                           in_response_to=a.get("in_response_to"), sign_response=a.get("sign"),
                                           status=_status(a.get("status")), issuer=a.get("issuer"))


def _md_config(case):
    a = case["a"]
    if a.get("who", "sp") == "sp":
        from saml2.config import SPConfig

        c = SPConfig()
        c.load(sp_conf(case["cfg"]))
    else:
        from saml2.config import IdPConfig

        c = IdPConfig()
        c.load(idp_conf(case["cfg"]))
    return c


def b_entity_descriptor(case):
    setup()
    from saml2 import metadata

    return metadata.entity_descriptor(_md_config(case))


def b_entities_descriptor(case):
    setup()
    a = case["a"]
    from saml2 import metadata
    from saml2.sigver import security_context

    conf = _md_config(case)
    ed = metadata.entity_descriptor(conf)
    ent, xmldoc = metadata.entities_descriptor([ed], a.get("valid_for", 0), a.get("name"), a.get("ident"), a.get("sign"),
                                               security_context(conf))
    return xmldoc if xmldoc is not None else ent


def b_signed_entity_descriptor(case):
    setup()
    a = case["a"]
    from saml2 import metadata
    from saml2.sigver import security_context

    conf = _md_config(case)
    ed = metadata.entity_descriptor(conf)
    _ent, xmldoc = metadata.sign_entity_descriptor(ed, a.get("ident"), security_context(conf))
    return xmldoc


def b_metadata_string(case):
    setup()
    a = case["a"]
    from saml2 import metadata

    conf = _md_config(case)
    return metadata.create_metadata_string(None, config=conf, valid=a.get("valid"), mid=a.get("mid"), name=a.get("name"),
                                           sign=a.get("sign"))


BUILDERS = {
    "authn_request": b_authn_request, "attribute_query": b_attribute_query,
    "authz_decision_query": b_authz_decision_query,
    "authz_decision_query_using_assertion": b_authz_decision_query_using_assertion,
    "authn_query": b_authn_query, "name_id_mapping_request": b_name_id_mapping_request,
    "ecp_authn_request": b_ecp_authn_request, "logout_request": b_logout_request,
    "logout_response": b_logout_response, "error_response": b_error_response,
    "artifact_resolve": b_artifact_resolve, "artifact_response": b_artifact_response,
    "manage_name_id_request": b_manage_name_id_request, "manage_name_id_response": b_manage_name_id_response,
    "authn_response": b_authn_response, "ecp_authn_response": b_ecp_authn_response,
    "attribute_response": b_attribute_response, "name_id_mapping_response": b_name_id_mapping_response,
    "setup_assertion": b_setup_assertion,
    "assertion_id_request_response": b_assertion_id_request_response, "authn_query_response": b_authn_query_response,
    "entity_descriptor": b_entity_descriptor, "entities_descriptor": b_entities_descriptor,
    "signed_entity_descriptor": b_signed_entity_descriptor, "metadata_string": b_metadata_string,
}

EXC_ENUM = {"TypeError": "type", "ValueError": "value", "AttributeError": "attribute", "KeyError": "key",
            "SAMLError": "saml", "UnboundLocalError": "unbound"}


def produce(case):
    """Run the real builder -> (document text | None, object-or-text for valid_instance, exception kind | None)."""
    del _TO_XMLSEC[:]
    _FARG_AT_CALL[:] = [False, None]
    try:
        out = BUILDERS[case["b"]](case)
        if isinstance(out, bytes):
            out = out.decode("utf-8")
        if isinstance(out, list):   # create_authn_response's error path returns str(response).split("\n")
            out = "\n".join(out)
        doc = out if isinstance(out, str) else "%s" % out
        return doc, out, None
    except Exception as e:  # the call did not emit anything
        return None, None, EXC_ENUM.get(type(e).__name__, "other:" + type(e).__name__)


# =============================================================================== injected defects
def _node_classes(root):
    """element -> class record the tables assign to it (None: lax content without a declaration).  Only used to
    LABEL an injected defect as one the class tables can express or not; it judges nothing."""
    recs = load_table()
    by_tag = {}
    for i, r in enumerate(recs):
        if r.elem:
            by_tag.setdefault(r.tag, i)
    out = {}

    def walk(el, k):
        out[el] = None if k is None else recs[k]
        for kid in el:
            t = _clark(kid.tag) if isinstance(kid.tag, str) else None
            kk = None
            if k is not None and t is not None:
                part = [p for p in recs[k].parts if p[0] == t]
                kk = part[0][1] if part else by_tag.get(t)
            elif t is not None and k is None:
                kk = None
            walk(kid, kk)

    walk(root, by_tag.get(_clark(root.tag)))
    return out


def _mutations(root, rng):
    """All single structural defects applicable to the parsed document; one is drawn by the caller."""
    nodes = list(root.iter())
    parent = {c: p for p in nodes for c in p}
    cls = _node_classes(root)
    out = []
    for n in nodes:
        kids = list(n)
        rec = cls.get(n)
        for i in range(len(kids) - 1):
            if kids[i].tag != kids[i + 1].tag:
                out.append(("swap", n, i))
        for i, k in enumerate(kids):
            part = [p for p in rec.parts if p[0] == _clark(k.tag)] if rec is not None else []
            count = sum(1 for x in kids if x.tag == k.tag)
            if part and part[0][2] >= count:
                out.append(("drop_child_req", n, i))      # the tables say: at least `count` of them
            else:
                out.append(("drop_child_opt", n, i))
            if part and part[0][3] is not None and count >= part[0][3]:
                out.append(("dup_child_max", n, i))       # the tables say: at most `count`
            else:
                out.append(("dup_child_free", n, i))
        for a in list(n.attrib):
            if a.startswith("{" + XSI + "}"):
                continue
            decl = [d for d in rec.attrs if d[0] == _clark(a)] if rec is not None else []
            out.append(("drop_attr_req" if decl and decl[0][2] else "drop_attr_opt", n, a))
            v = n.attrib[a]
            if v in ("true", "false"):
                out.append(("bad_value", n, (a, rng.choice(["True", "yes", "", "tru e", "TRUE", "2"]))))
            elif re.match(r"^\d{4}-\d\d-\d\dT\d\d:\d\d:\d\d(\.\d+)?Z?$", v):
                out.append(("bad_value", n, (a, rng.choice([
                    v.replace("T", " "), v[:5] + "13" + v[7:], v[:8] + "32" + v[10:], v[2:], v.replace("Z", "UTC"),
                    v[:11] + "25" + v[13:], v[:17] + "61" + v[19:], "2023-02-30T00:00:00Z", v.replace("-", "/"),
                    v[:-1] + "+15:00", v + "Z", "0000" + v[4:]]))))
            elif a in ("ID", "InResponseTo", "Id"):
                out.append(("bad_value", n, (a, rng.choice(["1" + v, "", v + " x", "-" + v, v + ":a", ".x"]))))
            elif a in ("index", "AssertionConsumerServiceIndex", "AttributeConsumingServiceIndex", "ProxyCount", "width",
                       "height"):
                out.append(("bad_value", n, (a, rng.choice(["-1", "65536", "1.0", "one", "", "0x1", "1 2"]))))
        out.append(("add_attr", n, rng.choice(["bogus", "{urn:example:bogus}b", "Id2"])))
        out.append(("add_child", n, (rng.randint(0, len(kids)), rng.choice(
            ["{%s}Bogus" % (n.tag[1:].split("}")[0] if n.tag.startswith("{") else ""), "{urn:example:bogus}Bogus", "Bogus"]))))
        if len(kids) > 0 or n.text is None or n.text.strip() == "":
            out.append(("text", n, "stray"))
    return out


def mutate(doc, seed):
    import random

    rng = random.Random(seed)
    root = ET.fromstring(doc.encode("utf-8"))
    ms = _mutations(root, rng)
    if not ms:
        return None, None
    # draw the kind first, then the site: every kind is equally likely
    kinds = sorted({m[0] for m in ms})
    kind = rng.choice(kinds)
    kind_ms = [m for m in ms if m[0] == kind]
    _k, n, x = rng.choice(kind_ms)
    if kind == "swap":
        kids = list(n)
        a, b = kids[x], kids[x + 1]
        n.remove(b)
        n.insert(x, b)
    elif kind.startswith("drop_child"):
        n.remove(list(n)[x])
    elif kind.startswith("dup_child"):
        n.insert(x, copy.deepcopy(list(n)[x]))
    elif kind.startswith("drop_attr"):
        del n.attrib[x]
    elif kind == "bad_value":
        n.attrib[x[0]] = x[1]
    elif kind == "add_attr":
        n.attrib[x] = "1"
    elif kind == "add_child":
        n.insert(x[0], ET.Element(x[1]))
    elif kind == "text":
        n.text = (n.text or "") + x
    # ElementTree drops the xs / xsd declarations (used in attribute values only): what the document declared
    # before the injected defect is declared again, so that the defect is the only difference
    return _redeclare(ET.tostring(root, encoding="unicode"), _XS_DECL.findall(doc))[0], kind


# =============================================================================== observation
def observe(case):
    """the observation proper (_observe) plus, computed here because observe() runs in the worker pool and coq_case()
    does not, the Coq terms of the abstract builder arguments (they need entities and instance serialisations)"""
    obs = _observe(case)
    if not case["b"].startswith("lex_"):
        xb = coq_xinfo(case, obs)
        obs["cb"] = ["BOther" if xb != "XBNone" else coq_binfo(case, obs), xb, coq_fa(case, obs), coq_enc(case, obs),
                     coq_ept(case, obs)]
    return obs


def _observe(case):
    setup()
    if case["b"] == "lex_instant":
        from saml2 import time_util

        return {"exc": None, "tree": None, "xsd": None, "xsd_ext": None, "vi": "na", "why": "", "mut_kind": None,
                "compensated": False, "size": 0, "value": time_util.instant(time_stamp=case["a"]["ts"])}
    if case["b"] == "lex_sid":
        from saml2 import s_utils

        return {"exc": None, "tree": None, "xsd": None, "xsd_ext": None, "vi": "na", "why": "", "mut_kind": None,
                "compensated": False, "size": 0, "value": s_utils.sid()}
    doc, out, exc = produce(case)
    obs = {"exc": exc, "tree": None, "xsd": None, "xsd_ext": None, "vi": "na", "why": "", "mut_kind": None,
           "compensated": False, "size": 0}
    if doc is None:
        return obs
    try:
        if case.get("mut") is not None:
            mdoc, kind = mutate(doc, case["mut"])
            if mdoc is None:
                obs["exc"] = "no-mutation"
                return obs
            obs["mut_kind"] = kind
            doc = mdoc
            out = None
        vdoc, obs["compensated"] = compensate_standin(doc)
        ok1, ok2, why = oracle(vdoc)
        obs["xsd"], obs["xsd_ext"], obs["why"] = ok1, ok2, why
        if out is not None:
            v = instance_valid(out)
            obs["vi"] = {True: "true", False: "false", None: "crash"}[v] if not (isinstance(out, str) and v is None) else "na"
        obs["tree"] = read_tree(vdoc)
        obs["size"] = tree_size(obs["tree"])
    except LossyAbstraction as e:
        obs["exc"] = "lossy:" + str(e)
        obs["tree"] = None
    return obs


def coq_binfo(case, obs):
    if case.get("mut") is not None or case["b"] not in MODELLED:
        return "BOther"
    if obs["tree"] is None:
        if MODELLED_EXC.get(case["b"]) == obs["exc"] and case["b"] in ("logout_request", "authn_request"):
            return MODELLED[case["b"]](case, obs)
        return "BOther"
    return MODELLED[case["b"]](case, obs)


NO_CLAIM = ("drop_child_opt", "drop_attr_opt", "dup_child_free")


def expected_exc(case):
    """Calls of the generator that are known to raise on the unchanged tree (nothing is emitted; listed in
    notes/C13.md as observations outside this property).  Any OTHER exception is a change of behaviour and is
    reported as a disagreement."""
    a, b = case["a"], case["b"]
    if b == "logout_request" and not a.get("subject_id") and a.get("name_id") is None:
        return "saml"                       # SAMLError("Missing subject identification")
    if b == "name_id_mapping_request" and not (a.get("name_id") or a.get("base_id") or a.get("encrypted_id")):
        return "value"                      # "At least one of name_id, base_id or encrypted_id must be present."
    if b == "manage_name_id_request" and (not (a.get("name_id") or a.get("encrypted_id"))
                                          or not (a.get("new_id") or a.get("new_encrypted_id") or a.get("terminate"))):
        return "attribute"                  # "One of ... has to be provided"
    if b == "attribute_query":
        if a.get("name_id") is None and "subject_id" not in a.get("kw", {}):
            return "attribute"              # "Missing required parameter"
        for k, v in a.get("attribute") or []:
            if isinstance(v, dict) and v["t"][0] is None and v["t"][1]:
                return "type"               # do_ava: a type for no value (iterates over None)
            if isinstance(k, list) and len(k) == 1:
                return "value"              # do_attribute unpacks a tuple key into 3, then 2 names: a 1-tuple fails
    if b == "authn_request":
        ras = a.get("requested_attributes") or case["cfg"].get("sp_requested_attributes") or []
        if any(not x.get("name") and not x.get("friendly_name") for x in ras):
            return "value"                  # "Missing required attribute: 'name' or 'friendly_name'" (Builders.ra_resolve says so too)
    if b == "artifact_response" and (a.get("sign") or (a.get("sign") is None and _should_sign(case))):
        return "attribute"                  # the signed text has no .extension_elements
    if b == "ecp_authn_request" and a.get("sign"):
        return "attribute"                  # make_soap_enveloped_saml_thingy gets the signed text
    if b == "ecp_authn_response" and (a.get("sign_response") or a.get("sign_assertion")):
        return "attribute"                  # element_to_extension_element gets the signed text
    if b == "authn_response" and a.get("name_id") is None and (a.get("name_id_policy") or {}).get("format") == EMAIL:
        return "saml"                       # "Can't issue email nameids, unknown domain"
    if b in FARG_BUILDERS and a.get("farg_exc"):
        return a["farg_exc"]                # a farg the code cannot digest (labelled by the generator; Farg.v has to say so too)
    if b in FARG_BUILDERS and a.get("enc_exc"):
        return a["enc_exc"]                 # a configured verify_encrypt_cert_* turns the call down (Release.enc_plan says so too)
    if b in FARG_BUILDERS and a.get("id_exc"):
        return a["id_exc"]                  # an identity value the converters cannot digest (Release.ept_attribute says so too)
    if b in ("entity_descriptor", "entities_descriptor", "signed_entity_descriptor", "metadata_string") \
            and case["cfg"].get("metadata_key_usage") == "encryption" and "encryption_keypairs" in case["cfg"] \
            and case["cfg"]["encryption_keypairs"] is None:
        return "type"                       # do_key_descriptor's fall-back puts the LIST of certificates into one text
    return None


def coq_case(case, obs):
    if case["b"] == "lex_instant":
        return "C13.Corr.mk (XInstant %d%%N %s) BOther XBNone None None None None false false VNA 0" % (case["a"]["ts"], _cq_str(obs["value"]))
    if case["b"] == "lex_sid":
        return "C13.Corr.mk (XSid %s) BOther XBNone None None None None false false VNA 0" % _cq_str(obs["value"])
    if obs["tree"] is None and case.get("mut") is None and obs["exc"] != expected_exc(case):
        # an exception the unchanged tree does not raise: flagged through a case that cannot agree
        return "C13.Corr.mk (XSid \"\") BOther XBNone None None None None false false VNA 0"
    t = "None" if obs["tree"] is None else "(Some %s)" % cq_tree(obs["tree"])
    vi = {"true": "VTrue", "false": "VFalse", "crash": "VCrash", "na": "VNA"}[obs["vi"]]
    mut = 0 if case.get("mut") is None else (2 if obs["mut_kind"] in NO_CLAIM else 1)
    if obs.get("cb"):
        b, xb, fa, enc, ept = obs["cb"]
    else:
        xb = coq_xinfo(case, obs)
        b = "BOther" if xb != "XBNone" else coq_binfo(case, obs)
        fa = "None"                         # the farg term needs the state of the call (computed inside observe())
        enc, ept = coq_enc(case, obs), coq_ept(case, obs)
    return "C13.Corr.mk XNone %s %s %s %s %s %s %s %s %s %d" % (b, xb, fa, enc, ept, t,
                                                                cq(bool(obs["xsd"])), cq(bool(obs["xsd_ext"])), vi, mut)


def explain_term(term):
    return "C13.Corr.explain (%s)" % term


# =============================================================================== generation
URLS = ["https://idp.example.org/sso/redirect", "https://idp.example.org/sso?a=1&b=2", "https://idp.example.org/%C3%A5/sso",
        "https://xn--idp-example.org:8443/sso#frag", "urn:example:dest", "https://idp.example.org/sök<\">'&"]
TEXTS = ["abc", "Anna Karlsson", "a&b<c>\"d'", "åäö 中文", " padded ", "line1\nline2", "x" * 70]
IDS = ["id-abc123", "_9f8e7d", "a.b-c_d", "ID"]
EIDAS_ATTRS = [
    [{"friendly_name": "givenName", "required": True}],
    [{"name": "urn:oid:2.5.4.4", "name_format": NF_URI, "required": False}, {"friendly_name": "mail"}],
    [{"name": "http://eidas.europa.eu/attributes/naturalperson/PersonIdentifier", "friendly_name": "PersonIdentifier",
      "name_format": NF_URI, "required": "true"}],
]
SCOPINGS = [{"proxy_count": "2"}, {"idps": [{"id": world.IDP_ID, "name": "the idp", "loc": "https://idp.example.org/"}],
                                   "requesters": ["https://sp2.example.org"]},
            {"proxy_count": "0", "idps": [{"id": "urn:a"}, {"id": "urn:b"}], "get_complete": "https://x.example.org/idps"}]
RACS = [{"class_refs": [AC_PASSWORD]}, {"class_refs": [AC_PASSWORD, AC_PPT], "comparison": "minimum"},
        {"decl_refs": ["urn:example:decl"], "comparison": "exact"}]
NAMEIDS = [{"text": "abc", "format": PERSISTENT}, {"text": "a@b.example", "format": EMAIL, "spnq": world.SP_ID, "nq": world.IDP_ID},
           {"text": TEXTS[2]}, {"text": "u1", "format": TRANSIENT, "spid": "sp-prov"}]
IDENTITIES = [[["givenName", ["Anna"]], ["mail", ["a@x.org"]]], [["givenName", ["Anna", "Bea"]]],
              [["sn", [TEXTS[2]]], ["displayName", [TEXTS[3]]]], [["mail", []]], []]
TYPED_IDENTITIES = [[["age", [43]], ["member", [True]]], [["member", [False, True]], ["height", [1.5]]],
                    [["givenName", ["Anna", 7]], ["mail", "a@x.org"]], [["count", 3], ["flag", True], ["sn", None]]]
AUTHNS = [{"class_ref": AC_PASSWORD, "authn_auth": "https://idp.example.org"}, {"class_ref": AC_PPT},
          {"class_ref": AC_PPT, "authn_auth": "https://aa.example.org", "authn_instant": 1699999000}, None,
          {"class_ref": AC_PASSWORD, "subject_locality": "192.0.2.7"}]
STATUSES = [None, {"kind": "success"}, {"kind": "factory", "message": "went wrong", "code": "urn:oasis:names:tc:SAML:2.0:status:AuthnFailed"},
            {"kind": "error", "code": "urn:oasis:names:tc:SAML:2.0:status:RequestDenied", "message": None},
            {"kind": "error", "code": "urn:oasis:names:tc:SAML:2.0:status:UnknownPrincipal", "message": TEXTS[2]}]


def case(b, a, cfg=None, tag=None, mut=None):
    c = {"b": b, "cfg": cfg or {}, "a": a, "tag": tag or b}
    if mut is not None:
        c["mut"] = mut
    return c


def _pick(rng, l):
    return l[rng.randrange(len(l))]


def _maybe(rng, p, v):
    return v if rng.random() < p else None


def gen_authn_request(ctx, rng):
    out = []
    dest = URLS[0]
    nf = [None, TRANSIENT, PERSISTENT, EMAIL]
    # NameIDPolicy logic: complete
    for fmt in nf:
        for cfmt in [None, TRANSIENT, PERSISTENT]:
            for ac in [None, "true", "false"]:
                for cac in [None, True, False]:
                    for vorg in ["", "urn:vo:example"]:
                        for nip in ["absent", None, {"format": EMAIL, "allow_create": "true"}]:
                            # quick tier: the AllowCreate lattice (format x configured format x argument x
                            # configuration) completely, and vorg x name_id_policy keyword against every format
                            # pair; the full six-fold product in the thorough tier
                            if not ctx.thorough and not ((vorg == "" and nip == "absent") or (ac is None and cac is None)):
                                continue
                            cfg = {}
                            if cfmt:
                                cfg["sp_name_id_policy_format"] = cfmt
                            if cac is not None:
                                cfg["sp_name_id_format_allow_create"] = cac
                            a = {"dest": dest}
                            if fmt:
                                a["nameid_format"] = fmt
                            if ac:
                                a["allow_create"] = ac
                            if vorg:
                                a["vorg"] = vorg
                            if nip != "absent":
                                a["kw"] = {"name_id_policy": nip}
                            out.append(case("authn_request", a, cfg, "ar-nameidpolicy"))
    # AssertionConsumerService logic: complete
    for hide in [None, True]:
        for urls in ["absent", [world.SP_ACS_REDIRECT], [None]]:
            for url in [None, "https://sp.example.org/acs/other"]:
                for idx in [None, "2"]:
                    for binding in ["post", "redirect", "paos", "artifact"]:
                        for sub in [None, "redirect", "paos"]:
                            # quick tier: (hide x urls x url x index) completely on two bindings, and
                            # (hide x binding x service_url_binding) completely without the keywords
                            if not ctx.thorough and not ((sub is None and binding in ("post", "paos"))
                                                         or (urls == "absent" and url is None and idx is None)):
                                continue
                            cfg = {"sp_hide_assertion_consumer_service": True} if hide else {}
                            a = {"dest": dest, "binding": binding}
                            kw = {}
                            if urls != "absent":
                                kw["assertion_consumer_service_urls"] = urls
                            if url:
                                kw["assertion_consumer_service_url"] = url
                            if idx:
                                kw["assertion_consumer_service_index"] = idx
                            if sub:
                                a["service_url_binding"] = sub
                            if kw:
                                a["kw"] = kw
                            out.append(case("authn_request", a, cfg, "ar-acs"))
    # ForceAuthn / IsPassive / ProviderName
    for fa in ["absent", True, "true", "false", "1", False]:
        for cfa in [None, True, "true", "false"]:
            for ip in [None, "true", "false"]:
                cfg = {"sp_force_authn": cfa} if cfa is not None else {}
                kw = {}
                if fa != "absent":
                    kw["force_authn"] = fa
                if ip:
                    kw["is_passive"] = ip
                out.append(case("authn_request", {"dest": dest, "kw": kw}, cfg, "ar-force"))
    for pn in [None, "My Provider", TEXTS[2]]:
        for name in [None, "Verif SP"]:
            for binding in ["post", "paos"]:
                cfg = {"name": name} if name else {}
                kw = {"provider_name": pn} if pn else {}
                out.append(case("authn_request", {"dest": dest, "binding": binding, "kw": kw}, cfg, "ar-provider"))
    # RequestedAuthnContext
    for krac in ["absent", {"authn_context_class_ref": [AC_PASSWORD], "comparison": "minimum"},
                 {"authn_context_class_ref": []}, {"authn_context_class_ref": [AC_PASSWORD, AC_PPT]}, "obj0", "obj1", "obj2"]:
        for crac in [None, {"authn_context_class_ref": [AC_PPT], "comparison": "exact"}]:
            cfg = {"sp_requested_authn_context": crac} if crac else {}
            kw = {}
            if isinstance(krac, dict):
                kw["requested_authn_context"] = krac
            elif krac != "absent":
                kw["requested_authn_context_obj"] = RACS[int(krac[3])]
            out.append(case("authn_request", {"dest": dest, "kw": kw}, cfg, "ar-rac"))
    # Extensions / eIDAS
    for ext in [None, ["sptype"], ["hint-a", "hint-b"]]:
        for spt in [None, ("public", False), ("private", True), ("public", None)]:
            for ra in [None, 0, 1, 2]:
                for cra in [None, 1]:
                    cfg = {}
                    if spt:
                        cfg["sp_sp_type"] = spt[0]
                        if spt[1] is not None:
                            cfg["sp_sp_type_in_metadata"] = spt[1]
                    if cra is not None:
                        cfg["sp_requested_attributes"] = EIDAS_ATTRS[cra]
                    a = {"dest": dest}
                    if ext:
                        a["extensions"] = ext
                    if ra is not None:
                        a["requested_attributes"] = EIDAS_ATTRS[ra]
                    out.append(case("authn_request", a, cfg, "ar-ext"))
    # signing, message id, consent, scoping, conditions, subject, destination
    for sign in [None, True, False]:
        for csign in [None, True]:
            for prep in [None, True]:
                cfg = {"sp_authn_requests_signed": True} if csign else {}
                a = {"dest": dest}
                if sign is not None:
                    a["sign"] = sign
                if prep:
                    a["sign_prepare"] = True
                out.append(case("authn_request", a, cfg, "ar-sign"))
    for mid in [0] + IDS:
        for consent in [None, True]:
            out.append(case("authn_request", {"dest": _pick(rng, URLS), "message_id": mid, "consent": consent}, {}, "ar-misc"))
    for sc in SCOPINGS:
        out.append(case("authn_request", {"dest": dest, "scoping": sc}, {}, "ar-misc"))
    out.append(case("authn_request", {"dest": dest, "kw": {"conditions": {"nb": "2023-11-14T22:13:20Z", "audiences": [[world.SP_ID]]}}}, {}, "ar-misc"))
    out.append(case("authn_request", {"dest": dest, "kw": {"subject": {"name_id": NAMEIDS[0]}}}, {}, "ar-misc"))
    out.append(case("authn_request", {"dest": dest, "kw": {"attribute_consuming_service_index": "1"}}, {}, "ar-misc"))
    out.append(case("authn_request", {"dest": ""}, {}, "ar-misc"))
    # random mixtures of everything
    for _ in range(1500 if ctx.thorough else 150):
        cfg = {}
        if rng.random() < .3:
            cfg["sp_name_id_policy_format"] = _pick(rng, [TRANSIENT, PERSISTENT])
        if rng.random() < .3:
            cfg["sp_name_id_format_allow_create"] = _pick(rng, [True, False])
        if rng.random() < .2:
            cfg["sp_force_authn"] = _pick(rng, [True, "true", "false"])
        if rng.random() < .15:
            cfg["sp_hide_assertion_consumer_service"] = True
        if rng.random() < .3:
            cfg["name"] = "Verif SP"
        if rng.random() < .2:
            cfg["sp_requested_authn_context"] = {"authn_context_class_ref": [AC_PPT], "comparison": "exact"}
        if rng.random() < .2:
            cfg["sp_sp_type"] = _pick(rng, ["public", "private"])
            if rng.random() < .7:
                cfg["sp_sp_type_in_metadata"] = _pick(rng, [True, False])
        if rng.random() < .2:
            cfg["sp_requested_attributes"] = _pick(rng, EIDAS_ATTRS[:3])
        if rng.random() < .2:
            cfg["sp_authn_requests_signed"] = True
        a = {"dest": _pick(rng, URLS)}
        kw = {}
        if rng.random() < .4:
            a["nameid_format"] = _pick(rng, nf[1:])
        if rng.random() < .3:
            a["allow_create"] = _pick(rng, ["true", "false"])
        if rng.random() < .2:
            a["vorg"] = "urn:vo:example"
        if rng.random() < .5:
            a["binding"] = _pick(rng, ["post", "redirect", "paos", "artifact"])
        if rng.random() < .3:
            a["message_id"] = _pick(rng, IDS)
        if rng.random() < .3:
            a["consent"] = True
        if rng.random() < .3:
            a["extensions"] = _pick(rng, [["sptype"], ["hint-a"], ["uiinfo", "hint-b"]])
        if rng.random() < .3:
            a["sign"] = _pick(rng, [True, False])
        if rng.random() < .1:
            a["sign_prepare"] = True
        if rng.random() < .25:
            a["scoping"] = _pick(rng, SCOPINGS)
        if rng.random() < .2:
            a["requested_attributes"] = _pick(rng, EIDAS_ATTRS[:3])
        if rng.random() < .3:
            kw["force_authn"] = _pick(rng, [True, "true", "false", "1"])
        if rng.random() < .3:
            kw["is_passive"] = _pick(rng, ["true", "false", "1", "0"])
        if rng.random() < .3:
            kw["provider_name"] = _pick(rng, TEXTS)
        if rng.random() < .2:
            kw["assertion_consumer_service_url"] = "https://sp.example.org/acs/other"
        if rng.random() < .2:
            kw["assertion_consumer_service_index"] = _pick(rng, ["1", "2", "65535"])
        if rng.random() < .2:
            kw["attribute_consuming_service_index"] = _pick(rng, ["0", "1"])
        if rng.random() < .2:
            kw["name_id_policy"] = _pick(rng, [None, {"format": EMAIL, "allow_create": "true"}, {"format": PERSISTENT, "spnq": "urn:q"}])
        if rng.random() < .25:
            kw["requested_authn_context_obj"] = _pick(rng, RACS)
        elif rng.random() < .2:
            kw["requested_authn_context"] = {"authn_context_class_ref": [AC_PASSWORD], "comparison": _pick(rng, ["exact", "minimum", "maximum", "better"])}
        if rng.random() < .1:
            kw["subject"] = {"name_id": _pick(rng, NAMEIDS)}
        if rng.random() < .1:
            kw["conditions"] = {"nb": "2023-11-14T22:13:20Z", "nooa": "2023-11-14T23:13:20Z", "otu": True}
        if kw:
            a["kw"] = kw
        out.append(case("authn_request", a, cfg, "ar-random"))
    return out


_SC = {"method": "urn:oasis:names:tc:SAML:2.0:cm:bearer", "data": {"recipient": "https://sp.example.org/acs/post", "irt": "id-1"}}
# (saml:BaseID is abstract in the schema - an instance needs an xsi:type from a schema of the caller's own: the plain
# saml.BaseID instance is not a valid argument wherever it would be written out)
SUBJECTS = [{"name_id": NAMEIDS[1]}, {"encrypted_id": True}, {"confirmations": [_SC]},
            {"name_id": NAMEIDS[0], "confirmations": [_SC, {"method": "urn:oasis:names:tc:SAML:2.0:cm:sender-vouches"}]},
            {"encrypted_id": "method", "confirmations": [_SC]}]

# values that are lexically of the type they are declared with (an ill-typed value is the caller's mistake)
TYPED_VALUES = [("xs:string", "Derek"), ("xsd:string", "Derek"), ("xs:integer", "43"), ("xsd:integer", "-7"),
                ("xs:boolean", "true"), ("xsd:boolean", "0"), ("xs:base64Binary", "AAECAwQ="), ("xsd:base64Binary", "AAEC"),
                ("xs:anyType", "anything"), ("xs:dateTime", "2023-11-14T22:13:20Z"), ("xsd:date", "2023-11-14"),
                ("xs:anyURI", "urn:x:y"), ("xs:float", "1.5"), ("xs:long", "9000000000"), ("", "untyped")]
AQ_KEYS = ["mail", ["urn:oid:2.5.4.42", NF_URI, "givenName"], ["urn:oid:2.5.4.4", NF_URI], ["sn", ""], ["urn:oid:2.5.4.3"],
           ["a", "b", ""]]


def gen_attribute_specs(ctx, rng):
    """The `attribute` argument of create_attribute_query as s_utils.do_attributes reads it: for every form of
    key (str, 1-, 2-, 3-tuple) and every form of value - None, str of 0..3 characters and longer, list of 0..3
    values, (value, type) tuples with the value a str / a list / None and the type spelt with either customary
    prefix of the XML-Schema namespace or empty - plus dictionaries that mix them."""
    out = []

    def q(attribute, tag, **extra):
        a = {"dest": URLS[0], "name_id": "abc", "attribute": attribute}
        a.update(extra)
        out.append(case("attribute_query", a, {}, tag))

    plain = [None, "", "a", "ab", "abc", "å", "åä", "Anna Karlsson", [], ["staff"], ["staff", "member"],
             ["staff", "member", "employee"], ["", ""], ["a&b", "<c>"]]
    for v in plain:
        q([["eduPersonAffiliation", v]], "aq-value-shape")
    for k in AQ_KEYS:
        for v in (["x"], {"t": ["x", "xsd:string"]}):
            q([[k, v]], "aq-key-shape")
    for typ, val in TYPED_VALUES:
        for shape in ("str", "list1", "list2"):
            if shape != "str" and not ctx.thorough and rng.random() < .5:
                continue
            v = val if shape == "str" else [val] if shape == "list1" else [val, val]
            q([["urn:example:attr", {"t": [v, typ]}]], "aq-typed")
    for v in ({"t": [None, ""]}, {"t": [None, "xs:string"]}, {"t": [[], "xs:string"]}, {"t": ["", "xs:string"]},
              {"t": [["a", "b", "c"], "xsd:string"]}):
        q([["urn:example:attr", v]], "aq-typed")
    # several attributes in one query: both prefixes side by side, typed next to untyped; signed as well (the
    # declarations have to survive the signer)
    for sign in [None, True]:
        q([["givenName", {"t": ["Derek", "xs:string"]}], ["affiliation", {"t": [["staff"], "xsd:string"]}], ["sn", ["J"]],
           ["shoeSize", {"t": ["43", "xsd:integer"]}]], "aq-typed", sign=sign)
        q([["a1", {"t": ["true", "xsd:boolean"]}]], "aq-typed", sign=sign)
    for _ in range(40 if ctx.thorough else 8):
        l = []
        for i in range(rng.randint(1, 4)):
            typ, val = _pick(rng, TYPED_VALUES)
            v = _pick(rng, [val, [val], [val, val, val]])
            l.append([_pick(rng, AQ_KEYS[:4]) if i == 0 else "attr%d" % i,
                      _pick(rng, [{"t": [v, typ]}, _pick(rng, plain[4:])])])
        q(l, "aq-typed", sign=_maybe(rng, .2, True), consent=_maybe(rng, .2, True))
    return out


def gen_requests(ctx, rng):
    out = []
    n = 4 if ctx.thorough else 1
    subj = {"name_id": NAMEIDS[0]}
    # attribute query
    attrs = [None, [["mail", ["x"]]], [[["urn:oid:2.5.4.42", NF_URI, "givenName"], None]],
             [[["urn:oid:2.5.4.42", NF_URI, "givenName"], ["Anna"]], [["a", "b"], "v"], ["sn", None]], []]
    for at in attrs:
        for nid in ["abc", NAMEIDS[1], None]:
            for sign in [None, True]:
                a = {"dest": _pick(rng, URLS), "attribute": at, "sign": sign}
                if nid is None:
                    a["kw"] = {"subject_id": "subj", "format": PERSISTENT, "sp_name_qualifier": world.SP_ID}
                else:
                    a["name_id"] = nid
                    if isinstance(nid, str) and rng.random() < .5:
                        a["kw"] = {"format": EMAIL, "name_qualifier": world.IDP_ID}
                out.append(case("attribute_query", a, {}, "attribute_query"))
    for _ in range(10 * n):
        out.append(case("attribute_query", {"dest": _pick(rng, URLS), "name_id": _pick(rng, NAMEIDS), "attribute": _pick(rng, attrs),
                                            "message_id": _pick(rng, [0] + IDS), "consent": _maybe(rng, .3, True),
                                            "extensions": _maybe(rng, .3, ["hint-a"]), "sign": _maybe(rng, .3, True),
                                            "sign_prepare": _maybe(rng, .2, True)}, {}, "attribute_query"))
    out += gen_attribute_specs(ctx, rng)
    # who the query is about: NameID instance / str (+ qualifier keywords) / subject_id keyword / nothing at all
    for nid in [NAMEIDS[0], "abc", None]:
        for sid_ in [None, "subj"]:
            kw = {"subject_id": sid_} if sid_ else {}
            if rng.random() < .5:
                kw["format"] = PERSISTENT
            a = {"dest": URLS[0], "attribute": [["mail", None]], "kw": kw}
            if nid is not None:
                a["name_id"] = nid
            out.append(case("attribute_query", a, {}, "aq-subject"))
    # authz decision queries
    for acts in [[["read", "urn:oasis:names:tc:SAML:1.0:action:rwedc"]], [["read", "urn:x"], ["write", "urn:x"]]]:
        for ev in [None, ["id-a1"], ["id-a1", "id-a2"]]:
            for sign in [None, True]:
                out.append(case("authz_decision_query", {"dest": _pick(rng, URLS), "actions": acts, "evidence": ev,
                                                         "resource": _pick(rng, URLS), "subject": subj, "sign": sign,
                                                         "consent": _maybe(rng, .3, True)}, {}, "authz_decision_query"))
    for action in ["read", ["read", "write"]]:
        for sign in [None, True]:
            out.append(case("authz_decision_query_using_assertion",
                            {"dest": URLS[0], "assertion": {"subject": subj}, "action": action, "resource": "https://r.example.org/x",
                             "subject": subj, "sign": sign}, {}, "authz_using_assertion"))
    # authn query
    for rac in RACS:
        for si in ["absent", "", "s-12"]:
            for sign in [None, True]:
                a = {"dest": _pick(rng, URLS), "subject": {"name_id": _pick(rng, NAMEIDS)}, "rac": rac, "sign": sign}
                if si != "absent":
                    a["session_index"] = si
                out.append(case("authn_query", a, {}, "authn_query"))
    # the Subject a caller hands in: every form the schema's choice allows (one identifier of each kind, with and
    # without confirmations, confirmations only)
    for sj in SUBJECTS:
        out.append(case("authn_query", {"dest": URLS[0], "subject": sj, "rac": RACS[0]}, {}, "subject-forms"))
        out.append(case("authz_decision_query", {"dest": URLS[0], "actions": [["read", "urn:x"]], "resource": URLS[0],
                                                 "subject": sj}, {}, "subject-forms"))
    # "exactly one of": every combination of the alternative identifier arguments present / absent
    for nid in [None, NAMEIDS[0]]:
        for bid in [None, "urn:q"]:
            for eid in [None, True, "method"]:
                for sign in [None, True]:
                    if sign and eid == "method":
                        continue
                    if bid and not nid:
                        continue        # the BaseID itself would be written: no valid instance of it exists (see SUBJECTS)
                    a = {"dest": URLS[0], "policy": {"format": PERSISTENT}, "sign": sign}
                    if nid:
                        a["name_id"] = nid
                    if bid:
                        a["base_id"] = bid
                    if eid:
                        a["encrypted_id"] = eid
                    out.append(case("name_id_mapping_request", a, {}, "one-of:name_id_mapping_request"))
    for who in ["sp", "idp"]:
        for nid in [None, NAMEIDS[1]]:
            for eid in [None, True]:
                for new in [None, "n-2"]:
                    for newenc in [None, True]:
                        for term in [None, True]:
                            if who == "idp" and rng.random() < .5:
                                continue
                            a = {"who": who, "dest": URLS[0]}
                            for k, v in (("name_id", nid), ("encrypted_id", eid), ("new_id", new), ("new_encrypted_id", newenc),
                                         ("terminate", term)):
                                if v is not None:
                                    a[k] = v
                            out.append(case("manage_name_id_request", a, {}, "one-of:manage_name_id_request"))
    # name id mapping request
    for pol in [{"format": PERSISTENT}, {"format": EMAIL, "allow_create": "true", "spnq": "urn:q"}]:
        for which in ["name_id"]:
            for sign in [None, True]:
                a = {"dest": URLS[0], "policy": pol, "sign": sign}
                if which in ("name_id", "both"):
                    a["name_id"] = _pick(rng, NAMEIDS)
                if which in ("base_id", "both"):
                    a["base_id"] = "urn:q"
                out.append(case("name_id_mapping_request", a, {}, "name_id_mapping_request"))
    # ECP
    for rs in ["", "relay", TEXTS[2]]:
        for sign in [None, True]:
            for kw in [{}, {"nameid_format": PERSISTENT}, {"provider_name": "P"}]:
                out.append(case("ecp_authn_request", {"relay_state": rs, "sign": sign, "kw": kw}, {}, "ecp_authn_request"))
    # logout request
    for who in ["sp", "idp"]:
        for nid in [None] + NAMEIDS[:2]:
            for sid_ in [None, "user-1"]:
                for si in [None, ["s1"], ["s1", "s2"]]:
                    for sign in [None, True]:
                        a = {"who": who, "dest": _pick(rng, URLS), "name_id": nid, "subject_id": sid_, "session_indexes": si,
                             "sign": sign, "reason": _maybe(rng, .4, "urn:oasis:names:tc:SAML:2.0:logout:user"),
                             "expire": _maybe(rng, .4, "2023-11-14T22:18:20Z"), "message_id": _pick(rng, [0] + IDS),
                             "consent": _maybe(rng, .2, True), "extensions": _maybe(rng, .2, ["hint-a"]),
                             "si_objects": rng.random() < .3}
                        if who == "idp" and sid_:
                            continue   # needs an identifier database entry; the name_id path is the one the IdP uses
                        out.append(case("logout_request", a, {"sp_logout_requests_signed": True} if rng.random() < .1 else {},
                                        "logout_request"))
    # logout / manage-name-id / artifact responses, artifact resolve, error responses
    for who in ["sp", "idp"]:
        for b in [["post"], ["redirect"], ["soap"]]:
            for st in STATUSES:
                for sign in [None, True]:
                    for iss in [None, "https://other.example.org/issuer"]:
                        if rng.random() < (1 if ctx.thorough else .5):
                            out.append(case("logout_response", {"who": who, "bindings": b, "status": st, "sign": sign, "issuer": iss},
                                            {"idp_sign_response": True} if (who == "idp" and rng.random() < .1) else {}, "logout_response"))
        for st in STATUSES:
            for sign in [None, True]:
                out.append(case("manage_name_id_response", {"who": who, "status": st, "sign": sign,
                                                            "issuer": _maybe(rng, .5, world.IDP_ID)}, {}, "manage_name_id_response"))
        for art in ["AAQAAMh48/1oXIM+sDo7Dh2qMp1HM4IF", "x"]:
            for sessid in [0, "id-s1"]:
                for sign in [None, True]:
                    out.append(case("artifact_resolve", {"who": who, "artifact": art, "dest": _pick(rng, URLS), "sessid": sessid,
                                                         "sign": sign, "consent": _maybe(rng, .3, True),
                                                         "extensions": _maybe(rng, .3, ["hint-a"])}, {}, "artifact_resolve"))
        for kind in ["authn_request", "logout_request", "error"]:
            for st in STATUSES[:3]:
                for sign in [None, True]:
                    for iss in [None, world.IDP_ID]:
                        if who == "idp" and kind == "authn_request":
                            continue
                        out.append(case("artifact_response", {"who": who, "artifact": "AAQAAxyz", "inner_kind": kind, "status": st,
                                                              "sign": sign, "issuer": iss}, {}, "artifact_response"))
        infos = [{"kind": "tuple", "code": "urn:oasis:names:tc:SAML:2.0:status:AuthnFailed", "message": "failed"},
                 {"kind": "tuple", "code": "urn:oasis:names:tc:SAML:2.0:status:RequestDenied", "message": None},
                 {"kind": "tuple", "code": "urn:x", "message": TEXTS[2]},
                 {"kind": "exc", "exc": "ValueError", "message": "boom"}, {"kind": "exc", "exc": "Exception"},
                 {"kind": "exc", "exc": "MissingValue", "message": "attr missing"}, {"kind": "exc", "exc": "UnknownPrincipal", "message": "who"},
                 {"kind": "exc", "exc": "UnsupportedBinding", "message": "b"},
                 {"kind": "exc", "exc": "Exception", "ctx": {"status_message_text": "ctx text", "status_code_status_code_value": "urn:ctx"}},
                 {"kind": "exc", "exc": "Exception", "ctx": {"status_code_status_code_value": "urn:ctx"}}]
        # in_response_to x destination x sign do not interact with what the status is made from: their full product
        # for one tuple and one exception, two drawn combinations for every other info
        for j, info in enumerate(infos):
            combos = [(irt, dest, sign) for irt in [None, "id-1"] for dest in [None, URLS[0]] for sign in [None, True]]
            if j not in (0, 3):
                combos = [(_pick(rng, [None, "id-1"]), _pick(rng, [None, URLS[0]]), sign) for sign in [None, True]]
            for irt, dest, sign in combos:
                out.append(case("error_response", {"who": who, "in_response_to": irt, "dest": dest, "info": info, "sign": sign,
                                                   "issuer": _maybe(rng, .3, "https://other.example.org/issuer")},
                                {}, "error_response"))
    # the status of an exception INSTANCE: every class the live table lists, classes it does not list (built-ins,
    # other saml2 exceptions), application subclasses of listed classes; with a message, without arguments, with a
    # context dictionary (with and without a status code of its own)
    names = exception_table() + [n for n in BUILTIN_EXCEPTIONS if n not in exception_table()] \
        + ["UnknownSystemEntity", "sub:UnknownPrincipal", "sub:MissingValue", "sub:Exception", "sub:ValueError"]
    for j, name in enumerate(names):
        forms = [{"message": "it failed"}, {}]
        if j % 3 == 0:
            forms.append({"ctx": {"status_message_text": "ctx text", "status_code_status_code_value": "urn:ctx"}})
        if j % 3 == 1:
            forms.append({"ctx": {"status_message_text": "only text"}})
        for f in forms:
            info = {"kind": "exc", "exc": name}
            info.update(f)
            out.append(case("error_response", {"who": ["sp", "idp"][j % 2], "in_response_to": "id-1", "dest": URLS[0], "info": info},
                            {}, "error_response-exception"))
    for who in ["sp", "idp"]:
        for nid in NAMEIDS[:2]:
            for new in [("new_id", "n-1"), ("terminate", True)]:
                for sign in [None, True]:
                    a = {"who": who, "dest": URLS[0], "name_id": nid, "sign": sign}
                    a[new[0]] = new[1]
                    out.append(case("manage_name_id_request", a, {}, "manage_name_id_request"))
    return out


def gen_responses(ctx, rng):
    out = []
    aa_cfg = {"idp_endpoints": {"single_sign_on_service": [(world.IDP_SSO_REDIRECT, world.BINDING_HTTP_REDIRECT)],
                                "assertion_id_request_service": [("https://idp.example.org/airs", world.BINDING_URI)]}}
    k = 0
    for ident in IDENTITIES:
        for authn in AUTHNS:
            for sr, sa in [(None, None), (True, None), (None, True), (True, True)]:
                for enc in [None, "enc", "enc-sc0", "pefim", "advice"]:
                    k += 1
                    if not ctx.thorough and rng.random() > .35:
                        continue
                    a = {"identity": ident, "in_response_to": _pick(rng, [None, "id-1"] + IDS), "dest": _pick(rng, [None] + URLS[:2]),
                         "authn": authn}
                    if rng.random() < .5:
                        a["userid"] = "user-%d" % rng.randint(1, 3)
                    else:
                        a["name_id"] = _pick(rng, NAMEIDS)
                    if rng.random() < .3:
                        a["name_id_policy"] = {"format": _pick(rng, [PERSISTENT, TRANSIENT, EMAIL]), "spnq": _maybe(rng, .3, "urn:q")}
                    if sr is not None:
                        a["sign_response"] = sr
                    if sa is not None:
                        a["sign_assertion"] = sa
                    if enc in ("enc", "enc-sc0"):
                        a["encrypt_assertion"] = True
                        a["encrypt_cert_assertion"] = _maybe(rng, .5, "sp")
                    elif enc == "pefim":
                        a["pefim"] = True
                        a["encrypt_cert_advice"] = "sp"
                    elif enc == "advice":
                        a["encrypted_advice_attributes"] = True
                    if rng.random() < .2:
                        a["session_not_on_or_after"] = "2023-11-15T06:13:20Z"
                    if rng.random() < .15:
                        a["status"] = _pick(rng, STATUSES[1:])
                    if rng.random() < .15:
                        a["issuer"] = "https://other.example.org/issuer"
                    if rng.random() < .15 and enc is None:
                        a["via"] = "request_response"
                    cfg = {}
                    if rng.random() < .15:
                        cfg["idp_sign_response"] = True
                    if rng.random() < .15:
                        cfg["idp_sign_assertion"] = True
                    out.append(case("authn_response", a, cfg, "authn_response" + ("-enc" if enc else "")))
    # sign_response x sign_assertion x every encryption mode, completely (the sampled product above varies the rest):
    # each ds:Signature template needs an Id of its own, and xs:ID uniqueness is judged over the whole document
    for sr, sa in [(None, None), (True, None), (None, True), (True, True), (False, True), (True, False)]:
        for enc in [None, "enc", "pefim", "advice"]:
            a = {"identity": IDENTITIES[0], "in_response_to": "id-1", "dest": world.SP_ACS_POST, "userid": "user-1", "authn": AUTHNS[0]}
            if sr is not None:
                a["sign_response"] = sr
            if sa is not None:
                a["sign_assertion"] = sa
            if enc == "enc":
                a["encrypt_assertion"] = True
            elif enc == "pefim":
                a["pefim"] = True
                a["encrypt_cert_advice"] = "sp"
            elif enc == "advice":
                a["encrypted_advice_attributes"] = True
            out.append(case("authn_response", a, {}, "authn_response-sign-enc-product"))
    # PEFIM towards a service provider for which no encryption certificate is known: the advice stays in the clear
    for sa in [None, True]:
        for sr in [None, True]:
            out.append(case("authn_response", {"identity": IDENTITIES[0], "in_response_to": "id-1", "dest": world.SP_ACS_POST,
                                               "userid": "user-1", "authn": AUTHNS[0], "pefim": True, "sign_assertion": sa,
                                               "sign_response": sr}, {"_sp_enc_in_md": False}, "authn_response-pefim-clear"))
    for ident in IDENTITIES[:3]:
        for sr, sa in [(None, None), (True, None), (None, True)]:
            out.append(case("ecp_authn_response", {"identity": ident, "in_response_to": "id-1", "dest": world.SP_ACS_POST,
                                                   "userid": "u1", "authn": AUTHNS[0], "sign_response": sr, "sign_assertion": sa},
                            {}, "ecp_authn_response"))
            out.append(case("attribute_response", {"identity": ident, "in_response_to": _pick(rng, [None, "id-1"]),
                                                   "dest": _pick(rng, URLS[:2]), "userid": _maybe(rng, .5, "u1"),
                                                   "name_id": _maybe(rng, .5, NAMEIDS[0]), "sign_response": sr, "sign_assertion": sa,
                                                   "status": _maybe(rng, .2, STATUSES[2])}, {}, "attribute_response"))
    for nid in NAMEIDS[:2]:
        for sign in [None, True]:
            for st in STATUSES[:2]:
                out.append(case("name_id_mapping_response", {"name_id": nid, "in_response_to": "id-1", "sign": sign, "status": st},
                                {}, "name_id_mapping_response"))
    for sa in [None, True]:
        for sign in [None, True]:
            out.append(case("assertion_id_request_response", {"sign_assertion": sa, "sign": sign}, aa_cfg, "assertion_id_request_response"))
    # an authn query about a subject that signed on several times (0..3 sessions, same or different context
    # classes, with and without a context / session filter): one assertion per matching statement
    ses = [{"class_ref": AC_PASSWORD, "authn_auth": world.IDP_ID}, {"class_ref": AC_PPT}, {"class_ref": AC_PASSWORD}]
    for n in [0, 1, 2, 3]:
        for rac in [None, RACS[0]]:
            for sign in [None, True]:
                if sign and n != 2:
                    continue
                out.append(case("authn_query_response", {"sessions": ses[:n], "in_response_to": "id-q1", "sign": sign, "rac": rac},
                                aa_cfg, "authn_query_response-sessions"))
    # identity values that are not str: the xsi:type and the text are derived from the Python type
    for ident in TYPED_IDENTITIES:
        for b in ["authn_response", "attribute_response"]:
            out.append(case(b, {"identity": ident, "in_response_to": "id-1", "dest": world.SP_ACS_POST, "userid": "u1",
                                "authn": AUTHNS[1]}, {}, b + "-typed-values"))
    for known in [True, False]:
        for sign in [None, True]:
            for st in STATUSES[:3]:
                out.append(case("authn_query_response", {"known": known, "in_response_to": _pick(rng, [None, "id-1"]), "sign": sign,
                                                         "status": st, "rac": _maybe(rng, .3, RACS[0]),
                                                         "issuer": _maybe(rng, .3, world.IDP_ID)}, aa_cfg, "authn_query_response"))
    return out


UI_INFOS = [
    {"display_name": {"text": "Verif", "lang": "en"}, "description": {"text": "Beskrivning å", "lang": "sv"},
     "information_url": {"text": "https://sp.example.org/info", "lang": "en"},
     "privacy_statement_url": {"text": "https://sp.example.org/privacy", "lang": "en"},
     "logo": {"text": "https://sp.example.org/logo.png", "width": "100", "height": "50", "lang": "en"},
     "keywords": {"text": ["foo", "bar"], "lang": "en"}},
    {"display_name": [{"text": "Verif", "lang": "en"}, {"text": "Verif sv", "lang": "sv"}],
     "logo": [{"text": "https://sp.example.org/l1.png", "width": "16", "height": "16"},
              {"text": "https://sp.example.org/l2.png", "width": "32", "height": "32", "lang": "sv"}],
     "keywords": [{"text": ["a"], "lang": "en"}, {"text": ["b", "c"], "lang": "sv"}]},
    # the plain-string forms of the documentation's example (docs/howto/config.rst, ui_info)
    {"display_name": "Example Co.", "privacy_statement_url": "http://example.com/saml2/privacyStatement.html",
     "information_url": "http://example.com/saml2/info.html",
     "logo": {"height": "40", "width": "30", "text": "http://example.com/logo.jpg"},
     "description": {"text": "Exempel Bolag", "lang": "se"}, "keywords": {"lang": "en", "text": ["foo", "bar"]}},
    {"keywords": ["plain", "words"]},
    {"description": ["one", {"text": "two", "lang": "en"}]},
]
# (text, lang) pairs are written as two-element lists inside a list: a top-level tuple would not survive a replay file
ORGS = [{"name": "Org", "display_name": "Org AB", "url": "https://org.example.org"},
        {"name": [["Org", "sv"]], "display_name": [["Org AB", "sv"], ["Org Ltd", "en"]], "url": [["https://org.example.org/sv", "sv"]]},
        {"name": [["Org", "en"], "Org again"], "display_name": "D", "url": "https://o"},
        {"name": "AB", "display_name": "Org AB", "url": "https://org.example.org"}]
CONTACTS = [[{"given_name": "Anna", "sur_name": "Karlsson", "email_address": ["anna@example.org"], "contact_type": "technical"}],
            [{"given_name": "B", "email_address": ["b@example.org", "b2@example.org"], "telephone_number": ["+46 70 000"],
              "contact_type": "support", "company": "Org"}, {"sur_name": "C", "contact_type": "administrative"}],
            [{"given_name": "No type"}], [{"email_address": "single@example.org", "contact_type": "other"}]]
ENTITY_ATTRS = [[{"format": NF_URI, "name": "urn:oasis:names:tc:SAML:profiles:subject-id:req", "values": ["any"]}],
                [{"name": "urn:example:attr", "friendly_name": "ex", "values": ["a", "b"]},
                 {"format": "urn:oasis:names:tc:SAML:2.0:attrname-format:basic", "name": "n2", "values": []}]]


# A configuration may spell a boolean option as a Python boolean, as an integer, or - read from JSON / YAML / ini /
# environment text - as the words true / false in any case or as "1" / "0" (Base.__init__ reads such text by what it
# says); the metadata schema types the attribute xs:boolean: lexical forms true / false / 1 / 0 only.
BOOL_SPELLINGS = [True, False, "true", "false", "True", "False", "TRUE", "FALSE", "tRuE", "fAlse", "1", "0", 1, 0]
MD_BOOL_OPTIONS = [("sp_want_assertions_signed", "sp"), ("sp_authn_requests_signed", "sp"),
                   ("idp_want_authn_requests_signed", "idp")]


def gen_metadata(ctx, rng):
    out = []

    def sp_md_cfg():
        cfg = {}
        r = rng.random
        if r() < .5:
            cfg["sp_ui_info"] = _pick(rng, UI_INFOS)
        if r() < .4:
            cfg["organization"] = _pick(rng, ORGS)
        if r() < .4:
            cfg["contact_person"] = _pick(rng, CONTACTS)
        if r() < .3:
            cfg["entity_attributes"] = _pick(rng, ENTITY_ATTRS)
        if r() < .3:
            cfg["entity_category"] = ["http://refeds.org/category/research-and-scholarship"]
        if r() < .2:
            cfg["entity_category_support"] = ["http://www.geant.net/uri/dataprotection-code-of-conduct/v1"]
        if r() < .2:
            cfg["assurance_certification"] = ["https://refeds.org/sirtfi"]
        if r() < .3:
            cfg["sp_required_attributes"] = _pick(rng, [["givenName", "mail"], ["sn"]])
        if r() < .3:
            cfg["sp_optional_attributes"] = _pick(rng, [["displayName"], ["title", "mail"]])
        if r() < .3:
            cfg["name"] = _pick(rng, ["Verif SP", TEXTS[2]])
        if r() < .3:
            cfg["description"] = _pick(rng, ["A service", ("En tjänst", "sv")])
        if r() < .3:
            cfg["sp_name_id_format"] = _pick(rng, [TRANSIENT, [PERSISTENT, EMAIL]])
        if r() < .3:
            cfg["sp_want_assertions_signed"] = _pick(rng, BOOL_SPELLINGS)
        if r() < .3:
            cfg["sp_authn_requests_signed"] = _pick(rng, BOOL_SPELLINGS)
        if r() < .2:
            cfg["valid_for"] = _pick(rng, [1, 24, 168])
        if r() < .2:
            cfg["sp_sp_type"] = _pick(rng, ["public", "private"])
            cfg["sp_sp_type_in_metadata"] = _pick(rng, [True, False])
        if r() < .2:
            cfg["metadata_key_usage"] = _pick(rng, ["signing", "encryption", "both"])
        if r() < .15:
            cfg["encryption_keypairs"] = None
        if r() < .2:
            cfg["sp_discovery_response"] = [("https://sp.example.org/disco", world.BINDING_DISCO)]
        if r() < .2:
            cfg["sp_endpoints"] = {
                "assertion_consumer_service": [(world.SP_ACS_POST, world.BINDING_HTTP_POST, 5), world.SP_ACS_REDIRECT],
                "single_logout_service": [(world.SP_SLO_SOAP, world.BINDING_SOAP)],
                "manage_name_id_service": [("https://sp.example.org/mni", world.BINDING_SOAP)],
                "artifact_resolution_service": [("https://sp.example.org/ars", world.BINDING_SOAP)]}
        return cfg

    def idp_md_cfg():
        cfg = {}
        r = rng.random
        if r() < .5:
            cfg["idp_ui_info"] = _pick(rng, UI_INFOS)
        if r() < .4:
            cfg["organization"] = _pick(rng, ORGS)
        if r() < .4:
            cfg["contact_person"] = _pick(rng, CONTACTS)
        if r() < .3:
            cfg["idp_scope"] = _pick(rng, [["example.org"], ["example.org", "example.com"]])
        if r() < .3:
            cfg["idp_name_id_format"] = _pick(rng, [TRANSIENT, [PERSISTENT, EMAIL]])
        if r() < .3:
            cfg["idp_want_authn_requests_signed"] = _pick(rng, BOOL_SPELLINGS)
        if r() < .2:
            cfg["idp_error_url"] = "https://idp.example.org/error"
        if r() < .2:
            cfg["entity_category_support"] = ["http://refeds.org/category/research-and-scholarship"]
        if r() < .2:
            cfg["valid_for"] = 24
        if r() < .3:
            cfg["svc_aa"] = {"endpoints": {"attribute_service": [("https://idp.example.org/aa", world.BINDING_SOAP)]},
                             "name_id_format": [PERSISTENT]}
        if r() < .2:
            cfg["svc_aq"] = {"endpoints": {"authn_query_service": [("https://idp.example.org/aq", world.BINDING_SOAP)]}}
        if r() < .2:
            cfg["svc_pdp"] = {"endpoints": {"authz_service": [("https://idp.example.org/pdp", world.BINDING_SOAP)]}}
        if r() < .2:
            cfg["idp_endpoints"] = {
                "single_sign_on_service": [(world.IDP_SSO_REDIRECT, world.BINDING_HTTP_REDIRECT)],
                "single_logout_service": [(world.IDP_SLO_SOAP, world.BINDING_SOAP)],
                "artifact_resolution_service": [("https://idp.example.org/ars", world.BINDING_SOAP)],
                "name_id_mapping_service": [("https://idp.example.org/nim", world.BINDING_SOAP)],
                "assertion_id_request_service": [("https://idp.example.org/airs", world.BINDING_URI)],
                "manage_name_id_service": [("https://idp.example.org/mni", world.BINDING_SOAP)]}
        return cfg

    out.append(case("entity_descriptor", {"who": "sp"}, {}, "md-entity"))
    out.append(case("entity_descriptor", {"who": "idp"}, {}, "md-entity"))
    for ui in UI_INFOS:
        out.append(case("entity_descriptor", {"who": "sp"}, {"sp_ui_info": ui}, "md-uiinfo"))
        out.append(case("entity_descriptor", {"who": "idp"}, {"idp_ui_info": ui}, "md-uiinfo"))
    for o in ORGS:
        out.append(case("entity_descriptor", {"who": "sp"}, {"organization": o}, "md-org"))
    for c in CONTACTS:
        out.append(case("entity_descriptor", {"who": "idp"}, {"contact_person": c}, "md-contact"))
    for ea in ENTITY_ATTRS:
        out.append(case("entity_descriptor", {"who": "sp"}, {"entity_attributes": ea, "entity_category": ["urn:cat"]}, "md-entattr"))
    for spt in [("public", True), ("private", True), ("public", False)]:
        out.append(case("entity_descriptor", {"who": "sp"}, {"sp_sp_type": spt[0], "sp_sp_type_in_metadata": spt[1],
                                                              "sp_requested_attributes": EIDAS_ATTRS[0]}, "md-eidas"))
    # every legal spelling of the boolean options that end up as xs:boolean attributes of the role descriptors
    # (WantAssertionsSigned, AuthnRequestsSigned, WantAuthnRequestsSigned): each option alone, complete; the two SP
    # options together in mixed spellings; the same through every metadata entry point
    for opt, who in MD_BOOL_OPTIONS:
        for v in BOOL_SPELLINGS:
            out.append(case("entity_descriptor", {"who": who}, {opt: v}, "md-boolspelling"))
    for i, v in enumerate(BOOL_SPELLINGS):
        w = BOOL_SPELLINGS[(i * 5 + 3) % len(BOOL_SPELLINGS)]
        kind = ["metadata_string", "entities_descriptor", "signed_entity_descriptor"][i % 3]
        a = {"who": "sp"}
        if kind == "metadata_string":
            a.update({"valid": "24" if i % 2 else None, "sign": True if i % 4 == 0 else None})
        elif kind == "entities_descriptor":
            a.update({"valid_for": 4, "name": "federation", "sign": True if i % 2 else None})
        out.append(case(kind, a, {"sp_want_assertions_signed": v, "sp_authn_requests_signed": w}, "md-boolspelling"))
    for _ in range(400 if ctx.thorough else 70):
        who = _pick(rng, ["sp", "idp"])
        cfg = sp_md_cfg() if who == "sp" else idp_md_cfg()
        kind = _pick(rng, ["entity_descriptor", "entity_descriptor", "entities_descriptor", "signed_entity_descriptor", "metadata_string"])
        a = {"who": who}
        if kind == "entities_descriptor":
            a.update({"name": _maybe(rng, .5, "federation"), "valid_for": _pick(rng, [0, 4]), "ident": _maybe(rng, .5, "id-fed1"),
                      "sign": _maybe(rng, .5, True)})
        elif kind == "signed_entity_descriptor":
            a["ident"] = _maybe(rng, .5, "id-ed1")
        elif kind == "metadata_string":
            a.update({"valid": _maybe(rng, .5, "24"), "mid": _maybe(rng, .4, "id-md1"), "name": _maybe(rng, .4, "fed"),
                      "sign": _maybe(rng, .5, True)})
        out.append(case(kind, a, cfg, "md-" + kind))
    return out


# ------------------------------------------------------------------------------- the farg argument tree
SCM_BEARER = "urn:oasis:names:tc:SAML:2.0:cm:bearer"
SCM_SENDER_VOUCHES = "urn:oasis:names:tc:SAML:2.0:cm:sender-vouches"
SCM_HOK = "urn:oasis:names:tc:SAML:2.0:cm:holder-of-key"
_ABSENT = "<absent>"


def _sc_farg(sc, extra=False):
    f = {"assertion": {"subject": {"subject_confirmation": sc}}}
    if extra:       # keys nobody reads, at every level
        f["comment"] = "x"
        f["assertion"]["issuer"] = {"text": "ignored"}
        f["assertion"]["subject"]["base_id"] = None
    return f


FARG_METHODS = [_ABSENT, None, SCM_BEARER, SCM_SENDER_VOUCHES, SCM_HOK]
FARG_SCDS = [_ABSENT, {}, {"address": "192.0.2.7"}, {"recipient": "https://other.example.org/acs"}, {"in_response_to": "id-own"},
             {"in_response_to": None}, {"recipient": None, "address": None}, {"not_before": "2023-11-14T22:13:20Z"},
             {"not_on_or_after": "2001-01-01T00:00:00Z"},
             {"not_before": "2023-11-14T22:13:20Z", "recipient": "urn:example:r", "in_response_to": "_own.2", "address": "a&b<c>",
              "not_on_or_after": None, "comment": "never written"}]
FARG_NAMEIDS = [_ABSENT, {"text": "conf-1", "format": PERSISTENT}, {"__inst__": ["name_id", {"text": "conf-2", "spnq": "urn:q"}]},
                {"text": "c3", "name_qualifier": "urn:nq", "sp_name_qualifier": "urn:spnq", "sp_provided_id": "p", "format": None}, None]
# fargs that do not reach do_subject at all, or not in one piece: (farg, exception kind)
FARG_RAISING = [
    ({"assertion": None}, "type"), ({"assertion": {"subject": None}}, "type"), (_sc_farg(None), "type"), (_sc_farg("bearer"), "type"),
    (_sc_farg([{"method": SCM_BEARER}]), "type"),                                  # the list form do_subject itself accepts
    (_sc_farg({"subject_confirmation_data": None}), "type"),
    (_sc_farg({"subject_confirmation_data": {"__inst__": ["scd", "192.0.2.7"]}}), "type"),
    (_sc_farg({"method": SCM_HOK}), "attribute"),                                  # holder-of-key without key_info
    (_sc_farg({"method": {"uri": SCM_BEARER}}), "type"), (_sc_farg({"extra": {"a": "b"}}), "type"),
    (_sc_farg({"subject_confirmation_data": {"extra": {"a": "b"}}}), "type"),
    (_sc_farg({"not_on_or_after": "2030-01-01T00:00:00Z"}), "type"),
    ({"assertion": {"subject": {"name_id": {"text": "q"}}}}, "type"),
    (_sc_farg({"name_id": "just-a-str"}), "attribute"),
]
FARG_SHELLS = [None, {}, {"assertion": {}}, {"assertion": {"subject": {}}}, {"other": {"a": "b"}}, {"assertion": {"issuer": "x"}},
               {"assertion": {"subject": {"subject_confirmation": {}}}}, {"assertion": {"subject": {"subject_confirmation": {"comment": "x"}}}}]


def _farg_base(b, i):
    a = {"identity": IDENTITIES[i % 3], "in_response_to": "id-1", "dest": world.SP_ACS_POST}
    if b == "authn_response":
        a["authn"] = AUTHNS[i % 2]
        a["userid" if i % 3 else "name_id"] = "user-1" if i % 3 else NAMEIDS[0]
    elif b == "setup_assertion":
        a["authn"] = AUTHNS[i % 2]
        a["name_id"] = NAMEIDS[i % 2]
    else:
        a["userid" if i % 2 else "name_id"] = "u1" if i % 2 else NAMEIDS[0]
    return a


def gen_farg(ctx):
    """The farg dimension of create_authn_response / create_attribute_response / setup_assertion: which of the parts
    update_farg completes (method, in_response_to, recipient) the caller gave, left out or gave as None; the other
    members of SubjectConfirmation(Data); the shells around them; trees the code cannot digest; one farg object
    reused over several calls; combined with signing / encryption / PEFIM and with in_response_to / destination absent.
    Own generator (fixed seed): the cases drawn from ctx.rng are the same as before this dimension existed."""
    import random

    rng = random.Random(1313)
    out = []
    i = 0
    for bi, b in enumerate(FARG_BUILDERS):
        # quick tier: create_authn_response gets every combination, the two other entries (same update_farg, own
        # plumbing) complementary halves / thirds of them
        full = ctx.thorough or b == "authn_response"
        n = 0
        # method x confirmation data, completely
        for m in FARG_METHODS:
            for scd in FARG_SCDS:
                i += 1
                n += 1
                if not full and n % 2 != bi % 2:
                    continue
                sc = {}
                if m is not _ABSENT:
                    sc["method"] = m
                if m == SCM_HOK:
                    sc["key_info"] = {"__inst__": ["key_info", "key-1"]}
                if scd is not _ABSENT:
                    sc["subject_confirmation_data"] = scd
                nid = FARG_NAMEIDS[i % len(FARG_NAMEIDS)] if i % 2 else _ABSENT
                if nid is not _ABSENT:
                    sc["name_id"] = nid
                a = _farg_base(b, i)
                a["farg"] = _sc_farg(sc, extra=(i % 5 == 0))
                if i % 7 == 0:
                    a["in_response_to"] = None
                if i % 11 == 0:
                    a["dest"] = None
                if b != "setup_assertion" and i % 9 == 0:
                    a["sign_assertion" if i % 2 else "sign_response"] = True
                out.append(case(b, a, {}, "farg-" + b))
        # the name id / encrypted id of the confirmation itself
        for nid in FARG_NAMEIDS[1:]:
            for m in [_ABSENT, SCM_SENDER_VOUCHES]:
                i += 1
                n += 1
                if not full and n % 2 != bi % 2:
                    continue
                sc = {"name_id": nid}
                if m is not _ABSENT:
                    sc["method"] = m
                a = _farg_base(b, i)
                a["farg"] = _sc_farg(sc)
                out.append(case(b, a, {}, "farg-" + b))
        a = _farg_base(b, 1)
        a["farg"] = _sc_farg({"encrypted_id": {"__inst__": ["encrypted_id", True]}, "base_id": None})
        out.append(case(b, a, {}, "farg-" + b))
        # the shells: nothing of the confirmation given; in_response_to / destination given or not
        for k, shell in enumerate(FARG_SHELLS):
            for j, (irt, dest) in enumerate([("id-1", world.SP_ACS_POST), (None, world.SP_ACS_POST), ("id-1", None), (None, None)]):
                i += 1
                if not ((full and k in (0, 2, 6)) or ctx.thorough or j == (k + bi) % 4):
                    continue
                a = _farg_base(b, i)
                a["farg"], a["in_response_to"], a["dest"] = shell, irt, dest
                out.append(case(b, a, {}, "farg-shell-" + b))
        # trees the code cannot digest: nothing is emitted, and the model has to say so as well
        for k, (farg, exc) in enumerate(FARG_RAISING):
            i += 1
            if not full and k % 3 != bi:
                continue
            a = _farg_base(b, i)
            a["farg"], a["farg_exc"] = farg, exc
            out.append(case(b, a, {}, "farg-raises-" + b))
        # one farg object handed to several calls in a row (a module-level constant of the deployment): update_farg
        # writes into it
        for k, farg in enumerate([_sc_farg({"subject_confirmation_data": {"address": "192.0.2.7"}}), _sc_farg({"method": SCM_SENDER_VOUCHES}),
                                  {"assertion": {}}, _sc_farg({"subject_confirmation_data": {"recipient": "urn:example:r"}})]):
            for reuse in [2, 3]:
                i += 1
                if not ctx.thorough and reuse != 2 + (k + bi) % 2:
                    continue
                a = _farg_base(b, i)
                a["farg"], a["reuse"] = farg, reuse
                out.append(case(b, a, {}, "farg-reuse-" + b))
    # with signing / encryption / PEFIM (update_farg runs twice on the caller's tree) and the configuration's own signing
    for farg in [_sc_farg({"subject_confirmation_data": {"address": "192.0.2.7"}}), _sc_farg({"method": SCM_SENDER_VOUCHES}),
                 _sc_farg({"subject_confirmation_data": {"recipient": "urn:example:r", "in_response_to": "id-own"},
                           "name_id": FARG_NAMEIDS[1]})][:3 if ctx.thorough else 2]:
        for sr, sa in [(True, None), (None, True), (True, True)]:
            for enc in [None, "enc", "pefim", "advice"]:
                if enc is not None and (sr, sa) == (True, True):
                    continue
                a = {"identity": IDENTITIES[0], "in_response_to": "id-1", "dest": world.SP_ACS_POST, "userid": "user-1", "authn": AUTHNS[0],
                     "farg": farg}
                if sr is not None:
                    a["sign_response"] = sr
                if sa is not None:
                    a["sign_assertion"] = sa
                if enc == "enc":
                    a["encrypt_assertion"] = True
                elif enc == "pefim":
                    a["pefim"] = True
                    a["encrypt_cert_advice"] = "sp"
                elif enc == "advice":
                    a["encrypted_advice_attributes"] = True
                out.append(case("authn_response", a, {"idp_sign_assertion": True} if rng.random() < .2 else {}, "farg-sign-enc"))
        a = {"identity": IDENTITIES[0], "in_response_to": "id-1", "dest": world.SP_ACS_POST, "userid": "user-1", "authn": AUTHNS[0],
             "pefim": True, "farg": farg}
        out.append(case("authn_response", a, {"_sp_enc_in_md": False}, "farg-pefim-clear"))
    # create_attribute_response with the Attribute elements of the query (a restriction on names / values), with and
    # without a farg of the caller
    for k, attrs in enumerate([[["givenName", []]], [["givenname", []], ["mail", ["^a@"]]], [["nope", []]], [["givenName", ["^Z"]]]]):
        a = _farg_base("attribute_response", k)
        a["attributes"] = attrs
        if k % 2:
            a["farg"] = _sc_farg({"subject_confirmation_data": {"address": "192.0.2.7"}})
        out.append(case("attribute_response", a, {}, "attribute_response-attributes"))
    # seeded random mixtures
    for _ in range(150 if ctx.thorough else 24):
        b = _pick(rng, list(FARG_BUILDERS))
        sc = {}
        m = _pick(rng, FARG_METHODS[:4])
        if m is not _ABSENT:
            sc["method"] = m
        scd = {}
        for k, vs in [("address", ["192.0.2.7", "2001:db8::1", None]), ("recipient", [URLS[1], "", None]),
                      ("in_response_to", IDS + [None]), ("not_before", ["2023-11-14T22:13:20Z", "2023-01-01T00:00:00Z", None])]:
            if rng.random() < .4:
                scd[k] = _pick(rng, vs)
        if scd or rng.random() < .5:
            sc["subject_confirmation_data"] = scd
        if rng.random() < .3:
            sc["name_id"] = _pick(rng, FARG_NAMEIDS[1:])
        i += 1
        a = _farg_base(b, i)
        a["farg"] = _sc_farg(sc, extra=rng.random() < .3)
        a["in_response_to"] = _pick(rng, [None] + IDS)
        out.append(case(b, a, {}, "farg-random-" + b))
    # one injected defect into a sample of these outputs
    muts = []
    pool = [c for c in out if not c["a"].get("farg_exc")]
    for _ in range(60 if ctx.thorough else 12):
        c = copy.deepcopy(pool[rng.randrange(len(pool))])
        c["mut"] = rng.randrange(1 << 30)
        c["tag"] = "mut:" + c["tag"]
        muts.append(c)
    return out + muts


# ---- the encryption arguments of create_authn_response / create_attribute_response (round 5) ------------------------
ENC_BASE = {"in_response_to": "id-1", "userid": "user-1"}


def enc_raises(a, cfg):
    """gather_authn_response_args: a configured verify_encrypt_cert_* callable wants a certificate and has to accept it
    (labels the case; Release.enc_plan has to say the same)"""
    if a.get("via") == "request_response":
        a = {k: v for k, v in a.items() if not k.startswith("encrypt")}
    enc = a.get("encrypt_assertion")
    if enc is None:
        enc = cfg.get("idp_encrypt_assertion")
    adv = a.get("encrypted_advice_attributes", False)
    if adv is None:
        adv = cfg.get("idp_encrypted_advice_attributes")
    for flag, ver, cert in ((adv or a.get("pefim"), cfg.get("_verify_adv"), a.get("encrypt_cert_advice")),
                            (enc, cfg.get("_verify_ass"), a.get("encrypt_cert_assertion"))):
        if flag and ver and (cert is None or ver == "reject"):
            return True
    return False


def _enc_case(b, md, ea, adv, ca, cv, sc=None, cfg=None, extra=None, tag="enc"):
    a = dict(ENC_BASE, identity=IDENTITIES[0], dest=world.SP_ACS_POST)
    if b == "authn_response":
        a["authn"] = AUTHNS[0]
    if ea != _ABSENT:
        a["encrypt_assertion"] = ea
    if adv == "pefim":
        a["pefim"] = True
    elif adv == "advice":
        a["encrypted_advice_attributes"] = True
    elif adv == "advice-none":
        a["encrypted_advice_attributes"] = None
    if ca:
        a["encrypt_cert_assertion"] = ca
    if cv:
        a["encrypt_cert_advice"] = cv
    if sc is not None:
        a["encrypt_assertion_self_contained"] = sc
    a.update(extra or {})
    cfg = dict(cfg or {})
    if md != "both":
        cfg["_sp_keys"] = md
    if enc_raises(a, cfg):
        a["enc_exc"] = "other:CertificateError"
    return case(b, a, cfg, tag + "-" + b)


def gen_enc(ctx):
    """Which certificate is there to encrypt for: the service provider's metadata (encryption KeyDescriptor, one without
    `use`, several, none at all) x encrypt_assertion (absent / True / False, from the call or from the configuration) x
    PEFIM / encrypted_advice_attributes x encrypt_cert_assertion given or not x encrypt_cert_advice given or not, for
    both entries that reach Entity._response with these arguments; self-contained off; verify_encrypt_cert_* configured;
    signing on top.  Own generator, fixed seed."""
    import random

    rng = random.Random(50713)
    out = []
    # the complete product for a service provider with and without an encryption key
    for md in ["both", "signing"]:
        for ea in [_ABSENT, True, False]:
            for adv in [None, "pefim", "advice"]:
                for ca in [None, "sp"]:
                    for cv in [None, "spenc2"]:
                        if adv == "advice" and not ctx.thorough and ea is False:
                            continue
                        out.append(_enc_case("authn_response", md, ea, adv, ca, cv))
    # create_attribute_response hands the same keywords straight to _response (no gather step, no PEFIM)
    for md in ["both", "signing"]:
        for ea in [_ABSENT, True]:
            for ca in [None, "sp"]:
                for cv in [None, "spenc2"]:
                    out.append(_enc_case("attribute_response", md, ea, "advice" if (ca and cv) else None, ca, cv,
                                         extra={"sign_assertion": True} if (md == "signing" and ca and not cv) else None))
    # the other shapes of the key material in the metadata
    for md in ["nouse", "none", "two-enc", "enc-only"]:
        for ea, adv in [(True, None), (_ABSENT, "pefim"), (True, "pefim")]:
            for ca, cv in [(None, None), ("sp", None), (None, "spenc2"), ("sp", "spenc2")]:
                if not ctx.thorough and md in ("two-enc", "enc-only") and (ca, cv) == ("sp", "spenc2"):
                    continue
                out.append(_enc_case("authn_response", md, ea, adv, ca, cv))
    # self-contained namespaces switched off, wherever something gets wrapped
    for md in ["both", "signing"]:
        for ea, adv in [(True, None), (_ABSENT, "pefim"), (True, "pefim")]:
            for ca, cv in [(None, None), ("sp", None), (None, "sp"), ("sp", "sp")]:
                if md == "both" and (ca, cv) in ((None, "sp"), ("sp", None)) and not ctx.thorough:
                    continue
                out.append(_enc_case("authn_response", md, ea, adv, ca, cv, sc=False))
    # encrypt_assertion (and the two options nobody reads) in the configuration; create_authn_request_response
    # forwards no encryption keyword at all
    for md in ["both", "signing"]:
        for cea in [True, False]:
            for ea in [_ABSENT, True, False, None]:
                for via in [None, "request_response"]:
                    if via and ea not in (_ABSENT, True):
                        continue
                    out.append(_enc_case("authn_response", md, ea, None, "sp" if (md == "signing" and ea is None) else None, None,
                                         cfg={"idp_encrypt_assertion": cea}, extra={"via": via} if via else None, tag="enc-config"))
    for k in ["idp_encrypted_advice_attributes", "idp_encrypt_assertion_self_contained"]:
        for v in [True, False]:
            out.append(_enc_case("authn_response", "both", _ABSENT, "pefim", None, None, cfg={k: v}, tag="enc-config"))
            out.append(_enc_case("authn_response", "signing", True, "advice-none", "sp", None, cfg={k: v}, tag="enc-config"))
    # a configured verifier of the handed-in certificates: it wants one whenever the part is switched on
    for vass in [None, "accept", "reject"]:
        for vadv in [None, "accept", "reject"]:
            if vass is None and vadv is None:
                continue
            for ea, adv in [(_ABSENT, None), (True, None), (_ABSENT, "pefim"), (_ABSENT, "advice"), (True, "pefim")]:
                for ca, cv in [(None, None), ("sp", None), (None, "sp"), ("sp", "sp")]:
                    if not ctx.thorough and rng.random() > .3:
                        continue
                    cfg = {}
                    if vass:
                        cfg["_verify_ass"] = vass
                    if vadv:
                        cfg["_verify_adv"] = vadv
                    out.append(_enc_case("authn_response", _pick(rng, ["both", "signing"]), ea, adv, ca, cv, cfg=cfg, tag="enc-verify"))
    # signing on top, for the service provider without encryption key (the complete sign x mode product above has one)
    for sr, sa in [(True, None), (None, True), (True, True)]:
        for ea, adv, ca, cv in [(True, None, None, "sp"), (True, None, "sp", None), (_ABSENT, "pefim", "sp", None),
                                (_ABSENT, "pefim", None, "sp"), (True, "pefim", None, "sp"), (True, "pefim", "sp", "sp")]:
            if not ctx.thorough and (sr, sa) == (True, True) and ca:
                continue
            extra = {}
            if sr:
                extra["sign_response"] = True
            if sa:
                extra["sign_assertion"] = True
            out.append(_enc_case("authn_response", "signing", ea, adv, ca, cv, extra=extra, tag="enc-sign"))
    # seeded mixtures with the other arguments
    for _ in range(120 if ctx.thorough else 16):
        b = _pick(rng, ["authn_response", "authn_response", "attribute_response"])
        extra = {"identity": _pick(rng, IDENTITIES[:3]), "in_response_to": _pick(rng, [None] + IDS)}
        if rng.random() < .3:
            extra["name_id"] = _pick(rng, NAMEIDS)
        if rng.random() < .3:
            extra["sign_response"] = True
        if b == "authn_response" and rng.random() < .3:
            extra["farg"] = _sc_farg({"subject_confirmation_data": {"address": "192.0.2.7"}})
        out.append(_enc_case(b, _pick(rng, list(SP_KEYS)), _pick(rng, [_ABSENT, True, True, False]),
                             _pick(rng, [None, "pefim", "advice"]) if b == "authn_response" else None,
                             _pick(rng, [None, "sp", "spenc2"]), _pick(rng, [None, "sp", "spenc2"]),
                             sc=_pick(rng, [None, None, False]), extra=extra, tag="enc-random"))
    muts = []
    pool = [c for c in out if not c["a"].get("enc_exc")]
    for _ in range(40 if ctx.thorough else 8):
        c = copy.deepcopy(pool[rng.randrange(len(pool))])
        c["mut"] = rng.randrange(1 << 30)
        c["tag"] = "mut:" + c["tag"]
        muts.append(c)
    return out + muts


# ---- what the identity dictionary may hold (round 5): the one attribute with a serialisation of its own ---------------
EPTID_OID = "urn:oid:1.3.6.1.4.1.5923.1.1.1.10"
NF_BASIC = "urn:oasis:names:tc:SAML:2.0:attrname-format:basic"
NF_SHIB = "urn:mace:shibboleth:1.0:attributeNamespace:uri"      # the shibboleth_uri map: the same oid, hence the same special case
_EPT_D = {"text": "opaque-0003", "NameQualifier": world.IDP_ID, "SPNameQualifier": world.SP_ID}
# (value of eduPersonTargetedID in the identity, exception when it reaches to_eptid_value / serialisation)
EPTID_VALUES = [
    ("opaque-0001", None), (["opaque-0001"], None), (["opaque-0001", "opaque-0002"], None),
    (_EPT_D, None), ([_EPT_D], None), (["opaque-0004", dict(_EPT_D, text="opaque-0005")], None),
    ([dict(_EPT_D, text="a&b<c>\"d'"), dict(_EPT_D, text="opaque-0006", NameQualifier="urn:q:1", SPNameQualifier="urn:q:2")], None),
    ([], None), (None, None), ("", None), ([""], None), (TEXTS[3], None),
    ([dict(_EPT_D, text="")], None), ([dict(_EPT_D, text=None)], None), ([dict(_EPT_D, NameQualifier="", SPNameQualifier="")], None),
    (dict(_EPT_D, Format="urn:example:format"), None), ([dict(_EPT_D, SPProvidedID="sp-prov", extra="1")], None),
    ({"text": "opaque-0007"}, "key"), ({"text": "opaque-0007", "NameQualifier": world.IDP_ID}, "key"),
    ({"NameQualifier": world.IDP_ID, "SPNameQualifier": world.SP_ID}, "key"), ([{}], "key"),
    ([dict(_EPT_D, NameQualifier=None)], "type"), ([dict(_EPT_D, SPNameQualifier=None)], "type"), (7, "type"), ([True], "type"),
]


def _policy(nf=_ABSENT, restr=None):
    pol = {"lifetime": {"minutes": 15}, "attribute_restrictions": restr}
    if nf is not _ABSENT:
        pol["name_form"] = nf
    return {"idp_policy": {"default": pol}}


def _id_case(b, ident, cfg=None, exc=None, extra=None, tag="identity"):
    a = {"identity": ident, "in_response_to": "id-1", "dest": world.SP_ACS_POST}
    if b in ("authn_response", "setup_assertion"):
        a["authn"] = AUTHNS[0]
    if b == "setup_assertion":
        a["name_id"] = NAMEIDS[0]
    else:
        a["userid"] = "user-1"
    a.update(extra or {})
    if exc:
        a["id_exc"] = exc
        if tag == "identity-restriction":
            a["id_exc_outside"] = True      # raised by the policy filter (a regular expression against a dict), not by the converter
    return case(b, a, cfg or {}, tag + "-" + b)


def gen_identity(ctx):
    """eduPersonTargetedID - the attribute AttributeConverter.to_ serialises in its own way (a NameID inside the
    AttributeValue) - over every spelling of its value (str, list, the documented dictionary form, mixtures, empty,
    None, surplus / missing / None-valued keys), under every spelling of the key, name format of the policy (with
    the oid map, another map, none), restriction and requested attributes, on every entry that builds an attribute
    statement, signed / PEFIM on top."""
    import random

    rng = random.Random(50813)
    out = []
    other = [["givenName", ["Anna"]]]
    for i, (v, exc) in enumerate(EPTID_VALUES):
        for j, b in enumerate(FARG_BUILDERS):
            if not ctx.thorough and j != i % 3 and not (j == 0 and isinstance(v, (dict, list)) and exc is None):
                continue
            ident = (other if i % 2 else []) + [["eduPersonTargetedID", v]] + ([["mail", ["a@x.org"]]] if i % 3 == 0 else [])
            out.append(_id_case(b, ident, {}, exc))
    # spellings of the key (the converter looks it up lower-cased; the oid itself is no key of the map)
    for key in ["edupersontargetedid", "EDUPERSONTARGETEDID", "EduPersonTargetedId", EPTID_OID]:
        for v, exc in [EPTID_VALUES[0], EPTID_VALUES[4], EPTID_VALUES[5], EPTID_VALUES[7]]:
            if key == EPTID_OID:
                exc = "value" if any(isinstance(x, dict) for x in (v if isinstance(v, list) else [v])) else None
            out.append(_id_case("authn_response", other + [[key, v]], {}, exc, tag="identity-key"))
    # the name format in force: default, the oid map, the basic map (another name: no special case), no map at all
    for nf in [_ABSENT, NF_URI, NF_SHIB, NF_BASIC, "urn:oasis:names:tc:SAML:2.0:attrname-format:unspecified", "urn:example:nf"]:
        for v, exc in [EPTID_VALUES[0], EPTID_VALUES[2], EPTID_VALUES[4], EPTID_VALUES[5], EPTID_VALUES[8]]:
            if nf in (NF_BASIC, "urn:oasis:names:tc:SAML:2.0:attrname-format:unspecified"):
                exc = "value" if any(isinstance(x, dict) for x in (v if isinstance(v, list) else [v])) else None
            out.append(_id_case("attribute_response" if nf == NF_URI else "authn_response", other + [["eduPersonTargetedID", v]],
                                _policy(nf), exc, tag="identity-nameformat"))
    # restrictions of the policy and the attributes the service provider asks for
    for v, _exc in [EPTID_VALUES[0], EPTID_VALUES[4], EPTID_VALUES[5]]:
        has_dict = not isinstance(v, str)
        for restr, exc in [({"eduPersonTargetedID": None}, None), ({"edupersontargetedid": ["^opaque"]}, "type" if has_dict else None),
                           ({"givenName": None}, None), ({"edupersontargetedid": None, "givenname": ["^A"]}, None)]:
            out.append(_id_case("authn_response", other + [["eduPersonTargetedID", v]], _policy(NF_URI, restr), exc,
                                tag="identity-restriction"))
        for req in [[[EPTID_OID, "eduPersonTargetedID", True]], [[EPTID_OID, None, False]], [["urn:oid:2.5.4.42", "givenName", True]],
                    [[EPTID_OID, "eduPersonTargetedID", None], ["urn:oid:2.5.4.4", "sn", True]],
                    [[EPTID_OID, "eduPersonTargetedID", True], ["urn:oid:2.5.4.42", "givenName", False]]]:
            missing = [n for n, _f, r in req if r and n == "urn:oid:2.5.4.4"]
            out.append(_id_case("authn_response", other + [["eduPersonTargetedID", v]], {"_sp_requested": req}, None,
                                {"missing_required": missing[0]} if missing else None, tag="identity-requested"))
    # an attribute authority with a policy of its own (create_attribute_response reads the "aa" section, not the idp's)
    for nf, restr in [(NF_URI, None), (NF_SHIB, {"eduPersonTargetedID": None}), (NF_BASIC, None), (_ABSENT, {"givenName": None})]:
        for v, exc in [EPTID_VALUES[0], EPTID_VALUES[5]]:
            aa = {"endpoints": {"attribute_service": [("https://idp.example.org/aa", world.BINDING_SOAP)]},
                  "policy": _policy(nf, restr)["idp_policy"]}
            out.append(_id_case("attribute_response", other + [["eduPersonTargetedID", v]],
                                dict(_policy(NF_BASIC), svc_aa=aa), "value" if (nf == NF_BASIC and not isinstance(v, str)) else None,
                                tag="identity-aa"))
    # signed / PEFIM (the attributes travel in the advice assertion) / encrypted on top
    for v, _exc in [EPTID_VALUES[4], EPTID_VALUES[5]]:
        ident = other + [["eduPersonTargetedID", v]]
        out.append(_id_case("authn_response", ident, {}, None, {"sign_assertion": True}, tag="identity-signed"))
        out.append(_id_case("authn_response", ident, {}, None, {"sign_response": True}, tag="identity-signed"))
        out.append(_id_case("attribute_response", ident, {}, None, {"sign_assertion": True}, tag="identity-signed"))
        out.append(_id_case("authn_response", ident, {}, None, {"pefim": True}, tag="identity-pefim"))
        out.append(_id_case("authn_response", ident, {"_sp_keys": "signing"}, None, {"pefim": True}, tag="identity-pefim"))
        out.append(_id_case("authn_response", ident, {"_sp_keys": "signing"}, None, {"pefim": True, "sign_assertion": True},
                            tag="identity-pefim"))
        out.append(_id_case("authn_response", ident, {}, None, {"encrypt_assertion": True}, tag="identity-encrypted"))
    # dictionary-form values under an ordinary attribute, and ordinary values of unusual make
    for key, v, exc in [("givenName", {"text": "Anna"}, "value"), ("givenName", [{"text": "Anna"}], "value"),
                        ("mail", ["a@x.org", ""], None), ("sn", "", None), ("displayName", [TEXTS[4], TEXTS[5]], None),
                        ("urn:example:unmapped", ["v1", "v2"], None), ("unmapped", [], None)]:
        out.append(_id_case("authn_response", [[key, v]], {}, exc, tag="identity-values"))
    # seeded mixtures
    for _ in range(80 if ctx.thorough else 10):
        vals = []
        for _k in range(rng.randint(1, 3)):
            vals.append(_pick(rng, ["opaque-%d" % rng.randint(1, 9), dict(_EPT_D, text=_pick(rng, TEXTS[:4])),
                                    dict(_EPT_D, NameQualifier=_pick(rng, URLS)), ""]))
        out.append(_id_case(_pick(rng, list(FARG_BUILDERS)),
                            _pick(rng, IDENTITIES[:3]) + [[_pick(rng, ["eduPersonTargetedID", "edupersontargetedid"]), vals]],
                            _pick(rng, [{}, {}, _policy(NF_URI), _policy()]), None, tag="identity-random"))
    muts = []
    pool = [c for c in out if not c["a"].get("id_exc")]
    for _ in range(40 if ctx.thorough else 8):
        c = copy.deepcopy(pool[rng.randrange(len(pool))])
        c["mut"] = rng.randrange(1 << 30)
        c["tag"] = "mut:" + c["tag"]
        muts.append(c)
    return out + muts


# ---- eIDAS requested attributes: every spelling of an attribute x every pattern of "which loaded map knows it"
_RA_ABSENT = "<absent>"
NF_CUSTOM = "urn:example:verif:attrname-format:custom"


def _ra(name=_RA_ABSENT, friendly=_RA_ABSENT, fmt=_RA_ABSENT, required=_RA_ABSENT):
    d = {}
    for k, v in (("name", name), ("friendly_name", friendly), ("name_format", fmt), ("required", required)):
        if v != _RA_ABSENT:
            d[k] = v
    return d


def _ra_class(acs, attr):
    """where the attribute stands against the stated domain, from the converters' TABLES alone (mirror of
    BuilderProofs.rattr_ok / Corr.both_no_format; it only steers the generator - Coq judges the output):
    "ok" the element has to be valid, "raises", "invalid" (an argument outside the domain: an attribute no loaded map
    knows, a `required` that is no boolean).  Since 711f9f2e (finding 10) a name the maps know needs no name_format
    even when the friendly name is given as well."""
    name, friendly, fmt = attr.get("name"), attr.get("friendly_name"), attr.get("name_format")
    if not name and not friendly:
        return "raises"
    if str(attr.get("required", False)).lower() not in ("true", "false", "1", "0"):
        return "invalid"
    if name:
        known = any(name.lower() in (c._fro or {}) for c in acs)
        return "ok" if (fmt is not None or known) else "invalid"
    return "ok" if any(friendly.lower() in (c._to or {}) for c in acs) else "invalid"


def _patterns(acs, sel):
    """one key of the live tables per occurring pattern of "which of the loaded maps has it", in table order"""
    seen, out = set(), []
    for c in acs:
        for k in (getattr(c, sel) or {}):
            p = tuple(k in (getattr(x, sel) or {}) for x in acs)
            if p not in seen:
                seen.add(p)
                out.append(k)
    return out


def _ar_case(ras, cfg, tag, route="arg", extra=None):
    """route: "arg" (call argument), "cfg" (requested_attributes of the configuration), "both" (the argument wins; the
    configuration holds another attribute), "empty" (argument [] falls back to the configuration)"""
    cfg = dict(cfg)
    a = {"dest": URLS[0]}
    if route in ("cfg", "empty"):
        cfg["sp_requested_attributes"] = ras
        if route == "empty":
            a["requested_attributes"] = []
    else:
        a["requested_attributes"] = ras
        if route == "both":
            cfg["sp_requested_attributes"] = [{"name": "urn:example:from-the-configuration", "name_format": NF_CUSTOM}]
    a.update(extra or {})
    return case("authn_request", a, cfg, tag)


def _swapcase_some(s_):
    return "".join(ch.upper() if i % 2 == 0 else ch for i, ch in enumerate(s_))


def gen_reqattr(ctx):
    """create_requested_attribute_node: name / friendly_name / name_format / required each absent, None, "" or given;
    the friendly name (the name) known to every occurring subset of the loaded maps - the first, a middle, the last
    one only, several, all - read off the LIVE tables; the built-in maps and directories of three small maps in
    several loading orders; one attribute per request and many; through the call argument, the configuration, both,
    an empty argument; on top of signing / SPType / caller extensions."""
    import random

    rng = random.Random(60913)
    out = []
    falsy = [_RA_ABSENT, None, ""]
    for ms in [None, "abc", "cba", "bac", "acb", "a", "ab", "bc", "xb"]:
        cfg = {} if ms is None else {"_maps": ms}
        acs = get_sp(cfg).config.attribute_converters
        full = ms in (None, "abc", "cba")
        tag = "ra-" + (ms or "builtin")
        friendlies = _patterns(acs, "_to")
        names = _patterns(acs, "_fro")
        # the key as the map file spells it is lost at load time; ask in another case as well
        friendlies_x = [_swapcase_some(friendlies[0]), friendlies[-1].upper()]
        names_x = [_swapcase_some(names[0]), names[-1].upper()]
        fmts = [_RA_ABSENT, None, "", NF_URI, NF_BASIC, NF_CUSTOM] if full else [_RA_ABSENT, NF_URI, NF_CUSTOM]
        # many attributes in one request: every pattern under one spelling of the two other keys
        for fmt in fmts:
            for other in (falsy if full else falsy[:1]):
                # quick tier: every format with the key absent, the other falsy spellings with two formats
                if not ctx.thorough and other != _RA_ABSENT and fmt not in (_RA_ABSENT, NF_URI):
                    continue
                out.append(_ar_case([_ra(name=other, friendly=f, fmt=fmt) for f in friendlies + friendlies_x], cfg, tag + "-friendly-list",
                                    route="cfg" if fmt == NF_BASIC else "arg"))
                out.append(_ar_case([_ra(name=n, friendly=other, fmt=fmt) for n in names + names_x], cfg, tag + "-name-list",
                                    route="cfg" if fmt == NF_CUSTOM else "arg"))
        # one attribute per request (a failing input is then minimal)
        if full or ctx.thorough:
            for fmt in [_RA_ABSENT, NF_URI, NF_BASIC] if ctx.thorough else [_RA_ABSENT, NF_URI]:
                for f in friendlies + friendlies_x[:1]:
                    out.append(_ar_case([_ra(friendly=f, fmt=fmt)], cfg, tag + "-friendly"))
                for n in names + names_x[:1]:
                    if fmt == _RA_ABSENT or ctx.thorough:
                        out.append(_ar_case([_ra(name=n, fmt=fmt)], cfg, tag + "-name"))
        # name and friendly name both given: neither loop runs (with a format: taken as it is; without: the third step
        # of 711f9f2e - finding 10 before it - takes the format of the first map that knows the name)
        pairs = [(names[0], acs_fro(acs, names[0])), (names[-1], "somethingElse"), (names[0], friendlies[-1])]
        for n, f in pairs if (ms is None or ctx.thorough) else pairs[:1]:
            for fmt in [NF_URI, "", NF_CUSTOM, _RA_ABSENT, None]:
                out.append(_ar_case([_ra(name=n, friendly=f, fmt=fmt)], cfg, tag + "-both", route="cfg" if fmt is None else "arg"))
        out.append(_ar_case([_ra(name="http://eidas.europa.eu/attributes/naturalperson/PersonIdentifier", friendly="PersonIdentifier",
                                 fmt=NF_URI, required=True),
                             _ra(name="http://eidas.europa.eu/attributes/naturalperson/DateOfBirth", fmt=NF_URI)], cfg, tag + "-unmapped"))
    # required: every spelling (str(...).lower() has to be an xs:boolean)
    reqs = [_RA_ABSENT, True, False, "true", "false", "True", "FALSE", "1", "0", 1, 0]
    out.append(_ar_case([_ra(friendly="givenName", required=r) for r in reqs], {}, "ra-required"))
    for r in reqs:
        out.append(_ar_case([_ra(name="urn:oid:2.5.4.4", required=r)], {}, "ra-required", route="cfg" if r in (True, "1") else "arg"))
    # nothing to go by: the call raises ValueError, wherever in the list the item stands
    good = _ra(friendly="givenName")
    for ras in [[{}], [_ra(required=True)], [_ra(name="", friendly=None)], [good, _ra(fmt=NF_URI)], [_ra(name=None), good]]:
        for route in ("arg", "cfg"):
            out.append(_ar_case(ras, {}, "ra-raises", route=route))
    # where the list comes from
    for ms in [None, "abc", "cba"] if ctx.thorough else [None, "cba"]:
        cfg = {} if ms is None else {"_maps": ms}
        acs = get_sp(cfg).config.attribute_converters
        fr, nm = _patterns(acs, "_to"), _patterns(acs, "_fro")
        for ras in [[_ra(friendly=fr[0], fmt=NF_URI)], [_ra(friendly=fr[1]), _ra(name=nm[-1])], [_ra(name=nm[0], fmt=NF_BASIC, required=True)]]:
            for route in ("arg", "cfg", "both", "empty"):
                out.append(_ar_case(ras, cfg, "ra-route", route=route))
    # on top of the other things that touch Extensions, and signed
    for ms in [None, "cba"]:
        cfg = {} if ms is None else {"_maps": ms}
        acs = get_sp(cfg).config.attribute_converters
        fr = _patterns(acs, "_to")
        ras = [_ra(friendly=f, fmt=NF_URI, required=True) for f in fr[:4]]
        out.append(_ar_case(ras, dict(cfg, sp_sp_type="public", sp_sp_type_in_metadata=False), "ra-ext"))
        out.append(_ar_case(ras, cfg, "ra-ext", extra={"extensions": ["hint-a", "hint-b"]}))
        out.append(_ar_case(ras, cfg, "ra-ext", extra={"sign": True}))
        out.append(_ar_case(ras, dict(cfg, sp_authn_requests_signed=True), "ra-ext", route="cfg"))
    # the other place that turns friendly names into RequestedAttribute elements: required_attributes /
    # optional_attributes of the metadata (metadata.do_requested_attribute through from_local_name: the map of the uri
    # format alone is asked; "bc" has none, the names then stay as they are)
    for ms in [None, "abc", "cba", "bc", "xb"]:
        cfg = {} if ms is None else {"_maps": ms}
        fr = _patterns(get_sp(cfg).config.attribute_converters, "_to")
        out.append(case("entity_descriptor", {"who": "sp"},
                        dict(cfg, sp_required_attributes=fr[:6] + ["nobodyKnowsThis", _swapcase_some(fr[0])],
                             sp_optional_attributes=fr[-2:]), "ra-metadata"))
    # seeded mixtures (inside the domain)
    for _ in range(300 if ctx.thorough else 30):
        ms = _pick(rng, [None, None, "abc", "cba", "bac", "acb", "ab", "bc", "xb"])
        cfg = {} if ms is None else {"_maps": ms}
        acs = get_sp(cfg).config.attribute_converters
        fr, nm = _patterns(acs, "_to"), _patterns(acs, "_fro")
        ras = []
        while len(ras) < rng.randint(1, 5):
            if rng.random() < .5:
                x = _ra(name=_pick(rng, falsy), friendly=_pick(rng, fr), fmt=_pick(rng, falsy + [NF_URI, NF_BASIC, NF_CUSTOM]),
                        required=_pick(rng, reqs))
            else:
                x = _ra(name=_pick(rng, nm), friendly=_pick(rng, falsy + [_pick(rng, fr)]),
                        fmt=_pick(rng, falsy + [NF_URI, NF_BASIC, NF_CUSTOM]), required=_pick(rng, reqs))
            if rng.random() < .2 and x.get("friendly_name"):
                x["friendly_name"] = _swapcase_some(x["friendly_name"])
            if _ra_class(acs, x) == "ok":
                ras.append(x)
        extra = {}
        if rng.random() < .2:
            extra["sign"] = True
        if rng.random() < .2:
            extra["extensions"] = ["hint-a"]
        out.append(_ar_case(ras, cfg, "ra-random", route=_pick(rng, ["arg", "cfg", "both", "empty"]), extra=extra))
    # the generator stays inside the stated domain (or in a labelled class)
    for c in out:
        if c["b"] != "authn_request":
            continue
        acs = get_sp({k: v for k, v in c["cfg"].items() if k == "_maps"}).config.attribute_converters
        ras = c["a"].get("requested_attributes") or c["cfg"].get("sp_requested_attributes") or []
        kinds = set(_ra_class(acs, x) for x in ras)
        if "invalid" in kinds:
            raise RuntimeError("gen_reqattr left the domain: %r" % (c,))
    muts = []
    pool = [c for c in out if c["tag"] not in ("ra-raises",)]
    for _ in range(60 if ctx.thorough else 10):
        c = copy.deepcopy(pool[rng.randrange(len(pool))])
        c["mut"] = rng.randrange(1 << 30)
        c["tag"] = "mut:" + c["tag"]
        muts.append(c)
    return out + muts


def acs_fro(acs, name):
    """the friendly name the first map that knows `name` has for it"""
    for c in acs:
        if name.lower() in (c._fro or {}):
            return c._fro[name.lower()]
    return None


def gen_lex(ctx, rng):
    out = []
    day = 86400
    stamps = [1, 59, 60, 3599, 3600, day - 1, day, day + 1, 68169599, 68169600,          # 1972-02-29 / 03-01
              951782399, 951782400, 951868800,                                            # 2000-02-28/29, 03-01
              946684799, 946684800, 1709164800, 1709251199, 1709251200, NOW,              # 1999/2000, 2024-02-29
              4107542399, 4107542400, 4107628800,                                         # 2100-02-28 -> 03-01 (no leap day)
              13574563199, 13574563200, 13574649600,                                      # 2400-02-28/29
              32503679999, 32503680000, 253402300799]                                     # year 3000, end of 9999
    for m in range(1, 13):
        stamps.append(env.epoch(2023, m, 1) - 1)
        stamps.append(env.epoch(2024, m, 1))
    for _ in range(600 if ctx.thorough else 120):
        stamps.append(rng.randrange(1, 253402300800) if rng.random() < .5 else rng.randrange(1, 4102444800))
    for ts in stamps:
        out.append(case("lex_instant", {"ts": ts}, {}, "lex_instant"))
    for _ in range(200 if ctx.thorough else 40):
        out.append(case("lex_sid", {}, {}, "lex_sid"))
    return out


def generate(ctx):
    rng = ctx.rng
    cases = gen_authn_request(ctx, rng) + gen_requests(ctx, rng) + gen_responses(ctx, rng) + gen_metadata(ctx, rng)
    # one injected structural defect into a sample of the outputs
    pool = [c for c in cases]
    k = 1500 if ctx.thorough else 250
    muts = []
    for i in range(k):
        c = copy.deepcopy(pool[rng.randrange(len(pool))])
        c["mut"] = rng.randrange(1 << 30)
        c["tag"] = "mut:" + c["tag"]
        muts.append(c)
    return cases + muts + gen_lex(ctx, rng) + gen_farg(ctx) + gen_enc(ctx) + gen_identity(ctx) + gen_reqattr(ctx)


def nontrivial(case_, obs):
    if case_["b"].startswith("lex_"):
        return (case_["b"], obs["value"])
    if obs["tree"] is None:
        return None
    import hashlib

    def shape(t):
        return [t[0][1], sorted(k[1] for k, _v in t[1]), [shape(k) for k in t[3]]]

    h = hashlib.sha1(_freeze(shape(obs["tree"])).encode()).hexdigest()[:12]
    return (case_["b"], h, obs["mut_kind"], bool(obs["xsd"] and obs["xsd_ext"]))


def histogram(cases, observed):
    h = {"by_tag": {}, "by_builder": {}, "exceptions": {}, "oracle_rejects_unmutated": {}, "valid_instance": {},
         "mutations": {}, "nodes": 0, "compensated_for_standin": 0}
    for c, o in zip(cases, observed):
        h["by_tag"][c["tag"]] = h["by_tag"].get(c["tag"], 0) + 1
        h["by_builder"][c["b"]] = h["by_builder"].get(c["b"], 0) + 1
        if c["b"].startswith("lex_"):
            continue
        if o["exc"]:
            k = c["b"] + ":" + o["exc"] + ("" if c.get("mut") is not None or o["exc"] == expected_exc(c) else ":UNEXPECTED")
            h["exceptions"][k] = h["exceptions"].get(k, 0) + 1
            continue
        h["nodes"] += o["size"]
        h["compensated_for_standin"] += 1 if o["compensated"] else 0
        if c.get("mut") is None:
            h["valid_instance"][o["vi"]] = h["valid_instance"].get(o["vi"], 0) + 1
            if not (o["xsd"] and o["xsd_ext"]):
                h["oracle_rejects_unmutated"][c["b"]] = h["oracle_rejects_unmutated"].get(c["b"], 0) + 1
        else:
            k = "%s:%s" % (o["mut_kind"], "rejected" if not (o["xsd"] and o["xsd_ext"]) else "still-valid")
            h["mutations"][k] = h["mutations"].get(k, 0) + 1
    return h


FINDING_CLASSES = {1: "C13-F1", 2: "C13-F2", 3: "C13-F3", 4: "C13-F4", 5: "C13-F5", 6: "C13-F6", 7: "C13-F7", 8: "C13-F8", 9: "C13-F9",
                   10: "C13-F10"}
UNDER_THEOREM = {
    "create_authn_request": "c13_authn_request_valid (all option handling: ACS url/index/binding, hide, ProviderName, "
                            "ForceAuthn, IsPassive, NameIDPolicy/AllowCreate/vorg, RequestedAuthnContext, Scoping, Conditions, "
                            "Subject, Extensions with eIDAS SPType / RequestedAttributes, consent, destination, signing); "
                            "create_requested_attribute_node: c13_reqattr_valid, c13_reqattr_first_map, "
                            "c13_reqattr_names_independent_of_format, c13_reqattr_name_present, finding 10 (repaired): c13_reqattr_no_format_v0_refuted / "
                            "c13_reqattr_known_valid / c13_reqattr_fix_conservative; tied to the source text by "
                            "c13_src2_requested_attribute_node (coq/gen/C13Src2.v, translator v2)",
    "create_logout_request": "c13_logout_request_valid, c13_logout_request_one_identifier",
    "create_logout_response": "c13_logout_response_valid (_status_response)",
    "create_manage_name_id_response": "c13_manage_name_id_response_valid (_status_response)",
    "create_artifact_response": "c13_artifact_response_valid (_status_response + the stored message)",
    "create_error_response / _response (Response shell of create_authn_response, create_attribute_response, "
    "create_authn_query_response: assertions as serialised)": "c13_response_valid, c13_error_response_valid",
    "create_attribute_query": "c13_attribute_query_valid (Attribute elements as serialised)",
    "create_artifact_resolve": "c13_artifact_resolve_valid",
    "metadata.entity_descriptor (EntityDescriptor shell + do_organization_info; role descriptors, contacts and "
    "Extensions content as serialised)": "c13_entity_descriptor_valid",
    "create_name_id_mapping_response": "c13_name_id_mapping_response_valid (after fix 04928d2a; the pinned snapshot: _v0_refuted / _v0_never_valid)",
    "create_name_id_mapping_request (name_id > base_id > encrypted_id precedence)":
        "c13_name_id_mapping_request_valid, c13_name_id_mapping_request_one_identifier (the xs:choice: exactly one identifier "
        "for every combination of the three arguments)",
    "create_manage_name_id_request (name_id / encrypted_id; new_id / new_encrypted_id / terminate)":
        "c13_manage_name_id_request_valid, c13_manage_name_id_request_one_of_each",
    "s_utils.do_attributes / do_attribute / do_ava + AttributeValue.set_text / set_type (the `attribute` dictionary of "
    "create_attribute_query: key forms, value forms, (value, type) tuples, declaration of the xs / xsd prefix)":
        "c13_attribute_query_s_valid, c13_do_attributes_typed, c13_do_attributes_plain_untyped (after fix bf274fc5; the pinned "
        "snapshot: c13_do_attributes_misread_v0_refuted)",
    "create_authn_query_response (identifiers of its assertions)":
        "c13_authn_query_response_own_ids_unique, c13_authn_query_response_sample_ok (after fix 8ef9e86e; the pinned snapshot: "
        "c13_authn_query_response_ids_v0_never_unique, _v0_refuted)",
    "Server.update_farg + argtree.is_set / add_path + s_utils.factory + assertion.do_subject / do_subject_confirmation (the "
    "Subject of the assertions of create_authn_response, create_attribute_response and setup_assertion, from the farg "
    "argument tree of the caller: any nesting of dicts / str / None / instances / lists)":
        "c13_update_farg_method_set, c13_update_farg_method, c13_update_farg_in_response_to, c13_update_farg_recipient (what "
        "the caller set is kept, what was left out or None gets the default), c13_farg_subject_method_present (no domain "
        "restriction), c13_farg_subject_valid, c13_farg_subject_default_valid, c13_farg_sample",
    "Entity._response + Server.gather_authn_response_args / _authn_response (which assertion is moved into an "
    "EncryptedAssertion and whether _encrypt_assertion finds a certificate for it: every combination of entry, metadata "
    "key, call arguments, configuration, configured verifiers)":
        "c13_enc_no_clear_wrapper, c13_clear_wrapper_invalid, c13_enc_main, c13_enc_advice, "
        "c13_enc_main_independent_of_advice_cert, c13_enc_advice_independent_of_assertion_cert, c13_enc_sample",
    "AttributeConverter.to_ / to_eptid_value (the eduPersonTargetedID Attribute from a str / dictionary / list value)":
        "c13_eptid_nameid_shape, c13_eptid_attribute_valid, c13_eptid_attribute_total, c13_eptid_sample",
    "xs:ID uniqueness as evaluated on every emitted document": "c13_ids_unique_reflect",
    "s_utils.sid / time_util.instant": "c13_sid_lexical, c13_instant_lexical",
    "SamlBase._to_element_tree (every class, every object)": "c13_serialiser + c13_table_consistent",
}
CORRESPONDENCE_ONLY = [
    "create_authz_decision_query", "create_authz_decision_query_using_assertion", "create_authn_query",
    "create_ecp_authn_request",
    "create_authn_response / create_authn_request_response (the Assertion apart from its Subject: C09's assembly; here validated, not modelled)",
    "create_ecp_authn_request_response", "create_attribute_response (assertion part apart from the Subject)", "create_assertion_id_request_response",
    "create_authn_query_response (assertion part)",
    "metadata.do_spsso_descriptor / do_idpsso_descriptor / do_aa / do_aq / do_pdp_descriptor, do_uiinfo, do_endpoints, "
    "do_contact_person_info, do_key_descriptor, entity attributes / categories (inside entity_descriptor)",
    "metadata.entities_descriptor", "metadata.sign_entity_descriptor", "metadata.create_metadata_string",
    "create_assertion_id_request / create_discovery_service_request (return an identifier / a URL, no XML)",
]
RULE = ("quick: complete AllowCreate lattice nameid_format(4) x configured format(3) x allow_create argument(3) x configuration(3), "
        "vorg(2) x name_id_policy keyword(3) against every format pair; complete hide(2) x assertion_consumer_service_urls(3) x "
        "_url(2) x _index(2) on two bindings and hide x binding(4) x service_url_binding(3); complete force_authn keyword(6) x "
        "configuration(4) x is_passive(3); provider_name(3) x configured name(2) x binding(2); requested_authn_context keyword(7) x "
        "configuration(2); extensions(3) x sp_type(4) x eIDAS requested attributes argument(4) x configuration(2); sign(3) x "
        "authn_requests_signed(2) x sign_prepare(2); every other public create_* of Saml2Client / Server / Entity over its "
        "option lattice (name ids, session indexes, bindings, status factories, issuers, signing, encryption, PEFIM, "
        "error infos incl. exceptions); the `attribute` dictionary of create_attribute_query over key forms (str, 1-, 2-, "
        "3-tuple) x value forms (None, str of 0..3 characters and longer, list of 0..3 values) and (value, type) tuples with 15 "
        "type spellings ('xs:' / 'xsd:' prefix, empty) x value as str / list of 1 / list of 2, mixed dictionaries, signed and "
        "unsigned; every present/absent combination of the alternative arguments of create_name_id_mapping_request (name_id, "
        "base_id, encrypted_id) and create_manage_name_id_request (name_id, encrypted_id, new_id, new_encrypted_id, terminate), "
        "subject given as NameID / str / subject_id keyword / not at all, caller Subjects in every form of the schema's choice; "
        "sign_response(3) x sign_assertion(3) x encryption mode(4) of create_authn_response completely; error responses from "
        "exception instances of every class of the live EXCEPTION2STATUS table, unlisted built-in / saml2 classes and "
        "application subclasses (with message, without arguments, with a context dictionary); "
        "authn query responses for a subject with 0..3 sessions; identities with int / bool / float values; "
        "the farg argument tree of create_authn_response (every combination), create_attribute_response and setup_assertion "
        "(complementary halves; thorough: every combination): method(absent, None, bearer, sender-vouches, holder-of-key with "
        "key info) x confirmation data(absent, {}, each of address / recipient / in_response_to / not_before / "
        "not_on_or_after alone, given as None, all together) with a NameID of the confirmation as dict / instance / None, "
        "keys nobody reads at every level, the shells (None, {}, assertion / subject / subject_confirmation empty) x "
        "in_response_to(2) x destination(2), 14 trees the code cannot digest (None / str / list / instance where a dict is "
        "subscripted, holder-of-key without key info, unknown dict-valued keys, duplicated keyword), one farg object handed to 2 "
        "and 3 calls in a row, sign_response / sign_assertion / encryption / PEFIM (also without encryption certificate) on top, "
        "the `attributes` restriction of create_attribute_response, seeded mixtures (own generator, fixed seed: the cases drawn "
        "before are unchanged); "
        "what there is to encrypt for: KeyDescriptors of the service provider (signing + encryption, signing only, one without "
        "use, none, two for encryption, encryption only) x encrypt_assertion (absent / True / False / None; from the call or "
        "the configuration) x PEFIM / encrypted_advice_attributes x encrypt_cert_assertion given or not x encrypt_cert_advice "
        "given or not - completely for a service provider with and without encryption key on create_authn_response, the "
        "keyword product on create_attribute_response (which hands them straight to _response) -, self-contained off, "
        "create_authn_request_response (forwards none of them), verify_encrypt_cert_advice / _assertion configured (accepting / "
        "rejecting; sampled), signing on top, seeded mixtures; "
        "eduPersonTargetedID in the identity: 25 spellings of the value (str, list, the documented dictionary, mixtures, empty, "
        "None, surplus / missing / None-valued keys, non-str) on the three entries, 4 spellings of the key + the oid itself, 6 "
        "name formats of the policy (two maps with the oid, two with another name, none, default), restrictions (plain, "
        "regular expression), RequestedAttributes of the service provider (required / optional / another one missing), an "
        "attribute authority with a policy of its own, signed / PEFIM / encrypted on top, dictionary-form values under an "
        "ordinary attribute, seeded mixtures (both: own generators, fixed seeds); "
        "eIDAS requested attributes: name / friendly_name / name_format each absent, None, '' or given x required in 11 "
        "spellings x the friendly name (the name) known to every occurring subset of the loaded maps (read off the live "
        "tables: first / middle / last map only, several, all; asked in another case as well) x the built-in maps and "
        "attribute_map_dir directories of three small maps in the orders abc, cba, bac, acb, a, ab, bc, xb (one map with fro "
        "only) x one attribute per request and every pattern in one list x call argument / configuration / both / empty "
        "argument; items with neither name nor friendly name (ValueError); SPType, caller extensions, signing on top; "
        "required_attributes / optional_attributes of the metadata under the same directories; seeded mixtures (own generator, "
        "fixed seed); "
        "metadata generation over roles x ui_info / organisation / contacts / entity attributes "
        "and categories / eIDAS options / endpoints / key usage / signing; the boolean options of the role descriptors "
        "(want_assertions_signed, authn_requests_signed, want_authn_requests_signed) each in 14 spellings (Python booleans, "
        "1 / 0, '1' / '0', the words true / false in lower, capitalised, upper and mixed case) completely through "
        "entity_descriptor, pairs in mixed spellings through create_metadata_string / entities_descriptor / "
        "sign_entity_descriptor, and in the random mixtures; seeded random mixtures; plus one injected defect "
        "(swap, drop / duplicate child, drop / corrupt / add attribute, foreign child, stray text) into a sample of the outputs; "
        "plus instant() at calendar boundaries and random time stamps and sid() samples.  thorough: the full six-fold products "
        "and 1500 injected defects.  non-trivial = distinct (builder, element/attribute shape of the output, defect kind, "
        "oracle verdict)")
TRUSTED = ["xmlschema + the XSD documents shipped in saml2/data/schemas (the oracle)",
           "source-to-Gallina translator v2 harness/py2coq2.py + coq/theories/Base/Py2.v (notes/translator_v2.md): "
           "create_requested_attribute_node is re-translated from the source text on every run; the two element constructors "
           "are spec calls (an object with the keyword arguments as fields)",
           "the attribute maps enter as data: the built-in ones regenerated from the live modules (C13Tables.builtin_convs_raw), "
           "those of a directory read off the live AttributeConverter objects (harness/c13.py conv_raw)",
           "xmlsec1 stand-in (harness/standin/xmlsec1.py) for signed / encrypted variants; its ElementTree re-serialisation "
           "drops the xmlns:xs / xmlns:xsd declarations used only inside xsi:type values - a declaration is put back before "
           "validation only if the library wrote it into the text it handed to the xmlsec binary in the same call (recorded "
           "by a hook on saml2.sigver.make_temp; harness/c13.py compensate_standin); unsigned documents are judged as written",
           "hand-written choice groups (Extra.choice_rules) and the list of built-in XML-Schema type names (Extra.xs_builtin): "
           "validated against the shipped schema documents by the correspondence (Coq's verdict has to equal the oracle's on "
           "every emitted document)",
           "independent reader (xml.etree) and abstraction in harness/c13.py; base64 payloads longer than 96 characters are "
           "cut to nine groups (alphabet, alignment and padding preserved)",
           "hand-written supplements to the class tables (wildcards of Extensions / SOAP Header, Body; saml:AttributeValue "
           "as xs:anyType; eIDAS isRequired type): listed in coverage.tables.supplements_to_the_class_tables and validated against the schemas by the "
           "correspondence"]
ASSUMPTIONS = [
    "level: proof for the structural part (class-table order, occurrence bounds, required / declared attributes, lexical "
    "forms boolean, dateTime, ID/NCName, integer types, base64Binary, enumerations) and, for the builders whose own logic "
    "is about it, for the choice of exactly one identifier / operation (create_name_id_mapping_request, "
    "create_manage_name_id_request) and the type named by xsi:type (do_attributes); exploration for what else the XSD "
    "documents add (the other choice groups, ID uniqueness, QName / duration / anyURI facets: evaluated by Coq on every "
    "emitted document - Extra.doc_ok - and compared with the oracle, not proved of the builders) and for the builders "
    "listed under coverage.tables.correspondence_only",
    "a plain saml.BaseID instance is not a valid argument where it would be written out (the element is abstract in the "
    "schema); a value declared with a type has the lexical form of that type",
    "valid call arguments: boolean-valued options as the strings the library itself uses ('true'/'false'/'1'/'0') or "
    "Python booleans where the code converts them; identifiers are NCNames; element instances handed in by the caller "
    "(NameID, Subject, Scoping, Conditions, RequestedAuthnContext, Extensions content) are themselves valid; "
    "create_authz_decision_query gets a resource and at least one Action with Namespace, create_authn_query a "
    "RequestedAuthnContext, authn dicts name a class_ref, organisations have name + display_name + url, eIDAS "
    "requested attributes are known to an attribute converter (the friendly name to a map's `to` table when the name is "
    "left out, the name to a `fro` table when it is given without name_format) or come with name and name_format; their "
    "`required` is a boolean, 'true' / 'false' in any case, 1 / 0 (BuilderProofs.rattr_ok states the domain on the input; "
    "the names that are lower-cased are ASCII in the source tie C13/Source2.v)",
    "instant(): time stamps from 1 to the end of year 9999 (four-digit years); sid(): any string of ASCII letters / digits",
    "farg: a str leaf has the lexical form of the attribute it becomes (in_response_to an NCName, not_before a dateTime in "
    "the library's own UTC spelling - valid_instance rejects fractions / offsets -, method a non-empty URI); the NameID of the "
    "subject (identifier database) is taken as observed and policy.not_on_or_after() from the Conditions of the same assertion",
    "encryption plan: the KeyDescriptors of the service provider are the ones the harness wrote into its metadata "
    "(SP_KEYS / SP_KEYS_ENC), a handed-in certificate is a PEM certificate the stand-in can use; which certificate the "
    "cipher data was made for is not part of this property (C16)",
    "eduPersonTargetedID: values are str / None / dictionaries of str (or None) / lists of those; other Python types raise "
    "(recorded, not judged)",
    "a call that raises emits nothing: recorded in the histogram (exceptions), not judged",
]


# =============================================================================== abstract arguments of the modelled builders
DS = "http://www.w3.org/2000/09/xmldsig#"
SAML_NS = "urn:oasis:names:tc:SAML:2.0:assertion"
SAMLP_NS = "urn:oasis:names:tc:SAML:2.0:protocol"


def cq_ostr(v):
    return "None" if v is None else "(Some %s)" % cq_str(v)


def cq_pyv(v):
    if v is None:
        return "PNone"
    if isinstance(v, bool):
        return "(PBool %s)" % ("true" if v else "false")
    if isinstance(v, str):
        return "(PStr %s)" % cq_str(v)
    raise TypeError("pyv %r" % (v,))


def cq_b(v):
    return "true" if v else "false"


def cq_otree(t):
    return "None" if t is None else "(Some %s)" % cq_tree(t)


def cq_trees(l):
    return "[%s]" % "; ".join(cq_tree(t) for t in l)


def inst_tree(obj):
    """serialisation of an element instance the CALLER hands to a builder (opaque to the model)"""
    return None if obj is None else read_tree(obj.to_string())


def _attr(t, name, ns=""):
    for k, v in t[1]:
        if tuple(k) == (ns, name):
            return v
    return None


def _kids(t, ns, local):
    return [k for k in t[3] if tuple(k[0]) == (ns, local)]


def cq_observed(t):
    if t is None:                           # the call raised: nothing to read an identifier off
        return '(Build_observed "" "" None)'
    sig = _kids(t, DS, "Signature")
    return "(Build_observed %s %s %s)" % (
        cq_str(_attr(t, "ID") or ""), cq_str(_attr(t, "IssueInstant") or ""), cq_otree(sig[0] if sig else None))


def cq_signing(arg, should):
    a = "None" if arg is None else "(Some %s)" % cq_b(arg)
    return "(Build_signing %s %s)" % (a, cq_b(should))


def _should_sign(case):
    who = case["a"].get("who", "sp")
    if case["b"] in ("authn_request", "attribute_query"):
        who = "sp"
    if who == "sp":
        return bool(case["cfg"].get("sp_authn_requests_signed"))
    return bool(case["cfg"].get("idp_sign_response"))


def _entityid(case):
    who = case["a"].get("who", "sp")
    if case["b"] in ("authn_request", "attribute_query"):
        who = "sp"
    return world.SP_ID if who == "sp" else world.IDP_ID


def _ext_content(d):
    """content of the Extensions instance the caller passes (None: no instance)"""
    if d is None:
        return "None"
    e = mk_extensions(d)
    t = inst_tree(e)
    return "(Some %s)" % cq_trees(t[3])


def _reqattr(sp, attr):
    """one requested attribute as the caller spelt it (the look-ups are Builders.ra_resolve's business)"""
    req = attr.get("required", False)
    if isinstance(req, int) and not isinstance(req, bool):
        req = str(req)                      # str(1) is "1": the model only ever takes str(required)
    return "(Build_rattr %s %s %s %s)" % (cq_ostr(attr.get("name")), cq_ostr(attr.get("friendly_name")),
                                          cq_ostr(attr.get("name_format")), cq_pyv(req))


def cq_convs(cfg, sp):
    """config.attribute_converters of the entity as Coq data: the built-in maps are the regenerated table, the maps of
    a directory of the harness's own are read off the LIVE converter objects"""
    if "_maps" not in cfg:
        return "builtin_convs"
    return "(map mk_conv [%s])" % "; ".join(conv_raw(c) for c in sp.config.attribute_converters)


def _racv(v):
    if v is None:
        return "RacNone"
    return "(RacMap %s %s %s)" % (cq_b(len(v) > 0), cq(list(v.get("authn_context_class_ref", []))),
                                  cq_ostr(v.get("comparison")))


def bi_authn_request(case, obs):
    a, cfg = case["a"], case["cfg"]
    kw = a.get("kw", {})
    sp = get_sp(cfg)
    t = obs["tree"]
    acs = sp_conf(cfg)["service"]["sp"]["endpoints"]["assertion_consumer_service"]
    eps = "[%s]" % "; ".join("EP %s %s" % (cq_str(u), cq_str(b)) if not isinstance(e, str) else "Bare %s" % cq_str(e)
                             for e in acs for (u, b) in [e if not isinstance(e, str) else (e, "")])
    if "requested_authn_context_obj" in kw:
        krac = "(RacInst %s)" % cq_tree(inst_tree(mk_rac(kw["requested_authn_context_obj"])))
    else:
        krac = _racv(kw.get("requested_authn_context"))
    if "name_id_policy" not in kw:
        nip = "NipAbsent"
    elif kw["name_id_policy"] is None:
        nip = "NipNone"
    else:
        d = kw["name_id_policy"]
        nip = "(NipInst %s %s %s)" % (cq_ostr(d.get("format")), cq_ostr(d.get("allow_create")), cq_ostr(d.get("spnq")))
    spt_md = cfg.get("sp_sp_type_in_metadata")
    urls = kw.get("assertion_consumer_service_urls", [None])
    f = [
        ("ar_entityid", cq_str(world.SP_ID)), ("ar_cfg_name", cq_ostr(cfg.get("name"))),
        ("ar_cfg_hide_acs", cq_b(cfg.get("sp_hide_assertion_consumer_service"))), ("ar_cfg_acs", eps),
        ("ar_cfg_nip_format", cq_ostr(cfg.get("sp_name_id_policy_format"))),
        ("ar_cfg_allow_create", cq_b(cfg.get("sp_name_id_format_allow_create"))),
        ("ar_cfg_force_authn", cq_pyv(cfg.get("sp_force_authn"))), ("ar_cfg_rac", _racv(cfg.get("sp_requested_authn_context"))),
        ("ar_cfg_sp_type", cq_ostr(cfg.get("sp_sp_type"))),
        ("ar_cfg_sp_type_in_md", "None" if spt_md is None else "(Some %s)" % cq_b(spt_md)),
        ("ar_cfg_reqattrs", "[%s]" % "; ".join(_reqattr(sp, x) for x in cfg.get("sp_requested_attributes") or [])),
        ("ar_convs", cq_convs(cfg, sp)),
        ("ar_signing", cq_signing(a.get("sign"), bool(cfg.get("sp_authn_requests_signed")))),
        ("ar_destination", cq_ostr(a.get("dest"))), ("ar_vorg", cq_str(a.get("vorg", ""))),
        ("ar_scoping", cq_otree(inst_tree(mk_scoping(a.get("scoping"))))),
        ("ar_binding", cq_str(BINDINGS[a.get("binding", "post")])),
        ("ar_service_url_binding", cq_ostr(BINDINGS[a["service_url_binding"]] if a.get("service_url_binding") else None)),
        ("ar_nameid_format", cq_ostr(a.get("nameid_format"))), ("ar_consent", cq_b(a.get("consent"))),
        ("ar_extensions", _ext_content(a.get("extensions"))), ("ar_sign_prepare", cq_b(a.get("sign_prepare"))),
        ("ar_allow_create", cq_ostr(a.get("allow_create"))),
        ("ar_reqattrs", "[%s]" % "; ".join(_reqattr(sp, x) for x in a.get("requested_attributes") or [])),
        ("ar_kw_acs_urls0", cq_ostr(urls[0] if urls else None)), ("ar_kw_acs_url", cq_ostr(kw.get("assertion_consumer_service_url"))),
        ("ar_kw_acs_index", cq_ostr(kw.get("assertion_consumer_service_index"))),
        ("ar_kw_provider_name", cq_ostr(kw.get("provider_name"))), ("ar_kw_rac", krac),
        ("ar_kw_conditions", cq_otree(inst_tree(mk_conditions(kw.get("conditions"))))),
        ("ar_kw_subject", cq_otree(inst_tree(mk_subject(kw.get("subject"))))), ("ar_kw_nip", nip),
        ("ar_kw_force_authn", cq_pyv(kw.get("force_authn"))), ("ar_kw_is_passive", cq_ostr(kw.get("is_passive"))),
        ("ar_kw_attr_cons_index", cq_ostr(kw.get("attribute_consuming_service_index"))),
        ("ar_ob", cq_observed(t)),
    ]
    return "(BAuthnRequest (Build_ar_args %s))" % " ".join(v for _k, v in f)


def _statusv(d):
    from saml2 import samlp

    if d is None:
        return "StNone"
    if d.get("kind") == "factory":
        return "(StNested %s %s %s)" % (cq_str(d.get("fro", samlp.STATUS_RESPONDER)), cq_str(d["code"]), cq_ostr(d["message"]))
    if d.get("kind") == "error":
        return "(StNested %s %s %s)" % (cq_str(samlp.STATUS_RESPONDER), cq_str(d["code"]), cq_ostr(d.get("message")))
    return "StSuccess"


def bi_status_response(ctor, irt):
    def f(case, obs):
        a = case["a"]
        t = obs["tree"]
        b = a.get("bindings")
        if case["b"] == "manage_name_id_response" and b is None:
            b = ["soap"]
        if b == ["soap"]:
            dest = ""
        elif case["b"] == "artifact_response":
            dest = None
        else:
            dest = _attr(t, "Destination")     # pick_binding over the metadata: C08's subject, taken as observed
        if case["b"] == "logout_response":
            issuer = a.get("issuer") or _entityid(case)
        else:
            issuer = a.get("issuer")
        known = {(SAML_NS, "Issuer"), (DS, "Signature"), (SAMLP_NS, "Extensions"), (SAMLP_NS, "Status")}
        ext = [k for k in t[3] if tuple(k[0]) not in known] if case["b"] == "artifact_response" else []
        return "(%s (Build_sr_args %s %s %s %s %s %s %s))" % (
            ctor, cq_ostr(issuer), _statusv(a.get("status")), cq_ostr(irt), cq_ostr(dest),
            cq_signing(a.get("sign"), _should_sign(case)), cq_trees(ext), cq_observed(t))
    return f


def _error_info(info):
    """error_status_factory's reading of its argument -> (code, message).  For an exception instance: the status
    of its class as the LIVE table EXCEPTION2STATUS lists it (the class itself, not a base class), AuthnFailed for
    a class the table does not list; args[0] is the message (a str) or a context dictionary that may carry both;
    without arguments the message is str(exception)."""
    import saml2.s_utils as su
    from saml2 import samlp

    if info["kind"] == "tuple":
        return info["code"], info.get("message")
    cls = exc_class(info["exc"])
    listed = {k.__name__: v for k, v in su.EXCEPTION2STATUS.items()}
    code = listed.get(info["exc"], samlp.STATUS_AUTHN_FAILED) if not info["exc"].startswith("sub:") else samlp.STATUS_AUTHN_FAILED
    if info.get("ctx") is not None:
        return info["ctx"].get("status_code_status_code_value", code), info["ctx"].get("status_message_text")
    if info.get("message") is not None:
        return code, info["message"]
    return code, str(cls())


def bi_response(case, obs):
    a = case["a"]
    t = obs["tree"]
    if case["b"] == "error_response":
        who_id = _entityid(case)
        info = a["info"]
        code, message = _error_info(info)
        st = "(StNested %s %s %s)" % (cq_str("urn:oasis:names:tc:SAML:2.0:status:Responder"), cq_str(code), cq_ostr(message))
        return ("(BResponse (Build_rs_args %s %s %s %s "
                "[] [] %s %s))" % (
                    cq_str(a.get("issuer") or who_id), st, cq_ostr(a.get("in_response_to")), cq_ostr(a.get("dest")),
                    cq_signing(a.get("sign"), _should_sign(case)), cq_observed(t)))
    # authn / attribute / authn-query responses: the Response shell around the assertions as serialised
    if tuple(t[0]) != (SAMLP_NS, "Response"):
        return "BOther"
    sign = a.get("sign_response", a.get("sign"))
    if case["b"] == "authn_response" and a.get("missing_required"):
        # the service provider requires an attribute the identity lacks: create_authn_response answers with
        # create_error_response(in_response_to, destination, info=<the MissingValue>, sign=sign_response)
        code, message = _error_info({"kind": "exc", "exc": "MissingValue",
                                     "message": "Required attribute missing: '%s'" % a["missing_required"]})
        st = "(StNested %s %s %s)" % (cq_str("urn:oasis:names:tc:SAML:2.0:status:Responder"), cq_str(code), cq_ostr(message))
        return ("(BResponse (Build_rs_args %s %s %s %s [] [] %s %s))" % (
            cq_str(world.IDP_ID), st, cq_ostr(a.get("in_response_to")), cq_ostr(a.get("dest")),
            cq_signing(sign, bool(case["cfg"].get("idp_sign_response"))), cq_observed(t)))
    status = None if a.get("via") == "request_response" else a.get("status")
    return ("(BResponse (Build_rs_args %s %s %s %s "
            "%s %s %s %s))" % (
                cq_str(a.get("issuer") or world.IDP_ID), _statusv(status), cq_ostr(a.get("in_response_to")),
                cq_ostr(a.get("dest") if case["b"] != "authn_query_response" else None),
                cq_trees(_kids(t, SAML_NS, "Assertion")), cq_trees(_kids(t, SAML_NS, "EncryptedAssertion")),
                cq_signing(sign, bool(case["cfg"].get("idp_sign_response"))), cq_observed(t)))


def bi_logout_request(case, obs):
    a = case["a"]
    t = obs["tree"]
    who = a.get("who", "sp")
    nid = None
    if a.get("subject_id"):
        if who == "idp":
            return "BOther"
        from saml2 import saml

        nid = inst_tree(saml.NameID(text=a["subject_id"]))
    elif a.get("name_id") is not None:
        nid = inst_tree(mk_name_id(a["name_id"]))
    ob = cq_observed(t) if t is not None else '(Build_observed "" "" None)'
    should = bool(case["cfg"].get("sp_authn_requests_signed")) if who == "sp" else bool(case["cfg"].get("idp_sign_response"))
    return ("(BLogoutRequest (Build_lr_args %s %s %s %s %s "
            "%s %s %s %s %s))" % (
                cq_str(_entityid(case)), cq_ostr(a.get("dest")), cq_otree(nid), cq_ostr(a.get("reason")), cq_ostr(a.get("expire")),
                cq_b(a.get("consent")), _ext_content(a.get("extensions")), cq(list(a.get("session_indexes") or [])),
                cq_signing(a.get("sign"), should), ob))


def bi_attribute_query(case, obs):
    a = case["a"]
    t = obs["tree"]
    from saml2 import saml
    from saml2.s_utils import do_attributes

    kw = a.get("kw", {})
    nid = a.get("name_id")
    if nid is None:
        n = saml.NameID(text=kw["subject_id"])
        for key in ["sp_name_qualifier", "name_qualifier", "format"]:
            if key in kw:
                setattr(n, key, kw[key])
    elif isinstance(nid, str):
        n = saml.NameID(text=nid)
        for key in ["sp_name_qualifier", "name_qualifier", "format"]:
            if key in kw:
                setattr(n, key, kw[key])
    else:
        n = mk_name_id(nid)
    attribute = dec_attribute(a.get("attribute"))
    attrs = [inst_tree(x) for x in (do_attributes(attribute) if attribute else [])]
    return ("(BAttributeQuery (Build_aq_args %s %s %s %s %s "
            "%s %s %s))" % (
                cq_str(world.SP_ID), cq_ostr(a.get("dest")), cq_tree(inst_tree(n)), cq_trees(attrs), cq_b(a.get("consent")),
                _ext_content(a.get("extensions")), cq_signing(a.get("sign"), bool(case["cfg"].get("sp_authn_requests_signed"))),
                cq_observed(t)))


def bi_artifact_resolve(case, obs):
    a = case["a"]
    return "(BArtifactResolve %s %s %s %s %s %s %s)" % (
        cq_str(_entityid(case)), cq_str(a["artifact"]), cq_ostr(a.get("dest")), cq_b(a.get("consent")),
        _ext_content(a.get("extensions")), cq_signing(a.get("sign"), _should_sign(case)), cq_observed(obs["tree"]))


def bi_name_id_mapping_response(case, obs):
    a = case["a"]
    return "(BNameIDMappingResponse %s %s %s %s %s %s)" % (
        cq_str(world.IDP_ID), cq_otree(inst_tree(mk_name_id(a.get("name_id")))), cq_ostr(a.get("in_response_to")),
        _statusv(a.get("status")), cq_signing(True if a.get("sign") else False, False), cq_observed(obs["tree"]))


MD_NS = "urn:oasis:names:tc:SAML:2.0:metadata"


def _locv(v):
    if isinstance(v, str):
        return "(LStr %s)" % cq_str(v)
    if isinstance(v, (list, tuple)) and len(v) == 2 and all(isinstance(x, str) for x in v):
        return "(LPair %s %s)" % (cq_str(v[0]), cq_str(v[1]))
    raise TypeError("localized name %r" % (v,))


def _orgv(d, key):
    if key not in d:
        return "OrgAbsent"
    v = d[key]
    if isinstance(v, str):
        return "(OrgOne %s)" % _locv(v)
    if isinstance(v, list):          # a list of names (a (text, lang) tuple does not survive JSON: the generator uses lists)
        return "(OrgList [%s])" % "; ".join(_locv(x) for x in v)
    return "(OrgOne %s)" % _locv(v)


def bi_entity_descriptor(case, obs):
    t = obs["tree"]
    cfg = case["cfg"]
    org = cfg.get("organization")
    o = "None" if org is None else "(Some (%s, %s, %s))" % (_orgv(org, "name"), _orgv(org, "display_name"), _orgv(org, "url"))
    ext = _kids(t, MD_NS, "Extensions")
    one = lambda l: cq_otree(l[0] if l else None)
    return "(BEntityDescriptor (Build_ed_args %s %s %s %s %s %s %s %s %s %s))" % (
        cq_str(world.SP_ID if case["a"].get("who", "sp") == "sp" else world.IDP_ID), cq_ostr(_attr(t, "validUntil")), o,
        cq_trees(_kids(t, MD_NS, "ContactPerson")), cq_trees(ext[0][3] if ext else []),
        one(_kids(t, MD_NS, "IDPSSODescriptor")), one(_kids(t, MD_NS, "SPSSODescriptor")),
        one(_kids(t, MD_NS, "AuthnAuthorityDescriptor")), one(_kids(t, MD_NS, "AttributeAuthorityDescriptor")),
        one(_kids(t, MD_NS, "PDPDescriptor")))


# ------------------------------------------------------------------------------- argument-level models (Extra.v)
class NotModelled(Exception):
    pass


def cq_aval(v):
    if v is None:
        return "ANone"
    if isinstance(v, str):
        return "(AStr %s)" % cq_str(v)
    if isinstance(v, list) and all(isinstance(x, str) for x in v):
        return "(AList [%s])" % "; ".join(cq_str(x) for x in v)
    raise NotModelled("attribute value %r" % (v,))


def cq_aspec(v):
    if isinstance(v, tuple):
        if len(v) != 2 or not isinstance(v[1], str):
            raise NotModelled("attribute spec %r" % (v,))
        return "(STuple %s %s)" % (cq_aval(v[0]), cq_str(v[1]))
    return "(SPlain %s)" % cq_aval(v)


def cq_akey(k):
    if isinstance(k, str):
        return "(KStr %s)" % cq_str(k)
    if isinstance(k, tuple) and all(isinstance(x, str) for x in k):
        return "(KTuple [%s])" % "; ".join(cq_str(x) for x in k)
    raise NotModelled("attribute key %r" % (k,))


def _ob(obs):
    return cq_observed(obs["tree"]) if obs["tree"] is not None else '(Build_observed "" "" None)'


def xi_attribute_query(case, obs):
    a = case["a"]
    from saml2 import saml

    kw = a.get("kw", {})
    nid = a.get("name_id")
    if nid is None or isinstance(nid, str):
        if nid is None and "subject_id" not in kw:
            raise NotModelled("raises before anything is built")
        n = saml.NameID(text=nid if nid is not None else kw["subject_id"])
        for key in ["sp_name_qualifier", "name_qualifier", "format"]:
            if key in kw:
                setattr(n, key, kw[key])
    else:
        n = mk_name_id(nid)
    attribute = dec_attribute(a.get("attribute")) or {}
    specs = "[%s]" % "; ".join("(%s, %s)" % (cq_akey(k), cq_aspec(v)) for k, v in attribute.items())
    return ("(XBAttributeQuery (Build_aq_args %s %s %s [] %s %s %s %s) %s)" % (
        cq_str(world.SP_ID), cq_ostr(a.get("dest")), cq_tree(inst_tree(n)), cq_b(a.get("consent")),
        _ext_content(a.get("extensions")), cq_signing(a.get("sign"), bool(case["cfg"].get("sp_authn_requests_signed"))),
        _ob(obs), specs))


def xi_name_id_mapping_request(case, obs):
    a = case["a"]
    return ("(XBNameIDMappingRequest (Build_nim_args %s %s %s %s %s %s %s %s %s %s))" % (
        cq_str(world.SP_ID), cq_ostr(a.get("dest")), cq_tree(inst_tree(mk_name_id_policy(a["policy"]))),
        cq_otree(inst_tree(mk_name_id(a.get("name_id")))), cq_otree(inst_tree(mk_base_id(a.get("base_id")))),
        cq_otree(inst_tree(mk_encrypted_id(a.get("encrypted_id")))), cq_b(a.get("consent")), _ext_content(a.get("extensions")),
        cq_signing(a.get("sign"), bool(case["cfg"].get("sp_authn_requests_signed"))), _ob(obs)))


def xi_manage_name_id_request(case, obs):
    a = case["a"]
    from saml2 import samlp

    return ("(XBManageNameIDRequest (Build_mni_args %s %s %s %s %s %s %s %s %s %s %s))" % (
        cq_str(_entityid(case)), cq_ostr(a.get("dest")), cq_otree(inst_tree(mk_name_id(a.get("name_id")))),
        cq_otree(inst_tree(mk_encrypted_id(a.get("encrypted_id")))), cq_ostr(a.get("new_id")),
        cq_otree(inst_tree(mk_encrypted_id(a.get("new_encrypted_id"), samlp.NewEncryptedID))), cq_b(a.get("terminate")),
        cq_b(a.get("consent")), _ext_content(a.get("extensions")), cq_signing(a.get("sign"), _should_sign(case)), _ob(obs)))


# ------------------------------------------------------------------------------- the farg argument tree (Farg.v)
FARG_BUILDERS = ("authn_response", "attribute_response", "setup_assertion")


def cq_farg(x):
    import saml2

    if x is None:
        return "FNone"
    if isinstance(x, str):
        return "(FStr %s)" % cq_str(x)
    if isinstance(x, dict):
        if not all(isinstance(k, str) for k in x):
            raise NotModelled("farg key")
        return "(FDict [%s])" % "; ".join("(%s, %s)" % (cq_str(k), cq_farg(v)) for k, v in x.items())
    if isinstance(x, list):
        return "(FList [%s])" % "; ".join(cq_farg(v) for v in x)
    if isinstance(x, saml2.SamlBase):
        return "(FInst %s)" % cq_tree(inst_tree(x))
    raise NotModelled("farg value %r" % (x,))


def _clear_assertions(t):
    if tuple(t[0]) == (SAML_NS, "Assertion"):
        return [t]
    return _kids(t, SAML_NS, "Assertion")


def coq_fa(case, obs):
    """option fa_args: for every call of create_authn_response / create_attribute_response / setup_assertion whose
    document shows an Assertion in the clear (a farg passed or not), and for the calls that raise because of their farg.
    The NameID of the subject is taken as observed (identifier database: C09), the NotOnOrAfter instant from the
    Conditions element of the same assertion (policy: C19)."""
    a = case["a"]
    if case.get("mut") is not None or case["b"] not in FARG_BUILDERS:
        return "None"
    passed, farg = _FARG_AT_CALL
    if passed != ("farg" in a):
        return "None"
    url = world.SP_ID if case["b"] == "attribute_response" else a.get("dest")
    t = obs["tree"]
    nid, noa = None, ""
    if t is None:
        if not a.get("farg_exc") or obs["exc"] != a["farg_exc"]:
            return "None"
    else:
        asserts = _clear_assertions(t)
        if not asserts:
            return "None"
        subj = _kids(asserts[0], SAML_NS, "Subject")
        if subj:
            nids = _kids(subj[0], SAML_NS, "NameID")
            nid = nids[0] if nids else None
        # policy.not_on_or_after(sp): read off the Conditions of the same assertion (policy.conditions computes it
        # separately, at the same instant), not off the element the model is compared with
        for cond in _kids(asserts[0], SAML_NS, "Conditions"):
            noa = _attr(cond, "NotOnOrAfter") or ""
    try:
        return "(Some (Build_fa_args %s %s %s %s %s))" % (cq_farg(farg), cq_ostr(a.get("in_response_to")), cq_ostr(url),
                                                         cq_otree(nid), cq_str(noa))
    except NotModelled:
        return "None"


# ------------------------------------------------------------------------------- Release.v: encryption plan, eduPersonTargetedID
def cq_obool(v):
    if v is None:
        return "None"
    if isinstance(v, bool):
        return "(Some %s)" % cq(v)
    raise NotModelled("not a bool: %r" % (v,))


def coq_enc(case, obs):
    """option enc_args: every call of create_authn_response / create_authn_request_response / create_attribute_response.
    Everything is read off the CASE (arguments, configuration, the KeyDescriptors the harness gave the service provider);
    Coq reads the outcome off the document."""
    a, cfg = case["a"], case["cfg"]
    if case.get("mut") is not None or case["b"] not in ("authn_response", "attribute_response"):
        return "None"
    if obs["tree"] is None and not (a.get("enc_exc") and obs["exc"] == a["enc_exc"]):
        return "None"                       # the call raised for a reason of its own (labelled elsewhere)
    entry = "EAttribute" if case["b"] == "attribute_response" else "EAuthnVia" if a.get("via") == "request_response" else "EAuthn"
    verify = {None: None, "accept": True, "reject": False}
    try:
        adv_kw = a["encrypted_advice_attributes"] if "encrypted_advice_attributes" in a else (None if entry == "EAttribute" else False)
        return "(Some (Build_enc_args %s %s %s %s %s %s %s %s %s %s %s))" % (
            entry, cq(SP_KEYS_ENC[_sp_keys_of(cfg)]), cq_obool(a.get("encrypt_assertion")), cq_obool(cfg.get("idp_encrypt_assertion")),
            cq_obool(adv_kw), cq_obool(cfg.get("idp_encrypted_advice_attributes")), cq(bool(a.get("pefim"))),
            cq(bool(a.get("encrypt_cert_advice"))), cq(bool(a.get("encrypt_cert_assertion"))),
            cq_obool(verify[cfg.get("_verify_adv")]), cq_obool(verify[cfg.get("_verify_ass")]))
    except NotModelled:
        return "None"


EPTID_NAME_FORMATS = (NF_URI, NF_SHIB)       # the shipped maps that know eduPersonTargetedID by its oid


def cq_eptv(v):
    if v is None:
        return "ENone"
    if isinstance(v, str):
        return "(EStr %s)" % cq_str(v)
    if isinstance(v, dict) and all(isinstance(k, str) and (x is None or isinstance(x, str)) for k, x in v.items()):
        return "(EDict [%s])" % "; ".join("(%s, %s)" % (cq_str(k), cq_ostr(x)) for k, x in v.items())
    raise NotModelled("eptid value %r" % (v,))


def _policy_in_force(case):
    """the "default" entry of the release policy the entry consults: create_attribute_response reads the policy of the
    attribute-authority section ("aa"; without one it falls back to an empty Policy), the others the idp section's"""
    cfg = case["cfg"]
    if case["b"] == "attribute_response":
        return (((cfg.get("svc_aa") or {}).get("policy") or {}).get("default")) or {}
    return ((cfg.get("idp_policy") or {}).get("default")) or {}


def coq_ept(case, obs):
    """option (ept_args * bool): the identity has eduPersonTargetedID (any spelling of the key) and the policy's name
    format has a map that knows it by its oid.  released: no restriction of the policy / no attribute list of the
    service provider / no `attributes` argument stands in the way (otherwise only: IF the element is there it is the
    model's)."""
    a, cfg = case["a"], case["cfg"]
    if case.get("mut") is not None or case["b"] not in FARG_BUILDERS or not a.get("identity"):
        return "None"
    keys = [k for k, _v in a["identity"] if isinstance(k, str) and k.lower() == "edupersontargetedid"]
    if len(keys) != 1 or a.get("id_exc_outside"):
        return "None"
    pol = _policy_in_force(case)
    nf = pol.get("name_form", NF_URI)
    if nf not in EPTID_NAME_FORMATS:
        return "None"
    if obs["tree"] is None and not (a.get("id_exc") and obs["exc"] == a["id_exc"]):
        return "None"
    restr = pol.get("attribute_restrictions")
    released = not cfg.get("_sp_requested") and not a.get("attributes") and (
        restr is None or any(k.lower() == "edupersontargetedid" and r is None for k, r in restr.items()))
    v = dict(a["identity"])[keys[0]]
    try:
        vin = "(EMany [%s])" % "; ".join(cq_eptv(x) for x in v) if isinstance(v, list) else "(EOne %s)" % cq_eptv(v)
        return "(Some (Build_ept_args %s %s %s, %s))" % (cq_str(nf), cq_str(keys[0]), vin, cq(bool(released)))
    except NotModelled:
        return "None"


XMODELLED = {"attribute_query": xi_attribute_query, "name_id_mapping_request": xi_name_id_mapping_request,
             "manage_name_id_request": xi_manage_name_id_request}


def coq_xinfo(case, obs):
    """arguments of a builder that Extra.v models from the call arguments themselves; when the call raised the
    exception the unchanged code raises for these arguments, the model has to say "raises" as well"""
    if case.get("mut") is not None or case["b"] not in XMODELLED:
        return "XBNone"
    if obs["tree"] is None and (obs["exc"] is None or obs["exc"] != expected_exc(case)):
        return "XBNone"
    try:
        return XMODELLED[case["b"]](case, obs)
    except NotModelled:
        return "XBNone"


MODELLED = {
    "entity_descriptor": bi_entity_descriptor,
    "authn_request": bi_authn_request,
    "logout_request": bi_logout_request,
    "logout_response": bi_status_response("BLogoutResponse", "id-req7"),
    "manage_name_id_response": bi_status_response("BManageNameIDResponse", "id-mni3"),
    "artifact_response": bi_status_response("BArtifactResponse", "id-ar9"),
    "error_response": bi_response, "authn_response": bi_response, "attribute_response": bi_response,
    "authn_query_response": bi_response,
    "attribute_query": bi_attribute_query, "artifact_resolve": bi_artifact_resolve,
    "name_id_mapping_response": bi_name_id_mapping_response,
}
# the model covers the call that emits: when the real call raised, only create_logout_request's own
# "Missing subject identification" is part of the model
MODELLED_EXC = {"logout_request": "saml",
                "authn_request": "value"}    # create_requested_attribute_node: neither name nor friendly_name


# =============================================================================== vocabulary of recurring strings
def _build_vocab():
    global IMPORTS
    import saml2.xmldsig as ds_
    from saml2 import samlp, saml

    def walk(x):
        if isinstance(x, str):
            _vocab_add(x)
        elif isinstance(x, dict):
            for k, v in x.items():
                walk(k)
                walk(v)
        elif isinstance(x, (list, tuple)):
            for v in x:
                walk(v)

    for name in dir(world):
        walk(getattr(world, name)) if name.isupper() else None
    walk([URLS, TEXTS, IDS, EIDAS_ATTRS, SCOPINGS, RACS, NAMEIDS, IDENTITIES, AUTHNS, STATUSES, UI_INFOS, ORGS, CONTACTS,
          ENTITY_ATTRS, TRANSIENT, PERSISTENT, EMAIL, NF_URI, AC_PASSWORD, AC_PPT, SP_ACS_PAOS, IDP_SSO_SOAP, XSI,
          env.iso(NOW), env.iso(NOW + 900), "urn:oasis:names:tc:SAML:2.0:nameid-format:entity",
          "urn:oasis:names:tc:SAML:2.0:cm:bearer", "http://www.w3.org/2001/XMLSchema", "xs:string",
          ["{%s}%s" % (XS_NS, t) for t in ("string", "integer", "boolean", "base64Binary", "anyType", "float", "dateTime")],
          SUBJECTS, TYPED_VALUES, AQ_KEYS, "http://www.w3.org/2001/04/xmlenc#Element", "AAECAwQFBgcICQ=="])
    for mod in (samlp, saml, ds_):
        for n in dir(mod):
            v = getattr(mod, n)
            if n.isupper() and isinstance(v, str) and (v.startswith("urn:") or v.startswith("http")):
                _vocab_add(v)
            elif n.isupper() and isinstance(v, (list, tuple)):
                walk(v)
    for n in fixtures.NAMES:
        try:
            _vocab_add(shorten_b64(fixtures.cert_b64(n)))
        except OSError:
            pass
    IMPORTS = IMPORTS_BASE + "\nOpen Scope string_scope.\n" + "\n".join(
        "Definition %s : string := %s." % (_VOCAB[x], _cq_str(x)) for x in _VOCAB_ORDER)


_build_vocab()
