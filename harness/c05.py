"""C05 — assertions are honoured only inside their validity windows plus configured skew."""
from harness import env, render, spaccept, world
from harness.common import Raw, cq

PID = "C05"
PARALLEL = 12
IMPORTS = "From Verif Require Import C05.Model C05.Spec C05.Time C05.Corr."
CASE_TYPE = "C05.Corr.case"
RUNNER = "C05.Corr.run"
FINDING_CLASSES = {}
EXHAUSTIVE = False
RULE = ("one-dimensional sweeps (exhaustive): each of the six timestamps over the offset list {absent, -1h, -skew-2, "
        "-skew-1, -skew, -skew+1, -1, 0, +1, +skew-1, +skew, +skew+1, +skew+2, +1h, +-1d, +-(1d+skew)+{-2..2}} x skew "
        "{unset, 0, 60, 180} x syntax {plain, fractional}; complete NotBefore x NotOnOrAfter products for Conditions "
        "and SubjectConfirmationData; seeded random combinations of all six.  Every case is a signed Response run "
        "through parse_authn_request_response under a frozen virtual clock.  non-trivial = distinct (field, offset "
        "class, skew, syntax) tuples where at least one timestamp is not at its baseline position")
TRUSTED = ["source-to-Gallina translator harness/py2coq.py + coq/theories/Base/Py.v (validate_on_or_after / validate_before are "
           "re-translated from the source text on every run; c05_source_* prove them equal to the model)",
           "source-to-Gallina translator v2 harness/py2coq2.py + coq/theories/Base/Py2.v (semantics and trusted base: "
           "notes/translator_v2.md); re-translated from the source text on every run into coq/gen/C05Src2.v: "
           "validate.validate_on_or_after, validate.validate_before, time_util.later_than, response.authn_response, "
           "AuthnResponse.authn_statement_ok, AuthnResponse.condition_ok, AuthnResponse._bearer_confirmed, "
           "AuthnResponse.session_info; into coq/gen/C05Src2v.v: StatusResponse.issue_instant_ok after the call-shape "
           "rewrite X.timetuple() -> timetuple(X) (harness/c05.py:_timetuple_shape); c05_source2_* (C05/Property.v, proofs in "
           "C05/Source2.v) prove each equal to the model function / stage of Model.accept it mirrors, "
           "c05_source2_accept_by_parts that the stages compose to Model.accept",
           "xmlsec1 stand-in", "renderer harness/render.py", "virtual clock harness/env.py (patches saml2.time_util.time/datetime)"]
ASSUMPTIONS = ["timestamps later than 1970 + skew", "clock reads whole seconds (utc_now truncates)",
               "bearer SubjectConfirmationData with NotBefore also carries NotOnOrAfter (completeness half only)"]

NOW = spaccept.NOW


def regenerate_tables(ctx):
    """Translator: validate.validate_on_or_after / validate_before as they read NOW -> coq/gen/C05Src.v;
    C05/Source.v proves them equal to the model (clock and timestamp parser are parameters).
    Translator v2: the functions of source2_items() -> coq/gen/C05Src2.v and issue_instant_ok (one call shape
    rewritten) -> coq/gen/C05Src2v.v; C05/Source2.v proves each equal to the model function it mirrors."""
    import os
    from harness import common, py2coq, py2coq2
    calls = {"time_util.utc_now": lambda a: "now", "calendar.timegm": lambda a: "(to_secs %s)" % a[0],
             "time_util.str_to_time": lambda a: a[0], "time.strftime": lambda a: "PNone", "time.gmtime": lambda a: "PNone"}
    ex = [("now", "pyval"), ("to_secs", "pyval -> pyval")]
    src = os.path.join(env.SRC, "saml2", "validate.py")
    v1 = py2coq.regenerate(os.path.join(common.GEN, "C05Src.v"), [
        (src, "validate_on_or_after", {"name": "src_validate_on_or_after", "params": ["not_on_or_after", "slack"],
                                       "extra_params": ex, "calls": calls}),
        (src, "validate_before", {"name": "src_validate_before", "params": ["not_before", "slack"],
                                  "extra_params": ex, "calls": calls})])
    v2 = py2coq2.regenerate(os.path.join(common.GEN, "C05Src2.v"), source2_items())
    v2v = regenerate_issue_instant(os.path.join(common.GEN, "C05Src2v.v"))
    out = dict(v1)
    out.update({"changed": bool(v1["changed"]) or bool(v2["changed"]) or bool(v2v["changed"]),
                "obligations": v1["obligations"] + v2["obligations"] + v2v["obligations"],
                "discharged": v1["discharged"] + v2["discharged"] + v2v["discharged"],
                "untranslatable": list(v1.get("untranslatable", [])) + list(v2["untranslatable"]) + list(v2v["untranslatable"]),
                "translated": list(v1.get("translated", [])) + list(v2["translated"]) + list(v2v["translated"]),
                "source": v1, "source2": v2, "source2v": v2v, "functions": SOURCE2_FUNCTIONS})
    return out


# ------------------------------------------------------------------------------ translator v2: specs
SOURCE2_FUNCTIONS = ["validate.py:validate_on_or_after", "validate.py:validate_before", "time_util.py:later_than",
                     "response.py:authn_response", "response.py:StatusResponse.issue_instant_ok",
                     "response.py:AuthnResponse.authn_statement_ok", "response.py:AuthnResponse.condition_ok",
                     "response.py:AuthnResponse._bearer_confirmed", "response.py:AuthnResponse.session_info"]
# exception classes the translated functions raise (all direct children of Exception as far as `except` clauses of
# these functions can tell: the only clauses are `except Exception`, `except KeyError`, `except TypeError`)
EXC_PARENTS = {"ResponseLifetimeExceed": ["Exception"], "ToEarly": ["Exception"], "NotValid": ["Exception"],
               "StatusInvalidAuthnResponseStatement": ["Exception"]}


def source2_items():
    """[(source file, qualified name, spec)] for harness/py2coq2.py.  The clock (time_util.utc_now), the time-stamp
    readers (calendar.timegm . str_to_time: [to_secs]; str_to_time as a comparable struct_time: [parse]; time.gmtime)
    and the calls that leave the anchored code (keyswv, for_me, valid_address, issuer, authn_info, ...) are extra
    parameters of the Gallina definitions; the three methods call the TRANSLATED validate_* / later_than, so the
    theorems about them assume nothing about those."""
    import os
    sdir = os.path.join(env.SRC, "saml2")
    val, tu, rsp = (os.path.join(sdir, f) for f in ("validate.py", "time_util.py", "response.py"))
    clock = [("now", "pyval"), ("to_secs", "pyval -> pyval")]
    cmpt = [("parse", "pyval -> pyval"), ("gmtime", "pyval -> pyval")]
    vcalls = {"time_util.utc_now": lambda a: "now", "calendar.timegm": lambda a: "(to_secs %s)" % a[0],
              "time_util.str_to_time": lambda a: a[0], "time.strftime": lambda a: "PNone", "time.gmtime": lambda a: "PNone",
              "%": lambda a: "PNone"}      # the message texts are dropped (their operands are still evaluated)
    voa = lambda a: "(src2_validate_on_or_after now to_secs %s %s)" % tuple(a)  # noqa: E731  (the translated callees)
    vb = lambda a: "(src2_validate_before now to_secs %s %s)" % tuple(a)  # noqa: E731
    lt = lambda a: "(src2_later_than parse gmtime %s %s)" % tuple(a)  # noqa: E731

    def ctor(a, kw):   # AuthnResponse(...): the arguments the constructor is called with, as a dict
        return "(p2_mkdict [%s])" % "; ".join(['("arg%d", %s)' % (i, t) for i, t in enumerate(a)] +
                                              ['("%s", %s)' % (k, t) for k, t in kw.items()])
    return [
        (val, "validate_on_or_after", {"name": "src2_validate_on_or_after", "params": ["not_on_or_after", "slack"],
                                       "extra_params": clock, "calls": vcalls, "exc_parents": EXC_PARENTS}),
        (val, "validate_before", {"name": "src2_validate_before", "params": ["not_before", "slack"],
                                  "extra_params": clock, "calls": vcalls, "exc_parents": EXC_PARENTS}),
        (tu, "later_than", {"name": "src2_later_than", "params": ["after", "before"], "extra_params": cmpt,
                            "calls": {"str_to_time": lambda a: "(parse %s)" % a[0],
                                      "time.gmtime": lambda a: "(gmtime %s)" % a[0]}}),
        # skew plumbing: the factory (int() is external: int(None) raises TypeError, which the embedding's own
        # int() does not model)
        (rsp, "authn_response", {
            "name": "src2_authn_response",
            "params": ["conf", "return_addrs", "outstanding_queries", "timeslack", "asynchop", "allow_unsolicited",
                       "want_assertions_signed", "conv_info"],
            "extra_params": [("security_context", "pyval -> pyval"), ("int_", "pyval -> pyval")],
            "calls": {"security_context": lambda a: "(security_context %s)" % a[0], "int": lambda a: "(int_ %s)" % a[0],
                      "AuthnResponse": ctor}}),
        (rsp, "AuthnResponse.authn_statement_ok", {
            "name": "src2_authn_statement_ok", "params": ["self", "optional"], "extra_params": clock,
            "returns_state": ["self"], "exc_parents": EXC_PARENTS,
            "calls": {"validate_on_or_after": voa, "calendar.timegm": lambda a: "(to_secs %s)" % a[0],
                      "time_util.str_to_time": lambda a: a[0]}}),
        (rsp, "AuthnResponse.condition_ok", {
            "name": "src2_condition_ok", "params": ["self", "lax"],
            "extra_params": clock + cmpt + [("keyswv", "pyval -> pyval"), ("for_me", "pyval -> pyval -> pyval"),
                                            ("XSI_TYPE", "pyval")],
            "returns_state": ["self"], "exc_parents": EXC_PARENTS, "globals": {"XSI_TYPE": "XSI_TYPE"},
            "calls": {"validate_on_or_after": voa, "validate_before": vb, "later_than": lt,
                      "conditions.keyswv": lambda a: "(keyswv v_conditions)",
                      "for_me": lambda a: "(for_me %s %s)" % tuple(a)}}),
        (rsp, "AuthnResponse._bearer_confirmed", {
            "name": "src2_bearer_confirmed", "params": ["self", "data"],
            "extra_params": clock + cmpt + [("valid_address", "pyval -> pyval")],
            "returns_state": ["self"], "exc_parents": EXC_PARENTS,
            "calls": {"validate_on_or_after": voa, "validate_before": vb, "later_than": lt,
                      "valid_address": lambda a: "(valid_address %s)" % a[0]}}),
        (rsp, "AuthnResponse.session_info", {
            "name": "src2_session_info", "params": ["self"],
            "extra_params": [("issuer", "pyval -> pyval"), ("authz_decision_info", "pyval -> pyval"),
                             ("authn_info", "pyval -> pyval")],
            "exc_parents": EXC_PARENTS,
            "calls": {"self.issuer": lambda a: "(issuer v_self)",
                      "self.authz_decision_info": lambda a: "(authz_decision_info v_self)",
                      "self.authn_info": lambda a: "(authn_info v_self)"}}),
    ]


def _timetuple_shape():
    """One call shape that py2coq2 refuses (a method call on the result of a call), rewritten into a call of a spec'd
    external before translation:  EXPR(...).timetuple()  ->  timetuple(EXPR(...)).  It concerns only HOW the external
    datetime.timetuple is reached, never a decision of the function."""
    import ast

    class _Shape(ast.NodeTransformer):
        def visit_Call(self, node):
            self.generic_visit(node)
            f = node.func
            if isinstance(f, ast.Attribute) and f.attr == "timetuple" and isinstance(f.value, ast.Call) \
                    and not node.args and not node.keywords:
                g = ast.copy_location(ast.Name(id="timetuple", ctx=ast.Load()), f)
                return ast.copy_location(ast.Call(func=g, args=[f.value], keywords=[]), node)
            return node
    return _Shape()


def issue_instant_spec():
    def days(name):
        return lambda a, kw: "(%s %s)" % (name, kw["days"]) if not a and list(kw) == ["days"] else "PErr"
    return {"name": "src2_issue_instant_ok", "params": ["self"],
            "extra_params": [("in_a_while", "pyval -> pyval"), ("a_while_ago", "pyval -> pyval"),
                             ("shift_time", "pyval -> pyval -> pyval"), ("timetuple", "pyval -> pyval"),
                             ("parse", "pyval -> pyval")],
            "calls": {"time_util.time_in_a_while": days("in_a_while"), "time_util.time_a_while_ago": days("a_while_ago"),
                      "time_util.shift_time": lambda a: "(shift_time %s %s)" % tuple(a),
                      "timetuple": lambda a: "(timetuple %s)" % a[0], "str_to_time": lambda a: "(parse %s)" % a[0]}}


def regenerate_issue_instant(gen_path):
    """StatusResponse.issue_instant_ok -> coq/gen/C05Src2v.v through py2coq2.translate_def after _timetuple_shape
    (fail-closed like py2coq2.regenerate: what cannot be translated becomes a poisoned definition)."""
    import ast
    import os
    from harness import common, py2coq2
    q, spec = "StatusResponse.issue_instant_ok", issue_instant_spec()
    failed = []
    try:
        with open(os.path.join(env.SRC, "saml2", "response.py")) as f:
            fn = py2coq2.find_function(ast.parse(f.read()), q)
        fn = ast.fix_missing_locations(_timetuple_shape().visit(fn))
        body = py2coq2.translate_def(fn, spec, "saml2/response.py:%s (.timetuple() call shape rewritten by harness/c05.py)" % q)
    except (py2coq2.Untranslatable, OSError, SyntaxError) as e:
        failed.append("%s: %s" % (q, e))
        body = py2coq2.poison(q, spec, str(e))
    changed = common.write_if_changed(gen_path, py2coq2.HEADER + body)
    return {"translated": [q], "untranslatable": failed, "changed": changed, "obligations": 1, "discharged": 1 - len(failed)}


FIELDS = ["cnb", "cnooa", "snb", "snooa", "sess", "issue"]
BASE = {"cnb": -300, "cnooa": 300, "snb": None, "snooa": 300, "sess": None, "issue": 0}
SKEWS = [None, 0, 60, 180]
DAY = 86400


def offsets(skew):
    s = skew or 0
    base = [None, -3600, -s - 2, -s - 1, -s, -s + 1, -1, 0, 1, s - 1, s, s + 1, s + 2, 3600]
    for d in (DAY, DAY + s):
        for e in (-2, -1, 0, 1, 2):
            base += [d + e, -d + e]
    out = []
    for o in base:
        if o not in out:
            out.append(o)
    return out


def mk(offs, skew, frac, tag):
    c = {"skew": skew, "frac": frac, "tag": tag}
    c.update(offs)
    return c


def generate(ctx):
    rng = ctx.rng
    cases = []
    for skew in SKEWS:
        for f in FIELDS:
            for o in offsets(skew):
                if f == "issue" and o is None:
                    continue
                for frac in (None, "5", "999"):
                    if frac == "999" and not ctx.thorough and rng.random() > 0.3:
                        continue
                    offs = dict(BASE)
                    offs[f] = o
                    cases.append(mk(offs, skew, frac if o is not None else None, "sweep:" + f))
    # NotBefore x NotOnOrAfter products
    small = [None, -3600, -61, -60, -59, -1, 0, 1, 59, 60, 61, 3600]
    for skew in (None, 60):
        for a in small:
            for b in small:
                offs = dict(BASE)
                offs["cnb"], offs["cnooa"] = a, b
                cases.append(mk(offs, skew, None, "pair:cond"))
                offs = dict(BASE)
                offs["snb"], offs["snooa"] = a, b
                cases.append(mk(offs, skew, None, "pair:scd"))
    # sess x cnooa (expiry selection)
    for a in small:
        for b in small:
            offs = dict(BASE)
            offs["sess"], offs["cnooa"] = a, b
            cases.append(mk(offs, rng.choice(SKEWS), None, "pair:expiry"))
    # random combinations
    for _ in range(2500 if ctx.thorough else 400):
        skew = rng.choice(SKEWS)
        offs = {}
        for f in FIELDS:
            r = rng.random()
            if r < 0.5:
                offs[f] = BASE[f] if BASE[f] is not None else rng.choice([None, 300, 3600])
            elif r < 0.85:
                offs[f] = rng.choice(offsets(skew))
            else:
                offs[f] = rng.randint(-2 * DAY, 2 * DAY)
        if offs["issue"] is None:
            offs["issue"] = 0
        cases.append(mk(offs, skew, rng.choice([None, None, "5", "123456"]), "random"))
    # the process time zone must not matter: the same sweeps in a zone east and a zone west of UTC
    # (POSIX TZ strings, no tzdata needed); the model has no such input
    tzs = ["JST-9", "EST5", "NST3:30", "LINT-14"]
    for i, tz in enumerate(tzs if ctx.thorough else tzs[:2]):
        for skew in (None, 60):
            for f in FIELDS:
                for o in offsets(skew):
                    if (f == "issue" and o is None) or (not ctx.thorough and rng.random() > 0.55):
                        continue
                    offs = dict(BASE)
                    offs[f] = o
                    c = mk(offs, skew, None, "tz:" + tz)
                    c["tz"] = tz
                    cases.append(c)
    cases += text_cases(ctx)
    return cases


# ---------------------------------------------------------------------------- time-stamp TEXT cases (C05/Time.v)
Y10K = 253402300800


def _fmt(y, mo, d, h, mi, s):
    return "%04d-%02d-%02dT%02d:%02d:%02dZ" % (y, mo, d, h, mi, s)


def _variants(rng, base):
    """Syntactic variants of one canonical text 'YYYY-MM-DDTHH:MM:SSZ'."""
    core = base[:-1]
    y, mo, d = core[0:4], core[5:7], core[8:10]
    h, mi, sec = core[11:13], core[14:16], core[17:19]
    short = lambda x: x.lstrip("0") or "0"  # noqa: E731
    out = [base, core, core.lower() + "z", core + "z", base.replace("T", "t"),
           core + ".5Z", core + ".Z", core + ".123456", core + ".000Z", core + ".5z", core + ".5.5Z",
           base + "\n", core + "\n", base + " ", " " + base, base + "Z", core + "+00:00", core + "-01:00",
           "%s-%s-%sT%s:%s:%sZ" % (y, short(mo), short(d), short(h), short(mi), short(sec)),
           "%s-%s-%sT%s:%s:%sZ" % (y, short(mo), d, h, mi, sec),
           "%s-%s-%sT%s:%s:%sZ" % (y, mo, short(d), h, mi, sec),
           "%s-%s-%sT%s:%s:%sZ" % (y, mo, d, short(h), mi, sec),
           "%s-%s-%sT%s:%s:%sZ" % (y, mo, d, h, short(mi), sec),
           "%s-%s-%sT%s:%s:%sZ" % (y, mo, d, h, mi, short(sec)),
           "%s-%s-%sT%s:%s:%s.5Z" % (y, mo, short(d), h, mi, sec),
           "%s-%s- %sT%s:%s:%sZ" % (y, mo, short(d)[-1:], h, mi, sec),
           "%s-%s-%s %s:%s:%sZ" % (y, mo, d, h, mi, sec),
           "0" + base, base[1:], base.replace("-", "/", 1), base.replace(":", ".", 1),
           "%s-%s-%sT%s:%s:60Z" % (y, mo, d, h, mi), "%s-%s-%sT%s:%s:61Z" % (y, mo, d, h, mi),
           "%s-%s-%sT%s:%s:62Z" % (y, mo, d, h, mi), "%s-%s-%sT24:%s:%sZ" % (y, mo, d, mi, sec),
           "%s-%s-%sT%s:60:%sZ" % (y, mo, d, h, sec), "%s-13-%sT%s:%s:%sZ" % (y, d, h, mi, sec),
           "%s-00-%sT%s:%s:%sZ" % (y, d, h, mi, sec), "%s-%s-00T%s:%s:%sZ" % (y, mo, h, mi, sec),
           "%s-%s-32T%s:%s:%sZ" % (y, mo, h, mi, sec), "%s-%s-31T%s:%s:%sZ" % (y, mo, h, mi, sec),
           "%s-%s-30T%s:%s:%sZ" % (y, mo, h, mi, sec), "%s-%s-29T%s:%s:%sZ" % (y, mo, h, mi, sec),
           "%s-02-29T%s:%s:%sZ" % (y, h, mi, sec), "%s-02-30T%s:%s:%sZ" % (y, h, mi, sec),
           "0000-%s-%sT%s:%s:%sZ" % (mo, d, h, mi, sec), "%s-%s-%sT%s:%s:%s" % (y, mo, d, h, mi, sec[:1]),
           base.replace(base[rng.randrange(len(base))], rng.choice("x-:TZ. 07"), 1)]
    return out


def text_cases(ctx):
    rng = ctx.rng
    stamps = [0, 1, 59, 60, 61, 3599, 3600, 86399, 86400, 86401, 951782400, 951868799, 951868800,  # 2000-02-29
              1709164800, 1709251199, 1709251200, 1735689599, 1735689600, 4107542400, NOW, NOW - 1, NOW + 1,
              Y10K - 1, Y10K - 86400, 978307199, 978307200, 68169599, 68169600]
    for _ in range(400 if ctx.thorough else 40):
        stamps.append(rng.randrange(0, Y10K))
    for _ in range(200 if ctx.thorough else 30):
        stamps.append(rng.randrange(0, 4102444800))
    texts = []
    for ts in stamps:
        base = env.iso(ts)
        texts += _variants(rng, base) if (ctx.thorough or rng.random() < 0.5 or ts < 100000) else [base, base[:-1] + ".25Z"]
    # dates before the epoch and arbitrary field combinations (also impossible ones)
    for _ in range(600 if ctx.thorough else 150):
        y = rng.choice([1, 2, 99, 100, 400, 1582, 1600, 1899, 1900, 1904, 1969, 1970, 2000, 2023, 2024, 2100, 9999,
                        rng.randrange(1, 10000)])
        mo, d = rng.randrange(0, 14), rng.randrange(0, 33)
        h, mi, sec = rng.randrange(0, 26), rng.randrange(0, 62), rng.randrange(0, 64)
        if rng.random() < 0.7:
            mo, d = max(1, min(12, mo)), max(1, min(31, d))
        if rng.random() < 0.7:
            h, mi, sec = min(23, h), min(59, mi), min(59, sec)
        b = _fmt(y, mo, d, h, mi, sec)
        texts.append(b)
        if rng.random() < 0.3:
            texts.append(rng.choice(_variants(rng, b)))
    texts += ["", "Z", "T", "now", "2020", "2020-01-01", "2020-01-01T", "2020-01-01T00:00", "20200101T000000Z",
              "2020-01-01T00:00:00,5Z", "2020-01-01T00:00:00.Z\n", "\n", "2020-01-01T00:00:00\n\n", "99999-01-01T00:00:00Z",
              "2020-1-1T0:0:0", "2020-1-1T0:0:0.5Z", "2020-01-01T00:00:00.5ZZ", "2020-01-01T00:00:00ZZ", "-2020-01-01T00:00:00Z",
              "+2020-01-01T00:00:00Z", "2020-01-01T00:00:00Z\t", "2020-01-01T00:00: 0Z", "2020-01-01T 0:00:00Z",
              "2020- 1-01T00:00:00Z", "2020-01- 0T00:00:00Z", "2020-01-  1T00:00:00Z"]
    seen, out = set(), []
    for t in texts:
        if t not in seen and all(ord(c) < 128 for c in t):
            seen.add(t)
            out.append({"text": t, "tag": "text"})
    return out


def stamp(case, f):
    o = case[f]
    if o is None:
        return None
    return env.iso(NOW + o, case["frac"])


def observe_text(case):
    import calendar

    from saml2 import time_util
    try:
        return {"secs": int(calendar.timegm(time_util.str_to_time(case["text"]))), "exc": None}
    except Exception as e:  # the exception class is the observation
        return {"secs": None, "exc": type(e).__name__}


def observe(case):
    if "text" in case:
        return observe_text(case)
    if case.get("tz"):
        import os
        import time as _t
        old = os.environ.get("TZ")
        os.environ["TZ"] = case["tz"]
        _t.tzset()
        try:
            return observe(dict(case, tz=None))
        finally:
            if old is None:
                os.environ.pop("TZ", None)
            else:
                os.environ["TZ"] = old
            _t.tzset()
    over = {}
    if case["skew"] is not None:
        over["accepted_time_diff"] = case["skew"]
    sp = spaccept.get_sp(over)
    a = spaccept.good_assertion()
    cond = {"audience_restrictions": [[world.SP_ID]]}
    if stamp(case, "cnb"):
        cond["not_before"] = stamp(case, "cnb")
    if stamp(case, "cnooa"):
        cond["not_on_or_after"] = stamp(case, "cnooa")
    a["conditions"] = cond
    d = {"recipient": world.SP_ACS_POST, "in_response_to": "req-1"}
    if stamp(case, "snb"):
        d["not_before"] = stamp(case, "snb")
    if stamp(case, "snooa"):
        d["not_on_or_after"] = stamp(case, "snooa")
    a["subject"]["confirmations"][0]["data"] = d
    st = {"authn_instant": env.iso(NOW), "session_index": "s-1"}
    if stamp(case, "sess"):
        st["session_not_on_or_after"] = stamp(case, "sess")
    a["authn_statements"] = [st]
    r = spaccept.good_response(issue_instant=stamp(case, "issue"))
    xml = spaccept.build(r, [a], sign_response="idp")
    o = spaccept.observe(sp, xml, world.BINDING_HTTP_POST, {"req-1": "/"})
    return {"identity": o["identity"], "nooa": o["nooa"], "exc": o["exc"]}


def cq_stamp(case, f):
    o = case[f]
    if o is None:
        return "None"
    return "(Some (%s, %s))" % (cq(NOW + o), cq(bool(case["frac"])))


TEXT_EXC = {"ValueError": "TValueError", "AttributeError": "TAttributeError", "TypeError": "TEmpty"}


def coq_case(case, obs):
    if "text" in case:
        r = "(TVal %s)" % cq(obs["secs"]) if obs["exc"] is None else TEXT_EXC.get(obs["exc"], "TOther")
        return "C05.Corr.CTime %s %s" % (cq(case["text"]), r)
    if obs["identity"]:
        n = obs["nooa"]
        v = "(Accept %s)" % cq(int(n) if isinstance(n, int) else -1)
    else:
        v = "Reject"
    skew = "None" if case["skew"] is None else "(Some %s)" % cq(case["skew"])
    issue = "(%s, %s)" % (cq(NOW + case["issue"]), cq(bool(case["frac"])))
    return "C05.Corr.mk %s %s %s %s %s %s %s %s %s" % (
        cq(NOW), skew, cq_stamp(case, "cnb"), cq_stamp(case, "cnooa"), cq_stamp(case, "snb"), cq_stamp(case, "snooa"),
        cq_stamp(case, "sess"), issue, v)


def nontrivial(case, obs):
    if "text" in case:
        return ("text", case["text"])
    moved = tuple((f, case[f]) for f in FIELDS if case[f] != BASE[f])
    if not moved:
        return None
    return (moved, case["skew"], bool(case["frac"]), case.get("tz"))


def histogram(cases, observed):
    h = {"by_tag": {}, "accepted": 0, "rejected": 0, "exceptions": {}}
    h["text_results"] = {}
    for c, o in zip(cases, observed):
        h["by_tag"][c["tag"]] = h["by_tag"].get(c["tag"], 0) + 1
        if "text" in c:
            k = o["exc"] or "value"
            h["text_results"][k] = h["text_results"].get(k, 0) + 1
            continue
        h["accepted" if o["identity"] else "rejected"] += 1
        if o["exc"]:
            h["exceptions"][o["exc"]] = h["exceptions"].get(o["exc"], 0) + 1
    return h


def explain_term(t):
    return "C05.Corr.explain (%s)" % t
